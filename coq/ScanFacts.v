(* ScanFacts.v — the loops of Compact (compact, with or without HTML escaping) and Indent over the
   translated scanner (Scan.v): (1) they accept exactly the texts checkValid accepts, whatever the
   output accumulator does; (2) on a text the reader Text.parse reads as t, compact without escaping
   writes Text.print false t, and Indent writes Text.pp false ind 0 t. *)
From Coq Require Import Lia.
From JP Require Import Bytes Json Text Scan ScannerRef ScannerTie ScannerCorrect ScannerGrammar ScannerParse.
From JP.gen Require Import ScannerGen.

(* ---------------------------------------------------------------------------------------------- *)
(* 1. acceptance: the scanner evolves in compact_loop / indent_loop exactly as in check_loop        *)
(* ---------------------------------------------------------------------------------------------- *)

Lemma compact_loop_check esc : forall bs s skip out,
  match compact_loop esc s bs skip out with
  | Some (s', _) => check_loop s bs = Some s'
  | None => check_loop s bs = None
  end.
Proof.
  induction bs as [|c r IH]; intros s skip out.
  - reflexivity.
  - cbn [compact_loop check_loop]. destruct (step_fn (step s) s c) as [s' v].
    destruct (v =? scanError)%Z; [reflexivity|].
    destruct skip as [|k]; [|apply IH].
    destruct (esc && (Byte.eqb c x3c || Byte.eqb c x3e || Byte.eqb c x26)); [apply IH|].
    match goal with |- context [if ?b then _ else _] => destruct b end; [apply IH|].
    destruct (scanSkipSpace <=? v)%Z; apply IH.
Qed.

Lemma indent_loop_check ind : forall bs s need depth out,
  match indent_loop ind s bs need depth out with
  | Some (s', _) => check_loop s bs = Some s'
  | None => check_loop s bs = None
  end.
Proof.
  induction bs as [|c r IH]; intros s need depth out.
  - reflexivity.
  - cbn [indent_loop check_loop]. destruct (step_fn (step s) s c) as [s' v].
    destruct (v =? scanSkipSpace)%Z eqn:Sk.
    { apply Z.eqb_eq in Sk. subst v. change (scanSkipSpace =? scanError)%Z with false. cbv iota. apply IH. }
    destruct (v =? scanError)%Z; [reflexivity|].
    destruct (need && negb (v =? scanEndObject)%Z && negb (v =? scanEndArray)%Z).
    + destruct (v =? scanContinue)%Z; [apply IH|]. destruct c; apply IH.
    + destruct (v =? scanContinue)%Z; [apply IH|]. destruct c; try apply IH; destruct need; apply IH.
Qed.

Theorem compact_accepts_iff_valid esc bs : (exists out, compact_go esc bs = Some out) <-> valid_gen bs = true.
Proof.
  unfold compact_go, valid_gen. pose proof (compact_loop_check esc bs scanner0 0%nat []) as H.
  destruct (compact_loop esc scanner0 bs 0 []) as [[s' out]|]; rewrite H.
  - destruct (snd (scanner_eof s') =? scanError)%Z; split.
    + intros [o E]. discriminate E.
    + discriminate.
    + reflexivity.
    + intros _. eexists. reflexivity.
  - split; [intros [o E]; discriminate E | discriminate].
Qed.

Theorem indent_accepts_iff_valid ind bs : (exists out, indent_go ind bs = Some out) <-> valid_gen bs = true.
Proof.
  unfold indent_go, valid_gen. pose proof (indent_loop_check ind bs scanner0 false 0%nat []) as H.
  destruct (indent_loop ind scanner0 bs false 0 []) as [[s' out]|]; rewrite H.
  - destruct (snd (scanner_eof s') =? scanError)%Z; split.
    + intros [o E]. discriminate E.
    + discriminate.
    + reflexivity.
    + intros _. eexists. reflexivity.
  - split; [intros [o E]; discriminate E | discriminate].
Qed.

(* hence: exactly the RFC 8259 texts (as read by Text.parse) *)
Theorem compact_accepts_iff_parse esc bs : (exists out, compact_go esc bs = Some out) <-> exists t, parse bs = Some t.
Proof. rewrite compact_accepts_iff_valid. apply valid_gen_iff_parse. Qed.

Theorem indent_accepts_iff_parse ind bs : (exists out, indent_go ind bs = Some out) <-> exists t, parse bs = Some t.
Proof. rewrite indent_accepts_iff_valid. apply valid_gen_iff_parse. Qed.

Print Assumptions compact_accepts_iff_parse.
Print Assumptions indent_accepts_iff_parse.

(* ---------------------------------------------------------------------------------------------- *)
(* 2. a loop with an arbitrary accumulator, and its run on the automaton that keeps the op codes    *)
(* ---------------------------------------------------------------------------------------------- *)

Definition ostep (x : st) (stk : list ps) (c : byte) : option (st * list ps * Z) :=
  let r := ref_step (canon x stk) c in
  if err (fst r) then None else Some (step (fst r), parseState (fst r), snd r).

Lemma astep_ostep x stk c :
  astep x stk c = match ostep x stk c with Some (x', stk', _) => Some (x', stk') | None => None end.
Proof. unfold astep, ostep. cbv zeta. destruct (err (fst (ref_step (canon x stk) c))); reflexivity. Qed.

Section Generic.
  Variable A : Type.
  (* accumulator update: old value, op code, the byte, the input after the byte *)
  Variable f : A -> Z -> byte -> bytes -> A.

  Fixpoint gloop (s : scanner) (bs : bytes) (a : A) : option (scanner * A) :=
    match bs with
    | [] => Some (s, a)
    | c :: r =>
        let (s', v) := step_fn (step s) s c in
        if (v =? scanError)%Z then None else gloop s' r (f a v c r)
    end.

  Definition gfin (s : scanner) (bs : bytes) (a : A) : option A :=
    match gloop s bs a with
    | None => None
    | Some (s', a') => if (snd (scanner_eof s') =? scanError)%Z then None else Some a'
    end.

  Fixpoint grun (x : st) (stk : list ps) (bs : bytes) (a : A) : option A :=
    match bs with
    | [] => if aaccept x stk then Some a else None
    | c :: r =>
        match ostep x stk c with
        | Some (x', stk', v) => grun x' stk' r (f a v c r)
        | None => None
        end
    end.

  Lemma dead_g s bs a : err s = true -> step s = St_stateError -> gfin s bs a = None.
  Proof.
    intros E X. unfold gfin. destruct bs as [|c r].
    - cbn [gloop]. unfold scanner_eof. rewrite E. reflexivity.
    - cbn [gloop]. rewrite X. reflexivity.
  Qed.

  Lemma gfin_grun : forall bs s a, swf s -> is_error (step s) = false ->
    gfin s bs a = grun (step s) (parseState s) bs a.
  Proof.
    induction bs as [|c r IH]; intros s a W NE.
    - unfold gfin. cbn [gloop grun].
      pose proof (gen_accepts_arun [] s W NE) as H. unfold gen_accepts_from in H. cbn [check_loop arun] in H.
      rewrite <- H. destruct (snd (scanner_eof s) =? scanError)%Z; reflexivity.
    - unfold gfin. cbn [gloop grun]. rewrite gen_eq_ref. unfold ostep.
      pose proof (swf_canon s W) as Cs.
      pose proof (ref_step_canon (step s) (parseState s) c NE) as [R1 R2]. rewrite <- Cs in R1, R2. cbv zeta in R1, R2.
      cbv zeta. rewrite <- Cs. destruct (ref_step s c) as [s' op] eqn:E. cbn [fst snd] in *.
      destruct (op =? scanError)%Z eqn:Op.
      + rewrite (R2 eq_refl). reflexivity.
      + destruct (err s') eqn:Es.
        * destruct R1 as [R1 _]. fold (gfin s' r (f a op c r)). apply dead_g; auto.
          destruct (step s'); try discriminate; reflexivity.
        * destruct R1 as [R1 R3]. fold (gfin s' r (f a op c r)). apply IH; auto.
  Qed.
End Generic.

(* compact and Indent as instances *)
Definition cf (esc : bool) (a : nat * bytes) (v : Z) (c : byte) (r : bytes) : nat * bytes :=
  match fst a with
  | S k => (k, snd a)
  | O =>
      if esc && (Byte.eqb c x3c || Byte.eqb c x3e || Byte.eqb c x26) then
        (0%nat, hex_lo c :: hex_hi c :: x30 :: x30 :: x75 :: x5c :: snd a)
      else if esc && Byte.eqb c xe2 &&
              match r with
              | x80 :: xa8 :: _ | x80 :: xa9 :: _ => true
              | _ => false
              end then
        (2%nat, hex_lo (match r with _ :: d :: _ => d | _ => x00 end) :: x32 :: x30 :: x32 :: x75 :: x5c :: snd a)
      else if (scanSkipSpace <=? v)%Z then (0%nat, snd a)
      else (0%nat, c :: snd a)
  end.

Lemma compact_loop_g esc : forall bs s skip out,
  compact_loop esc s bs skip out =
  match gloop _ (cf esc) s bs (skip, out) with Some (s', a) => Some (s', snd a) | None => None end.
Proof.
  induction bs as [|c r IH]; intros s skip out; [reflexivity|].
  cbn [compact_loop gloop]. destruct (step_fn (step s) s c) as [s' v].
  destruct (v =? scanError)%Z; [reflexivity|]. unfold cf. cbn [fst snd].
  destruct skip as [|k]; [|apply IH].
  destruct (esc && (Byte.eqb c x3c || Byte.eqb c x3e || Byte.eqb c x26)); [apply IH|].
  match goal with |- context [if ?b then _ else _] => destruct b end; [apply IH|].
  destruct (scanSkipSpace <=? v)%Z; apply IH.
Qed.

Definition idf (ind : bytes) (a : bool * nat * bytes) (v : Z) (c : byte) (r : bytes) : bool * nat * bytes :=
  if (v =? scanSkipSpace)%Z then a else
  let '(need, depth, out) := a in
  let '(need, depth, out) :=
    if need && negb (v =? scanEndObject)%Z && negb (v =? scanEndArray)%Z
    then (false, S depth, newline_rev ind (S depth) out)
    else (need, depth, out) in
  if (v =? scanContinue)%Z then (need, depth, c :: out)
  else
    match c with
    | x7b | x5b => (true, depth, c :: out)
    | x2c => (need, depth, newline_rev ind depth (c :: out))
    | x3a => (need, depth, x20 :: c :: out)
    | x7d | x5d =>
        if need then (false, depth, c :: out)
        else (need, pred depth, c :: newline_rev ind (pred depth) out)
    | _ => (need, depth, c :: out)
    end.

Lemma indent_loop_g ind : forall bs s need depth out,
  indent_loop ind s bs need depth out =
  match gloop _ (idf ind) s bs (need, depth, out) with Some (s', a) => Some (s', snd a) | None => None end.
Proof.
  induction bs as [|c r IH]; intros s need depth out; [reflexivity|].
  cbn [indent_loop gloop]. destruct (step_fn (step s) s c) as [s' v]. unfold idf.
  destruct (v =? scanSkipSpace)%Z eqn:Sk.
  { apply Z.eqb_eq in Sk. subst v. change (scanSkipSpace =? scanError)%Z with false. cbv iota. apply IH. }
  destruct (v =? scanError)%Z; [reflexivity|].
  destruct (need && negb (v =? scanEndObject)%Z && negb (v =? scanEndArray)%Z).
  + destruct (v =? scanContinue)%Z; [apply IH|]. destruct c; apply IH.
  + destruct (v =? scanContinue)%Z; [apply IH|]. destruct c; try apply IH; destruct need; apply IH.
Qed.

Lemma scanner0_swf : swf scanner0 /\ is_error (step scanner0) = false.
Proof. split; [split|]; reflexivity. Qed.

Lemma compact_go_grun esc bs :
  compact_go esc bs =
  match grun _ (cf esc) St_stateBeginValue [] bs (0%nat, []) with Some a => Some (rev (snd a)) | None => None end.
Proof.
  destruct scanner0_swf as [W NE]. rewrite <- (gfin_grun _ (cf esc) bs scanner0 _ W NE).
  unfold compact_go, gfin. rewrite compact_loop_g.
  destruct (gloop _ _ _ _ _) as [[s' a]|]; [|reflexivity].
  cbn [snd]. destruct (snd (scanner_eof s') =? scanError)%Z; reflexivity.
Qed.

Lemma indent_go_grun ind bs :
  indent_go ind bs =
  match grun _ (idf ind) St_stateBeginValue [] bs (false, 0%nat, []) with Some a => Some (rev (snd a)) | None => None end.
Proof.
  destruct scanner0_swf as [W NE]. rewrite <- (gfin_grun _ (idf ind) bs scanner0 _ W NE).
  unfold indent_go, gfin. rewrite indent_loop_g.
  destruct (gloop _ _ _ _ _) as [[s' a]|]; [|reflexivity].
  cbn [snd]. destruct (snd (scanner_eof s') =? scanError)%Z; reflexivity.
Qed.

(* ---------------------------------------------------------------------------------------------- *)
(* 3. tokens: the path of the automaton through a string, a literal, a number                      *)
(* ---------------------------------------------------------------------------------------------- *)

(* the bytes that compact(escape) rewrites *)
Definition isspecial (c : byte) : bool := match c with x3c | x3e | x26 | xe2 => true | _ => false end.

(* a step inside a token: the op is scanContinue *)
Definition cstep (x : st) (stk : list ps) (c : byte) : option (st * list ps) :=
  match ostep x stk c with
  | Some (x', stk', v) => if (v =? scanContinue)%Z then Some (x', stk') else None
  | None => None
  end.
(* the same on a byte that escaping leaves alone *)
Definition pstep (x : st) (stk : list ps) (c : byte) : option (st * list ps) :=
  if isspecial c then None else cstep x stk c.

Fixpoint crun (x : st) (stk : list ps) (p : bytes) : option (st * list ps) :=
  match p with
  | [] => Some (x, stk)
  | c :: r => match cstep x stk c with Some (x', stk') => crun x' stk' r | None => None end
  end.
Fixpoint prun (x : st) (stk : list ps) (p : bytes) : option (st * list ps) :=
  match p with
  | [] => Some (x, stk)
  | c :: r => match pstep x stk c with Some (x', stk') => prun x' stk' r | None => None end
  end.

Lemma crun_app p q : forall x stk,
  crun x stk (p ++ q) = match crun x stk p with Some (x', stk') => crun x' stk' q | None => None end.
Proof. induction p as [|c p IH]; intros x stk; [reflexivity|]. cbn [app crun]. destruct (cstep x stk c) as [[x' stk']|]; [apply IH | reflexivity]. Qed.

Lemma prun_app p q : forall x stk,
  prun x stk (p ++ q) = match prun x stk p with Some (x', stk') => prun x' stk' q | None => None end.
Proof. induction p as [|c p IH]; intros x stk; [reflexivity|]. cbn [app prun]. destruct (pstep x stk c) as [[x' stk']|]; [apply IH | reflexivity]. Qed.

Lemma prun_crun p : forall x stk r, prun x stk p = Some r -> crun x stk p = Some r.
Proof.
  induction p as [|c p IH]; intros x stk r; [exact (fun H => H)|]. cbn [prun crun]. unfold pstep.
  destruct (isspecial c); [discriminate|]. destruct (cstep x stk c) as [[x' stk']|]; [apply IH | discriminate].
Qed.

(* ---- strings ---- *)
Lemma cstr_plain stk c : Byte.eqb c x22 = false -> Byte.eqb c x5c = false -> (bn c <? 32)%N = false ->
  cstep St_stateInString stk c = Some (St_stateInString, stk).
Proof. bytecases c. Qed.

Lemma cstr_hex x x' stk c :
  (x, x') = (St_stateInStringEscU, St_stateInStringEscU1) \/ (x, x') = (St_stateInStringEscU1, St_stateInStringEscU12) \/
  (x, x') = (St_stateInStringEscU12, St_stateInStringEscU123) \/ (x, x') = (St_stateInStringEscU123, St_stateInString) ->
  is_hex c = true -> cstep x stk c = Some (x', stk).
Proof. intros [E|[E|[E|E]]]; inversion E; subst; bytecases c. Qed.

Lemma crun_cons x stk c p :
  crun x stk (c :: p) = match cstep x stk c with Some (x', stk') => crun x' stk' p | None => None end.
Proof. reflexivity. Qed.

Lemma scan_string_other c r : Byte.eqb c x22 = false -> Byte.eqb c x5c = false ->
  scan_string (c :: r) = if (bn c <? 32)%N then None else
                         match scan_string r with Some (b, rest) => Some (c :: b, rest) | None => None end.
Proof. destruct c; try discriminate; reflexivity. Qed.

(* the body is a literal prefix of the input, and the automaton walks through it and the closing quote
   with op scanContinue *)
Lemma string_trace stk : forall (n : nat) s b rest, (length s <= n)%nat -> scan_string s = Some (b, rest) ->
  s = b ++ x22 :: rest /\ crun St_stateInString stk (b ++ [x22]) = Some (St_stateEndValue, stk).
Proof.
  induction n as [|n IH]; intros s b rest L H.
  - destruct s; [discriminate | simpl in L; lia].
  - destruct s as [|c r]; [discriminate|]. simpl in L. apply le_S_n in L.
    assert (G : forall r0 (pre : bytes), c :: r = pre ++ r0 -> (length r0 <= n)%nat ->
                crun St_stateInString stk pre = Some (St_stateInString, stk) ->
                match scan_string r0 with Some (b1, rest1) => Some (pre ++ b1, rest1) | None => None end = Some (b, rest) ->
                c :: r = b ++ x22 :: rest /\ crun St_stateInString stk (b ++ [x22]) = Some (St_stateEndValue, stk)).
    { intros r0 pre E0 L0 C0 E. destruct (scan_string r0) as [[b1 rest1]|] eqn:S0; [|discriminate]. inversion E; subst b rest.
      destruct (IH r0 b1 rest1 L0 S0) as [E1 C1]. split.
      - rewrite E0, E1 at 1. now rewrite app_assoc.
      - rewrite <- app_assoc, crun_app, C0. exact C1. }
    destruct (Byte.eqb c x22) eqn:Q.
    { apply Byte.byte_dec_bl in Q. subst c. cbn [scan_string] in H. inversion H; subst. split; reflexivity. }
    destruct (Byte.eqb c x5c) eqn:Bs.
    { apply Byte.byte_dec_bl in Bs. subst c. cbn [scan_string] in H.
      destruct r as [|e r']; [discriminate|]. simpl in L.
      destruct e; try discriminate H;
        try (refine (G r' [x5c; _] eq_refl _ eq_refl H); lia).
      destruct r' as [|h1 [|h2 [|h3 [|h4 r'']]]]; try discriminate H.
      destruct (is_hex h1) eqn:H1; [|discriminate H]. destruct (is_hex h2) eqn:H2; [|discriminate H].
      destruct (is_hex h3) eqn:H3; [|discriminate H]. destruct (is_hex h4) eqn:H4; [|discriminate H].
      cbn [andb] in H. simpl in L. refine (G r'' [x5c; x75; h1; h2; h3; h4] eq_refl _ _ H); [lia|].
      rewrite crun_cons. change (cstep St_stateInString stk x5c) with (Some (St_stateInStringEsc, stk)). cbv beta iota.
      rewrite crun_cons. change (cstep St_stateInStringEsc stk x75) with (Some (St_stateInStringEscU, stk)). cbv beta iota.
      rewrite crun_cons, (cstr_hex _ St_stateInStringEscU1) by auto.
      rewrite crun_cons, (cstr_hex _ St_stateInStringEscU12) by auto.
      rewrite crun_cons, (cstr_hex _ St_stateInStringEscU123) by auto.
      rewrite crun_cons, (cstr_hex _ St_stateInString) by auto 6. reflexivity. }
    rewrite (scan_string_other c r Q Bs) in H. destruct (bn c <? 32)%N eqn:Ct; [discriminate|].
    refine (G r [c] eq_refl L _ H). rewrite crun_cons, cstr_plain by assumption. reflexivity.
Qed.

(* ---- literals ---- *)
Lemma strip_prefix_app pat : forall s rest, strip_prefix pat s = Some rest -> s = pat ++ rest.
Proof.
  induction pat as [|w pat IH]; intros s rest H.
  - destruct s; inversion H; reflexivity.
  - destruct s as [|c s]; [discriminate|]. rewrite strip_prefix_cons in H. destruct (Byte.eqb w c) eqn:E; [|discriminate].
    apply Byte.byte_dec_bl in E. subst c. cbn [app]. f_equal. apply IH. exact H.
Qed.

Lemma true_trace stk : prun St_stateT stk (B "rue") = Some (St_stateEndValue, stk).
Proof. reflexivity. Qed.
Lemma false_trace stk : prun St_stateF stk (B "alse") = Some (St_stateEndValue, stk).
Proof. reflexivity. Qed.
Lemma null_trace stk : prun St_stateN stk (B "ull") = Some (St_stateEndValue, stk).
Proof. reflexivity. Qed.

(* ---- numbers ---- *)
Definition isnum (x : st) : bool :=
  match x with St_state0 | St_state1 | St_stateDot0 | St_stateE0 => true | _ => false end.
(* the bytes on which a number state does not end the number *)
Definition numcont (x : st) (c : byte) : bool :=
  match x with
  | St_state0 => Byte.eqb c x2e || is_e c
  | St_state1 => is_digit c || Byte.eqb c x2e || is_e c
  | St_stateDot0 => is_digit c || is_e c
  | St_stateE0 => is_digit c
  | _ => false
  end.
Definition stops (x : st) (s : bytes) : Prop := match s with [] => True | c :: _ => numcont x c = false end.

Lemma num_end_step x stk c : isnum x = true -> numcont x c = false -> ostep x stk c = ostep St_stateEndValue stk c.
Proof. destruct x; try discriminate; intros _; destruct stk as [|[] l]; bytecases c. Qed.

Lemma num_end_accept x stk : isnum x = true -> aaccept x stk = aaccept St_stateEndValue stk.
Proof. destruct x; try discriminate; intros _; destruct stk as [|[] l]; reflexivity. Qed.

Lemma S1_p stk c : is_digit c = true -> pstep St_state1 stk c = Some (St_state1, stk).
Proof. bytecases c. Qed.
Lemma Dot0_p stk c : is_digit c = true -> pstep St_stateDot0 stk c = Some (St_stateDot0, stk).
Proof. bytecases c. Qed.
Lemma E0_p stk c : is_digit c = true -> pstep St_stateE0 stk c = Some (St_stateE0, stk).
Proof. bytecases c. Qed.
Lemma ESign_p stk c : is_digit c = true -> pstep St_stateESign stk c = Some (St_stateE0, stk).
Proof. bytecases c. Qed.
Lemma Dot_p stk c : is_digit c = true -> pstep St_stateDot stk c = Some (St_stateDot0, stk).
Proof. bytecases c. Qed.
Lemma E_p stk c : pstep St_stateE stk c =
  if is_sign c then Some (St_stateESign, stk) else if is_digit c then Some (St_stateE0, stk) else None.
Proof. bytecases c. Qed.
Lemma S0_pe stk c : is_e c = true -> pstep St_state0 stk c = Some (St_stateE, stk).
Proof. bytecases c. Qed.
Lemma S1_pe stk c : is_e c = true -> pstep St_state1 stk c = Some (St_stateE, stk).
Proof. bytecases c. Qed.
Lemma Dot0_pe stk c : is_e c = true -> pstep St_stateDot0 stk c = Some (St_stateE, stk).
Proof. bytecases c. Qed.
Lemma Neg_p stk c : pstep St_stateNeg stk c =
  if Byte.eqb c x30 then Some (St_state0, stk) else if is_digit19 c then Some (St_state1, stk) else None.
Proof. bytecases c. Qed.
Lemma BV_num_o stk c : special c = false -> Byte.eqb c x2d = false ->
  ostep St_stateBeginValue stk c =
  if Byte.eqb c x30 then Some (St_state0, stk, scanBeginLiteral)
  else if is_digit19 c then Some (St_state1, stk, scanBeginLiteral) else None.
Proof. bytecases c. Qed.
Lemma lead_plain c : Byte.eqb c x30 = true \/ is_digit19 c = true -> isspecial c = false.
Proof. intros [H|H]; revert H; bytecases c. Qed.

Lemma take_digits_app s : s = fst (take_digits s) ++ snd (take_digits s).
Proof. induction s as [|c r IH]; [reflexivity|]. rewrite take_digits_cons. destruct (is_digit c); cbn [fst snd app]; congruence. Qed.

Lemma digits_prun x stk : (forall c, is_digit c = true -> pstep x stk c = Some (x, stk)) ->
  forall s, prun x stk (fst (take_digits s)) = Some (x, stk).
Proof.
  intros Lp. induction s as [|c r IH]; [reflexivity|]. rewrite take_digits_cons. destruct (is_digit c) eqn:D; [|reflexivity].
  cbn [fst prun]. rewrite Lp by assumption. exact IH.
Qed.

(* one or more digits: from x (which needs a digit) into x0 (which loops on digits) *)
Lemma digits1_prun x x0 stk s d0 d rest :
  (forall c, is_digit c = true -> pstep x stk c = Some (x0, stk)) ->
  (forall c, is_digit c = true -> pstep x0 stk c = Some (x0, stk)) ->
  take_digits s = (d0 :: d, rest) ->
  s = (d0 :: d) ++ rest /\ prun x stk (d0 :: d) = Some (x0, stk) /\ hd_ok nondigit rest.
Proof.
  intros St Lp T. pose proof (take_digits_app s) as Ea. pose proof (take_digits_hd s) as Hh. rewrite T in Ea, Hh. cbn [fst snd] in Ea, Hh.
  split; [exact Ea|]. split; [|exact Hh].
  destruct s as [|c r]; [discriminate|]. rewrite take_digits_cons in T. destruct (is_digit c) eqn:D; [|discriminate].
  inversion T; subst. cbn [prun]. rewrite St by assumption. apply digits_prun. exact Lp.
Qed.

Lemma stops_nondigit_E0 s : hd_ok nondigit s -> stops St_stateE0 s.
Proof. destruct s as [|c r]; [exact (fun H => H)|]. unfold hd_ok, nondigit, stops, numcont. now destruct (is_digit c). Qed.

Lemma exp_prun x stk P e s3 s4 :
  isnum x = true ->
  (forall c, is_e c = true -> pstep x stk c = Some (St_stateE, stk)) ->
  (forall c, P c = true -> is_e c = false -> numcont x c = false) ->
  hd_ok P s3 -> scan_exp s3 = Some (e, s4) ->
  s3 = e ++ s4 /\ exists x', prun x stk e = Some (x', stk) /\ isnum x' = true /\ stops x' s4.
Proof.
  intros Nx He HP Hd H. destruct s3 as [|c r].
  - inversion H; subst. split; [reflexivity|]. exists x. repeat split; assumption || exact I.
  - rewrite scan_exp_cons in H. destruct (is_e c) eqn:Ec.
    + cbv zeta in H. destruct r as [|sg r'']; [discriminate|]. destruct (is_sign sg) eqn:Sg.
      * destruct (take_digits r'') as [[|d0 d] rest] eqn:T; [discriminate|]. inversion H; subst e s4.
        destruct (digits1_prun St_stateESign St_stateE0 stk r'' d0 d rest (ESign_p stk) (E0_p stk) T) as [Ea [Pr Hh]].
        split; [cbn [app]; now rewrite Ea|]. exists St_stateE0. split; [|split; [reflexivity | apply stops_nondigit_E0; exact Hh]].
        change (c :: [sg] ++ d0 :: d) with (c :: sg :: d0 :: d). cbn [prun]. rewrite He by assumption. rewrite E_p, Sg.
        cbn [prun] in Pr. exact Pr.
      * destruct (take_digits (sg :: r'')) as [[|d0 d] rest] eqn:T; [discriminate|]. inversion H; subst e s4.
        assert (St : forall c0, is_digit c0 = true -> pstep St_stateE stk c0 = Some (St_stateE0, stk)).
        { intros c0 D. rewrite E_p, D. destruct (is_sign c0) eqn:S0; [|reflexivity].
          apply sign_nondigit in S0. congruence. }
        destruct (digits1_prun St_stateE St_stateE0 stk (sg :: r'') d0 d rest St (E0_p stk) T) as [Ea [Pr Hh]].
        split; [cbn [app]; now rewrite Ea|]. exists St_stateE0. split; [|split; [reflexivity | apply stops_nondigit_E0; exact Hh]].
        cbn [app]. cbn [prun]. rewrite He by assumption. cbn [prun] in Pr. exact Pr.
    + inversion H; subst e s4. split; [reflexivity|]. exists x. split; [reflexivity|]. split; [exact Nx|]. cbn. apply HP; [exact Hd | exact Ec].
Qed.

Lemma frac_prun x stk P f s2 s3 e s4 :
  isnum x = true ->
  pstep x stk x2e = Some (St_stateDot, stk) ->
  (forall c, is_e c = true -> pstep x stk c = Some (St_stateE, stk)) ->
  (forall c, P c = true -> notdot c = true -> is_e c = false -> numcont x c = false) ->
  hd_ok P s2 -> scan_frac s2 = Some (f, s3) -> scan_exp s3 = Some (e, s4) ->
  s2 = (f ++ e) ++ s4 /\ exists x', prun x stk (f ++ e) = Some (x', stk) /\ isnum x' = true /\ stops x' s4.
Proof.
  intros Nx Hdot He HP Hd F E.
  assert (NoFrac : hd_ok (fun c => P c && notdot c) s2 -> f = [] -> s3 = s2 ->
            s2 = (f ++ e) ++ s4 /\ exists x', prun x stk (f ++ e) = Some (x', stk) /\ isnum x' = true /\ stops x' s4).
  { intros Hd' -> ->. cbn [app]. apply (exp_prun x stk (fun c => P c && notdot c)); try assumption.
    intros c Pc Ec. apply andb_prop in Pc as [Pc Dc]. apply HP; assumption. }
  destruct s2 as [|c r].
  - inversion F; subst. apply NoFrac; [exact I | reflexivity | reflexivity].
  - rewrite scan_frac_cons in F. destruct (Byte.eqb c x2e) eqn:Dt.
    + apply Byte.byte_dec_bl in Dt. subst c. destruct (take_digits r) as [[|d0 d] rest] eqn:T; [discriminate|]. inversion F; subst f s3.
      destruct (digits1_prun St_stateDot St_stateDot0 stk r d0 d rest (Dot_p stk) (Dot0_p stk) T) as [Ea [Pr Hh]].
      destruct (exp_prun St_stateDot0 stk nondigit e rest s4 eq_refl (Dot0_pe stk)) as [Eb [x' [Pe [Nx' St']]]]; try assumption.
      { intros c Nd Ec. unfold numcont. unfold nondigit in Nd. destruct (is_digit c); [discriminate|]. exact Ec. }
      split.
      * rewrite Ea, Eb. cbn [app]. now rewrite <- !app_assoc.
      * exists x'. split; [|split; assumption]. change ((x2e :: d0 :: d) ++ e) with (x2e :: (d0 :: d) ++ e).
        cbn [prun]. rewrite Hdot. rewrite prun_app, Pr. exact Pe.
    + inversion F; subst f s3. apply NoFrac; [|reflexivity|reflexivity]. cbn. unfold notdot. rewrite Dt. cbn in Hd. rewrite Hd. reflexivity.
Qed.

Definition int_state (c : byte) : st := if Byte.eqb c x30 then St_state0 else St_state1.

(* after the first digit of the integer part *)
Lemma after_int stk c r i s2 f s3 e s4 :
  scan_int (c :: r) = Some (i, s2) -> scan_frac s2 = Some (f, s3) -> scan_exp s3 = Some (e, s4) ->
  (Byte.eqb c x30 = true \/ is_digit19 c = true) /\
  exists i', i = c :: i' /\ c :: r = (c :: i' ++ f ++ e) ++ s4 /\
  exists xN, prun (int_state c) stk (i' ++ f ++ e) = Some (xN, stk) /\ isnum xN = true /\ stops xN s4.
Proof.
  intros Hi F E. unfold scan_int in Hi. unfold int_state. destruct (Byte.eqb c x30) eqn:Z.
  - inversion Hi; subst i s2. split; [now left|]. exists []. split; [reflexivity|].
    destruct (frac_prun St_state0 stk tt_ f r s3 e s4 eq_refl eq_refl (S0_pe stk)) as [Ea [xN [Pr [Nx St]]]]; try assumption.
    { intros c0 _ D Ec. unfold numcont. unfold notdot in D. destruct (Byte.eqb c0 x2e); [discriminate|]. exact Ec. }
    { destruct r; exact eq_refl || exact I. }
    split; [cbn [app]; now rewrite Ea at 1|]. exists xN. repeat split; assumption.
  - destruct (is_digit19 c) eqn:D19; [|discriminate]. split; [now right|].
    destruct (take_digits r) as [d rest] eqn:T. inversion Hi; subst i s2. exists d. split; [reflexivity|].
    pose proof (take_digits_app r) as Ea. pose proof (take_digits_hd r) as Hh. pose proof (digits_prun St_state1 stk (S1_p stk) r) as Pd.
    rewrite T in Ea, Hh, Pd. cbn [fst snd] in Ea, Hh, Pd.
    destruct (frac_prun St_state1 stk nondigit f rest s3 e s4 eq_refl eq_refl (S1_pe stk)) as [Eb [xN [Pr [Nx St]]]]; try assumption.
    { intros c0 Nd D Ec. unfold numcont. unfold notdot in D. unfold nondigit in Nd.
      destruct (is_digit c0); [discriminate|]. destruct (Byte.eqb c0 x2e); [discriminate|]. exact Ec. }
    split; [cbn [app]; rewrite Ea at 1; rewrite Eb at 1; now rewrite <- !app_assoc|].
    exists xN. split; [|split; assumption]. rewrite prun_app, Pd. exact Pr.
Qed.

Lemma num_trace stk c r lit rest : special c = false -> scan_number (c :: r) = Some (lit, rest) ->
  exists x0 lit' xN, lit = c :: lit' /\ c :: r = lit ++ rest /\ isspecial c = false /\
    ostep St_stateBeginValue stk c = Some (x0, stk, scanBeginLiteral) /\
    prun x0 stk lit' = Some (xN, stk) /\ isnum xN = true /\ stops xN rest.
Proof.
  intros Sp H. rewrite scan_number_cons in H. destruct (Byte.eqb c x2d) eqn:M.
  - apply Byte.byte_dec_bl in M. subst c. destruct r as [|c2 r2]; [discriminate|].
    destruct (scan_int (c2 :: r2)) as [[i s2]|] eqn:I; [|discriminate]. destruct (scan_frac s2) as [[f s3]|] eqn:F; [|discriminate].
    destruct (scan_exp s3) as [[e s4]|] eqn:E; [|discriminate]. inversion H; subst lit rest.
    destruct (after_int stk c2 r2 i s2 f s3 e s4 I F E) as [Ld [i' [Ei [Ea [xN [Pr [Nx St]]]]]]]. subst i.
    exists St_stateNeg, ((c2 :: i') ++ f ++ e), xN. split; [reflexivity|]. split; [cbn [app] in *; now rewrite Ea at 1|].
    split; [reflexivity|]. split; [reflexivity|]. split; [|split; assumption].
    cbn [app prun]. rewrite Neg_p. unfold int_state in Pr. destruct Ld as [Ld|Ld].
    + rewrite Ld in *. exact Pr.
    + destruct (Byte.eqb c2 x30); [exact Pr|]. rewrite Ld. exact Pr.
  - destruct (scan_int (c :: r)) as [[i s2]|] eqn:I; [|discriminate]. destruct (scan_frac s2) as [[f s3]|] eqn:F; [|discriminate].
    destruct (scan_exp s3) as [[e s4]|] eqn:E; [|discriminate]. inversion H; subst lit rest.
    destruct (after_int stk c r i s2 f s3 e s4 I F E) as [Ld [i' [Ei [Ea [xN [Pr [Nx St]]]]]]]. subst i.
    exists (int_state c), (i' ++ f ++ e), xN. split; [reflexivity|]. split; [cbn [app] in *; now rewrite Ea at 1|].
    split; [apply lead_plain; exact Ld|]. split; [|split; [exact Pr | split; assumption]].
    rewrite BV_num_o by assumption. unfold int_state. destruct Ld as [Ld|Ld].
    + now rewrite Ld.
    + destruct (Byte.eqb c x30); [reflexivity|]. now rewrite Ld.
Qed.

(* ---------------------------------------------------------------------------------------------- *)
(* 4. structure: the steps of the automaton (with their op codes) between tokens                    *)
(* ---------------------------------------------------------------------------------------------- *)

Lemma ws_o x stk c : skips_ws x = true -> is_ws c = true -> ostep x stk c = Some (x, stk, scanSkipSpace).
Proof. destruct x; try discriminate; intros _; bytecases c. Qed.

Lemma endvalue_ws_o p l c : is_ws c = true ->
  ostep St_stateEndValue (p :: l) c = Some (St_stateEndValue, p :: l, scanSkipSpace).
Proof. destruct p; bytecases c. Qed.

Lemma top_o x c : x = St_stateEndValue \/ x = St_stateEndTop ->
  ostep x [] c = if is_ws c then Some (St_stateEndTop, [], scanEnd) else None.
Proof. intros [->| ->]; bytecases c. Qed.

Lemma push_arr_o stk d : dep stk d ->
  ostep St_stateBeginValue stk x5b =
  if (d =? 0)%N then None else Some (St_stateBeginValueOrEmpty, parseArrayValue :: stk, scanBeginArray).
Proof.
  intro D. pose proof (push_test stk parseArrayValue d D) as T.
  unfold ostep, canon. cbn -[Z.leb ps_len maxNestingDepth]. unfold scanner_pushParseState. cbn -[Z.leb ps_len maxNestingDepth]. rewrite T. destruct (d =? 0)%N; reflexivity.
Qed.

Lemma push_obj_o stk d : dep stk d ->
  ostep St_stateBeginValue stk x7b =
  if (d =? 0)%N then None else Some (St_stateBeginStringOrEmpty, parseObjectKey :: stk, scanBeginObject).
Proof.
  intro D. pose proof (push_test stk parseObjectKey d D) as T.
  unfold ostep, canon. cbn -[Z.leb ps_len maxNestingDepth]. unfold scanner_pushParseState. cbn -[Z.leb ps_len maxNestingDepth]. rewrite T. destruct (d =? 0)%N; reflexivity.
Qed.

Lemma pop_arr_o l : ostep St_stateEndValue (parseArrayValue :: l) x5d = Some (popped l, l, scanEndArray).
Proof.
  destruct l as [|q l]; [reflexivity|]. pose proof (pop_test parseArrayValue q l) as T.
  unfold ostep, canon. cbn -[Z.eqb ps_len Z.add]. unfold scanner_popParseState. cbn -[Z.eqb ps_len Z.add]. cbn -[Z.eqb ps_len Z.add] in T. rewrite T. reflexivity.
Qed.

Lemma pop_obj_o l : ostep St_stateEndValue (parseObjectValue :: l) x7d = Some (popped l, l, scanEndObject).
Proof.
  destruct l as [|q l]; [reflexivity|]. pose proof (pop_test parseObjectValue q l) as T.
  unfold ostep, canon. cbn -[Z.eqb ps_len Z.add]. unfold scanner_popParseState. cbn -[Z.eqb ps_len Z.add]. cbn -[Z.eqb ps_len Z.add] in T. rewrite T. reflexivity.
Qed.

Lemma empty_arr_o l : ostep St_stateBeginValueOrEmpty (parseArrayValue :: l) x5d = Some (popped l, l, scanEndArray).
Proof.
  destruct l as [|q l]; [reflexivity|]. pose proof (pop_test parseArrayValue q l) as T.
  unfold ostep, canon. cbn -[Z.eqb ps_len Z.add]. unfold scanner_popParseState. cbn -[Z.eqb ps_len Z.add]. cbn -[Z.eqb ps_len Z.add] in T. rewrite T. reflexivity.
Qed.

Lemma empty_obj_o l : ostep St_stateBeginStringOrEmpty (parseObjectKey :: l) x7d = Some (popped l, l, scanEndObject).
Proof.
  destruct l as [|q l]; [reflexivity|]. pose proof (pop_test parseObjectValue q l) as T.
  unfold ostep, canon. cbn -[Z.eqb ps_len Z.add]. unfold scanner_popParseState. cbn -[Z.eqb ps_len Z.add]. cbn -[Z.eqb ps_len Z.add] in T. rewrite T. reflexivity.
Qed.

Lemma arr_comma_o l : ostep St_stateEndValue (parseArrayValue :: l) x2c = Some (St_stateBeginValue, parseArrayValue :: l, scanArrayValue).
Proof. reflexivity. Qed.
Lemma obj_comma_o l : ostep St_stateEndValue (parseObjectValue :: l) x2c = Some (St_stateBeginString, parseObjectKey :: l, scanObjectValue).
Proof. reflexivity. Qed.
Lemma key_colon_o l : ostep St_stateEndValue (parseObjectKey :: l) x3a = Some (St_stateBeginValue, parseObjectValue :: l, scanObjectKey).
Proof. reflexivity. Qed.
Lemma quote_o x stk : x = St_stateBeginValue \/ x = St_stateBeginString ->
  ostep x stk x22 = Some (St_stateInString, stk, scanBeginLiteral).
Proof. intros [->| ->]; reflexivity. Qed.
Lemma lit_o stk : ostep St_stateBeginValue stk x74 = Some (St_stateT, stk, scanBeginLiteral) /\
  ostep St_stateBeginValue stk x66 = Some (St_stateF, stk, scanBeginLiteral) /\
  ostep St_stateBeginValue stk x6e = Some (St_stateN, stk, scanBeginLiteral).
Proof. repeat split. Qed.

Lemma bvoe_other_o stk c : is_ws c = false -> Byte.eqb c x5d = false ->
  ostep St_stateBeginValueOrEmpty stk c = ostep St_stateBeginValue stk c.
Proof. bytecases c. Qed.

Lemma bsoe_other_o stk c : is_ws c = false -> Byte.eqb c x7d = false ->
  ostep St_stateBeginStringOrEmpty stk c = ostep St_stateBeginString stk c.
Proof. bytecases c. Qed.

Lemma popped_o l c : ostep (popped l) l c = ostep St_stateEndValue l c.
Proof. destruct l as [|q l]; [|reflexivity]. cbn [popped]. rewrite !top_o by auto. reflexivity. Qed.

Lemma popped_accept l : aaccept (popped l) l = aaccept St_stateEndValue l.
Proof. destruct l as [|q l]; reflexivity. Qed.

Lemma parse_elems_nonempty f d s l rest : parse_elems f d s = Some (l, rest) -> l <> [].
Proof.
  destruct f as [|f]; [discriminate|]. cbn [parse_elems]. destruct (parse_value f d s) as [[v r0]|]; [|discriminate].
  destruct (skip_ws r0) as [|c r]; [discriminate|]. destruct c; try discriminate.
  - destruct (parse_elems f d r) as [[l0 r1]|]; [|discriminate]. intro H; inversion H. discriminate.
  - intro H; inversion H. discriminate.
Qed.

Lemma parse_members_nonempty f d s l rest : parse_members f d s = Some (l, rest) -> l <> [].
Proof.
  destruct f as [|f]; [discriminate|]. cbn [parse_members]. destruct (skip_ws s) as [|c r]; [discriminate|].
  destruct c; try discriminate. destruct (scan_string r) as [[k r0]|]; [|discriminate].
  destruct (skip_ws r0) as [|c1 r1]; [discriminate|]. destruct c1; try discriminate.
  destruct (parse_value f d r1) as [[v r2]|]; [|discriminate].
  destruct (skip_ws r2) as [|c3 r3]; [discriminate|]. destruct c3; try discriminate.
  - destruct (parse_members f d r3) as [[l0 r4]|]; [|discriminate]. intro H; inversion H. discriminate.
  - intro H; inversion H. discriminate.
Qed.

Lemma sep_concat_cons sep (x : bytes) y l : sep_concat sep (x :: y :: l) = x ++ sep ++ sep_concat sep (y :: l).
Proof. reflexivity. Qed.

Section GenericFacts.
  Variable A : Type.
  Variable f : A -> Z -> byte -> bytes -> A.

  Lemma grun_cons x stk c r a :
    grun A f x stk (c :: r) a =
    match ostep x stk c with Some (x', stk', v) => grun A f x' stk' r (f a v c r) | None => None end.
  Proof. reflexivity. Qed.

  Lemma grun_num_end x stk s a : isnum x = true -> stops x s -> grun A f x stk s a = grun A f St_stateEndValue stk s a.
  Proof.
    intros Nx St. destruct s as [|c r].
    - cbn [grun]. now rewrite (num_end_accept x stk Nx).
    - rewrite !grun_cons, (num_end_step x stk c Nx St). reflexivity.
  Qed.

  Lemma grun_popped l s a : grun A f (popped l) l s a = grun A f St_stateEndValue l s a.
  Proof. destruct s as [|c r]; [cbn [grun]; now rewrite popped_accept | rewrite !grun_cons, popped_o; reflexivity]. Qed.
End GenericFacts.

(* ---------------------------------------------------------------------------------------------- *)
(* 5. compact: the output on a text that parses to t is print esc t                                 *)
(* ---------------------------------------------------------------------------------------------- *)

Definition CR (esc : bool) (x : st) (stk : list ps) (s : bytes) (out : bytes) : option (nat * bytes) :=
  grun _ (cf esc) x stk s (0%nat, out).

Lemma CR_cons esc x stk c r out :
  CR esc x stk (c :: r) out =
  match ostep x stk c with Some (x', stk', v) => grun _ (cf esc) x' stk' r (cf esc (0%nat, out) v c r) | None => None end.
Proof. reflexivity. Qed.

Lemma CR_step esc x stk c r out x' stk' v out' :
  ostep x stk c = Some (x', stk', v) -> cf esc (0%nat, out) v c r = (0%nat, out') ->
  CR esc x stk (c :: r) out = CR esc x' stk' r out'.
Proof. intros O F. rewrite CR_cons, O, F. reflexivity. Qed.

Lemma ws_plain c : is_ws c = true -> isspecial c = false.
Proof. bytecases c. Qed.

Lemma cf_drop esc out v c r : isspecial c = false -> (scanSkipSpace <=? v)%Z = true ->
  cf esc (0%nat, out) v c r = (0%nat, out).
Proof.
  unfold cf; cbn [fst snd]; intros Sp V; rewrite V. destruct esc; [|reflexivity]. destruct c; try discriminate Sp; reflexivity.
Qed.

Lemma cf_keep esc out v c r : isspecial c = false -> (scanSkipSpace <=? v)%Z = false ->
  cf esc (0%nat, out) v c r = (0%nat, c :: out).
Proof.
  unfold cf; cbn [fst snd]; intros Sp V; rewrite V. destruct esc; [|reflexivity]. destruct c; try discriminate Sp; reflexivity.
Qed.

Lemma compact_prun esc : forall p x stk x' stk' s out, prun x stk p = Some (x', stk') ->
  CR esc x stk (p ++ s) out = CR esc x' stk' s (rev p ++ out).
Proof.
  induction p as [|c p IH]; intros x stk x' stk' s out H.
  - inversion H; reflexivity.
  - cbn [prun] in H. unfold pstep, cstep in H. destruct (isspecial c) eqn:Sp; [discriminate|].
    destruct (ostep x stk c) as [[[x1 stk1] v]|] eqn:O; [|discriminate].
    destruct (v =? scanContinue)%Z eqn:V; [|discriminate]. apply Z.eqb_eq in V. subst v.
    cbn [app]. rewrite (CR_step _ _ _ _ _ _ _ _ _ _ O (cf_keep esc out scanContinue c _ Sp eq_refl)).
    rewrite (IH _ _ _ _ _ _ H). cbn [rev]. now rewrite <- app_assoc.
Qed.

Lemma compactF_crun : forall p x stk x' stk' s out, crun x stk p = Some (x', stk') ->
  CR false x stk (p ++ s) out = CR false x' stk' s (rev p ++ out).
Proof.
  induction p as [|c p IH]; intros x stk x' stk' s out H.
  - inversion H; reflexivity.
  - cbn [crun] in H. unfold cstep in H.
    destruct (ostep x stk c) as [[[x1 stk1] v]|] eqn:O; [|discriminate].
    destruct (v =? scanContinue)%Z eqn:V; [|discriminate]. apply Z.eqb_eq in V. subst v.
    cbn [app]. rewrite (CR_step false _ _ _ _ _ _ _ _ (c :: out) O eq_refl).
    rewrite (IH _ _ _ _ _ _ H). cbn [rev]. now rewrite <- app_assoc.
Qed.

(* with escaping, inside a string *)
Definition ls (r : bytes) : bool :=
  match r with
  | x80 :: xa8 :: _ | x80 :: xa9 :: _ => true
  | _ => false
  end.

Lemma ls_quote p s : ls (p ++ x22 :: s) = ls p.
Proof.
  destruct p as [|d1 [|d2 p]]; [reflexivity | |].
  - destruct d1; reflexivity.
  - destruct d1; reflexivity.
Qed.

Lemma ls_true r : ls r = true -> exists d r', r = x80 :: d :: r' /\ (d = xa8 \/ d = xa9).
Proof.
  destruct r as [|d1 [|d2 r]]; try discriminate.
  - destruct d1; discriminate.
  - destruct d1; try discriminate. destruct d2; try discriminate; intros _; eauto.
Qed.

Lemma cf_e2_no out r : ls r = false -> cf true (0%nat, out) scanContinue xe2 r = (0%nat, xe2 :: out).
Proof.
  destruct r as [|d1 [|d2 r]]; try reflexivity.
  - destruct d1; reflexivity.
  - destruct d1; try reflexivity. destruct d2; try reflexivity; discriminate.
Qed.

Lemma html_e2_no r : ls r = false -> html_escape (xe2 :: r) = xe2 :: html_escape r.
Proof.
  destruct r as [|d1 r1]; [reflexivity|]. destruct d1; try (intros _; reflexivity).
  destruct r1 as [|d2 r2]; [reflexivity|]. destruct d2; try (intros _; reflexivity); discriminate.
Qed.

Lemma html_plain c r : isspecial c = false -> html_escape (c :: r) = c :: html_escape r.
Proof. bytecases c. Qed.

Lemma cstep_inv x stk c x' stk' : cstep x stk c = Some (x', stk') -> ostep x stk c = Some (x', stk', scanContinue).
Proof.
  unfold cstep. destruct (ostep x stk c) as [[[x1 stk1] v]|]; [|discriminate].
  destruct (v =? scanContinue)%Z eqn:V; [|discriminate]. apply Z.eqb_eq in V. subst v. intro H; inversion H; reflexivity.
Qed.

Lemma CR_skip x stk d r out x1 stk1 x2 stk2 x3 stk3 : d = xa8 \/ d = xa9 ->
  ostep x stk xe2 = Some (x1, stk1, scanContinue) -> ostep x1 stk1 x80 = Some (x2, stk2, scanContinue) ->
  ostep x2 stk2 d = Some (x3, stk3, scanContinue) ->
  CR true x stk (xe2 :: x80 :: d :: r) out = CR true x3 stk3 r (hex_lo d :: x32 :: x30 :: x32 :: x75 :: x5c :: out).
Proof.
  intros Hd O1 O2 O3. rewrite CR_cons, O1, grun_cons, O2, grun_cons, O3. destruct Hd as [-> | ->]; reflexivity.
Qed.

Lemma html_e2_yes d r : d = xa8 \/ d = xa9 ->
  html_escape (xe2 :: x80 :: d :: r) = [x5c; x75; x32; x30; x32; hex_lo d] ++ html_escape r.
Proof. intros [-> | ->]; reflexivity. Qed.

Lemma compactT_str : forall (n : nat) p, (length p <= n)%nat -> forall x stk x' stk' s out,
  crun x stk (p ++ [x22]) = Some (x', stk') ->
  CR true x stk (p ++ x22 :: s) out = CR true x' stk' s (x22 :: rev (html_escape p) ++ out).
Proof.
  assert (Base : forall x stk x' stk' s out, crun x stk ([] ++ [x22]) = Some (x', stk') ->
            CR true x stk ([] ++ x22 :: s) out = CR true x' stk' s (x22 :: rev (html_escape []) ++ out)).
  { intros x stk x' stk' s out H. cbn [app crun] in H.
    destruct (cstep x stk x22) as [[x1 stk1]|] eqn:C; [|discriminate]. inversion H; subst. apply cstep_inv in C.
    cbn [app]. apply (CR_step true _ _ _ _ _ _ _ _ _ C). reflexivity. }
  induction n as [|n IH]; intros p L x stk x' stk' s out H.
  - destruct p; [|simpl in L; lia]. apply Base. exact H.
  - destruct p as [|c p]; [apply Base; exact H|].
    simpl in L. apply le_S_n in L. cbn [app crun] in H.
    destruct (cstep x stk c) as [[x1 stk1]|] eqn:C; [|discriminate]. apply cstep_inv in C.
    cbn [app].
    destruct (isspecial c) eqn:Sp.
    + destruct c; try discriminate Sp.
      * (* & *)
        rewrite (CR_step true _ _ _ _ _ _ _ _ (rev [x5c; x75; x30; x30; x32; x36] ++ out) C eq_refl).
        change (html_escape (x26 :: p)) with ([x5c; x75; x30; x30; x32; x36] ++ html_escape p).
        rewrite (IH p L _ _ _ _ _ _ H), rev_app_distr, <- app_assoc. reflexivity.
      * (* < *)
        rewrite (CR_step true _ _ _ _ _ _ _ _ (rev [x5c; x75; x30; x30; x33; x63] ++ out) C eq_refl).
        change (html_escape (x3c :: p)) with ([x5c; x75; x30; x30; x33; x63] ++ html_escape p).
        rewrite (IH p L _ _ _ _ _ _ H), rev_app_distr, <- app_assoc. reflexivity.
      * (* > *)
        rewrite (CR_step true _ _ _ _ _ _ _ _ (rev [x5c; x75; x30; x30; x33; x65] ++ out) C eq_refl).
        change (html_escape (x3e :: p)) with ([x5c; x75; x30; x30; x33; x65] ++ html_escape p).
        rewrite (IH p L _ _ _ _ _ _ H), rev_app_distr, <- app_assoc. reflexivity.
      * (* e2 *)
        destruct (ls p) eqn:Lp.
        { apply ls_true in Lp as [d [p' [-> Hd]]]. cbn [app crun] in H.
          destruct (cstep x1 stk1 x80) as [[x2 stk2]|] eqn:C2; [|discriminate]. apply cstep_inv in C2.
          destruct (cstep x2 stk2 d) as [[x3 stk3]|] eqn:C3; [|discriminate]. apply cstep_inv in C3.
          simpl in L. cbn [app].
          rewrite (CR_skip _ _ _ _ _ _ _ _ _ _ _ Hd C C2 C3), (html_e2_yes d p' Hd).
          rewrite (IH p' (ltac:(lia)) _ _ _ _ _ _ H), rev_app_distr, <- app_assoc. reflexivity. }
        { rewrite (CR_step true _ _ _ _ _ _ _ _ (xe2 :: out) C) by (apply cf_e2_no; now rewrite ls_quote).
          rewrite html_e2_no by assumption.
          rewrite (IH p L _ _ _ _ _ _ H). cbn [rev]. now rewrite <- app_assoc. }
    + rewrite (CR_step true _ _ _ _ _ _ _ _ (c :: out) C) by (apply cf_keep; [assumption | reflexivity]).
      rewrite html_plain by assumption.
      rewrite (IH p L _ _ _ _ _ _ H). cbn [rev]. now rewrite <- app_assoc.
Qed.

Definition body (esc : bool) (b : bytes) : bytes := if esc then html_escape b else b.

Lemma c_string esc stk r b rest out : scan_string r = Some (b, rest) ->
  CR esc St_stateInString stk r out = CR esc St_stateEndValue stk rest (x22 :: rev (body esc b) ++ out).
Proof.
  intro H. destruct (string_trace stk _ r b rest (le_n _) H) as [E C]. rewrite E at 1. destruct esc; cbn [body].
  - apply (compactT_str _ b (le_n _)). exact C.
  - change (b ++ x22 :: rest) with (b ++ [x22] ++ rest). rewrite app_assoc, (compactF_crun _ _ _ _ _ _ _ C), rev_unit. reflexivity.
Qed.

Lemma rev_spell esc b out : rev (spell esc b) ++ out = x22 :: rev (body esc b) ++ x22 :: out.
Proof. unfold spell. fold (body esc b). cbn [rev]. rewrite rev_unit. cbn [app]. now rewrite <- app_assoc. Qed.

Lemma c_ws esc x stk out : skips_ws x = true -> forall s, CR esc x stk s out = CR esc x stk (skip_ws s) out.
Proof.
  intros X. induction s as [|c r IH]; [reflexivity|]. cbn [skip_ws]. destruct (is_ws c) eqn:W; [|reflexivity].
  rewrite (CR_step esc _ _ _ _ _ _ _ _ out (ws_o x stk c X W)) by (apply cf_drop; [apply ws_plain; exact W | reflexivity]).
  exact IH.
Qed.

Lemma c_endvalue_ws esc p l out : forall s,
  CR esc St_stateEndValue (p :: l) s out = CR esc St_stateEndValue (p :: l) (skip_ws s) out.
Proof.
  induction s as [|c r IH]; [reflexivity|]. cbn [skip_ws]. destruct (is_ws c) eqn:W; [|reflexivity].
  rewrite (CR_step esc _ _ _ _ _ _ _ _ out (endvalue_ws_o p l c W)) by (apply cf_drop; [apply ws_plain; exact W | reflexivity]).
  exact IH.
Qed.

Lemma c_endtop esc out : forall s, skip_ws s = [] -> CR esc St_stateEndTop [] s out = Some (0%nat, out).
Proof.
  induction s as [|c r IH]; [reflexivity|]. cbn [skip_ws]. destruct (is_ws c) eqn:W; [|discriminate]. intro H.
  pose proof (top_o St_stateEndTop c (or_intror eq_refl)) as O. rewrite W in O.
  rewrite (CR_step esc _ _ _ _ _ _ _ _ out O) by (apply cf_drop; [apply ws_plain; exact W | reflexivity]).
  apply IH. exact H.
Qed.

Lemma c_top esc out s : skip_ws s = [] -> CR esc St_stateEndValue [] s out = Some (0%nat, out).
Proof.
  destruct s as [|c r]; [reflexivity|]. cbn [skip_ws]. destruct (is_ws c) eqn:W; [|discriminate]. intro H.
  pose proof (top_o St_stateEndValue c (or_introl eq_refl)) as O. rewrite W in O.
  rewrite (CR_step esc _ _ _ _ _ _ _ _ out O) by (apply cf_drop; [apply ws_plain; exact W | reflexivity]).
  apply c_endtop. exact H.
Qed.

Lemma c_popped esc l s out : CR esc (popped l) l s out = CR esc St_stateEndValue l s out.
Proof. apply grun_popped. Qed.

Lemma c_number esc stk c r t rest out : special c = false ->
  match scan_number (c :: r) with Some (lit, rest0) => Some (TNum lit, rest0) | None => None end = Some (t, rest) ->
  CR esc St_stateBeginValue stk (c :: r) out = CR esc St_stateEndValue stk rest (rev (print esc t) ++ out).
Proof.
  intros Sp H. destruct (scan_number (c :: r)) as [[lit rest0]|] eqn:Sn; [|discriminate]. inversion H; subst t rest0.
  destruct (num_trace stk c r lit rest Sp Sn) as [x0 [lit' [xN [El [Ea [Pc [O [Pr [Nx St]]]]]]]]]. rewrite Ea. subst lit. cbn [app print].
  rewrite (CR_step esc _ _ _ _ _ _ _ _ (c :: out) O) by (apply cf_keep; [exact Pc | reflexivity]).
  rewrite (compact_prun esc _ _ _ _ _ _ _ Pr). unfold CR. rewrite (grun_num_end _ _ _ _ _ _ Nx St). cbn [rev]. now rewrite <- app_assoc.
Qed.

Lemma c_lit esc stk c x pat v r t rest out :
  ostep St_stateBeginValue stk c = Some (x, stk, scanBeginLiteral) -> isspecial c = false ->
  prun x stk pat = Some (St_stateEndValue, stk) -> print esc v = c :: pat ->
  match strip_prefix pat r with Some rest0 => Some (v, rest0) | None => None end = Some (t, rest) ->
  CR esc St_stateBeginValue stk (c :: r) out = CR esc St_stateEndValue stk rest (rev (print esc t) ++ out).
Proof.
  intros O Pc Pr Hp H. destruct (strip_prefix pat r) as [rest0|] eqn:Sp; [|discriminate]. inversion H; subst t rest0.
  apply strip_prefix_app in Sp. subst r.
  rewrite (CR_step esc _ _ _ _ _ _ _ _ (c :: out) O) by (apply cf_keep; [exact Pc | reflexivity]).
  rewrite (compact_prun esc _ _ _ _ _ _ _ Pr), Hp. cbn [rev]. now rewrite <- app_assoc.
Qed.

Definition pmember (esc : bool) (kv : bytes * tjson) : bytes := spell esc (fst kv) ++ x3a :: print esc (snd kv).

Lemma keep_struct esc out v c r : isspecial c = false -> (scanSkipSpace <=? v)%Z = false ->
  cf esc (0%nat, out) v c r = (0%nat, c :: out).
Proof. apply cf_keep. Qed.

Lemma rev_arr esc ts out :
  rev (print esc (TArr ts)) ++ out = x5d :: rev (sep_concat [x2c] (map (print esc) ts)) ++ x5b :: out.
Proof.
  cbn [print]. change (x5b :: sep_concat [x2c] (map (print esc) ts) ++ [x5d]) with ([x5b] ++ sep_concat [x2c] (map (print esc) ts) ++ [x5d]).
  rewrite !rev_app_distr. cbn [rev app]. now rewrite <- app_assoc.
Qed.

Lemma rev_obj esc ms out :
  rev (print esc (TObj ms)) ++ out = x7d :: rev (sep_concat [x2c] (map (pmember esc) ms)) ++ x7b :: out.
Proof.
  cbn [print]. fold (pmember esc).
  change (x7b :: sep_concat [x2c] (map (pmember esc) ms) ++ [x7d]) with ([x7b] ++ sep_concat [x2c] (map (pmember esc) ms) ++ [x7d]).
  rewrite !rev_app_distr. cbn [rev app]. now rewrite <- app_assoc.
Qed.

Theorem compact_struct esc : forall f,
  (forall d s stk t rest out, dep stk d -> parse_value f d s = Some (t, rest) ->
     CR esc St_stateBeginValue stk s out = CR esc St_stateEndValue stk rest (rev (print esc t) ++ out)) /\
  (forall d s l ts rest out, dep (parseArrayValue :: l) d -> parse_elems f d s = Some (ts, rest) ->
     CR esc St_stateBeginValue (parseArrayValue :: l) s out =
     CR esc St_stateEndValue l rest (x5d :: rev (sep_concat [x2c] (map (print esc) ts)) ++ out)) /\
  (forall d s l ms rest out, dep (parseObjectKey :: l) d -> parse_members f d s = Some (ms, rest) ->
     CR esc St_stateBeginString (parseObjectKey :: l) s out =
     CR esc St_stateEndValue l rest (x7d :: rev (sep_concat [x2c] (map (pmember esc) ms)) ++ out)).
Proof.
  induction f as [|f [IV [IE IM]]].
  { repeat split; intros; discriminate. }
  repeat split.
  - (* values *)
    intros d s stk t rest out D H. cbn [parse_value] in H. rewrite (c_ws esc St_stateBeginValue stk out eq_refl).
    destruct (skip_ws s) as [|c r] eqn:W; [discriminate|].
    pose proof (skip_ws_hd _ _ _ W) as Wc. clear W.
    destruct c; try discriminate Wc; try (apply c_number; [reflexivity | exact H]).
    + (* string *)
      destruct (scan_string r) as [[b rest0]|] eqn:Ss; [|discriminate]. inversion H; subst t rest0.
      rewrite (CR_step esc _ _ _ _ _ _ _ _ (x22 :: out) (quote_o _ stk (or_introl eq_refl))) by (apply cf_keep; reflexivity).
      rewrite (c_string esc stk r b rest _ Ss). cbn [print]. now rewrite rev_spell.
    + (* array *)
      destruct (d =? 0)%N eqn:Z; [discriminate|].
      pose proof (push_arr_o stk d D) as O. rewrite Z in O.
      rewrite (CR_step esc _ _ _ _ _ _ _ _ (x5b :: out) O) by (apply cf_keep; reflexivity).
      pose proof (dep_push parseArrayValue stk d D Z) as D'.
      rewrite (c_ws esc St_stateBeginValueOrEmpty _ _ eq_refl).
      destruct (skip_ws r) as [|c2 r2] eqn:W2.
      * destruct (parse_elems f (d - 1) r) as [[ts rest0]|] eqn:Pe; [|discriminate]. inversion H; subst t rest0.
        pose proof (IE _ _ _ _ _ (x5b :: out) D' Pe) as IEr.
        rewrite (c_ws esc St_stateBeginValue _ _ eq_refl), W2 in IEr. rewrite rev_arr, <- IEr. reflexivity.
      * pose proof (skip_ws_hd _ _ _ W2) as Wc2. destruct (Byte.eqb c2 x5d) eqn:E2.
        { apply Byte.byte_dec_bl in E2. subst c2. inversion H; subst t rest.
          rewrite (CR_step esc _ _ _ _ _ _ _ _ (x5d :: x5b :: out) (empty_arr_o stk)) by (apply cf_keep; reflexivity).
          rewrite c_popped. reflexivity. }
        { assert (H' : match parse_elems f (d - 1) r with Some (l, rest0) => Some (TArr l, rest0) | None => None end = Some (t, rest)).
          { destruct c2; try exact H; discriminate E2. }
          destruct (parse_elems f (d - 1) r) as [[ts rest0]|] eqn:Pe; [|discriminate]. inversion H'; subst t rest0.
          pose proof (IE _ _ _ _ _ (x5b :: out) D' Pe) as IEr.
          rewrite (c_ws esc St_stateBeginValue _ _ eq_refl), W2 in IEr. rewrite rev_arr, <- IEr.
          rewrite !CR_cons, bvoe_other_o by assumption. reflexivity. }
    + (* false *)
      exact (c_lit esc stk x66 St_stateF (B "alse") TFalse r t rest out (proj1 (proj2 (lit_o stk))) eq_refl (false_trace stk) eq_refl H).
    + (* null *)
      exact (c_lit esc stk x6e St_stateN (B "ull") TNull r t rest out (proj2 (proj2 (lit_o stk))) eq_refl (null_trace stk) eq_refl H).
    + (* true *)
      exact (c_lit esc stk x74 St_stateT (B "rue") TTrue r t rest out (proj1 (lit_o stk)) eq_refl (true_trace stk) eq_refl H).
    + (* object *)
      destruct (d =? 0)%N eqn:Z; [discriminate|].
      pose proof (push_obj_o stk d D) as O. rewrite Z in O.
      rewrite (CR_step esc _ _ _ _ _ _ _ _ (x7b :: out) O) by (apply cf_keep; reflexivity).
      pose proof (dep_push parseObjectKey stk d D Z) as D'.
      rewrite (c_ws esc St_stateBeginStringOrEmpty _ _ eq_refl).
      destruct (skip_ws r) as [|c2 r2] eqn:W2.
      * destruct (parse_members f (d - 1) r) as [[ms rest0]|] eqn:Pe; [|discriminate]. inversion H; subst t rest0.
        pose proof (IM _ _ _ _ _ (x7b :: out) D' Pe) as IMr.
        rewrite (c_ws esc St_stateBeginString _ _ eq_refl), W2 in IMr. rewrite rev_obj, <- IMr. reflexivity.
      * pose proof (skip_ws_hd _ _ _ W2) as Wc2. destruct (Byte.eqb c2 x7d) eqn:E2.
        { apply Byte.byte_dec_bl in E2. subst c2. inversion H; subst t rest.
          rewrite (CR_step esc _ _ _ _ _ _ _ _ (x7d :: x7b :: out) (empty_obj_o stk)) by (apply cf_keep; reflexivity).
          rewrite c_popped. reflexivity. }
        { assert (H' : match parse_members f (d - 1) r with Some (l, rest0) => Some (TObj l, rest0) | None => None end = Some (t, rest)).
          { destruct c2; try exact H; discriminate E2. }
          destruct (parse_members f (d - 1) r) as [[ms rest0]|] eqn:Pe; [|discriminate]. inversion H'; subst t rest0.
          pose proof (IM _ _ _ _ _ (x7b :: out) D' Pe) as IMr.
          rewrite (c_ws esc St_stateBeginString _ _ eq_refl), W2 in IMr. rewrite rev_obj, <- IMr.
          rewrite !CR_cons, bsoe_other_o by assumption. reflexivity. }
  - (* elements *)
    intros d s l ts rest out D H. cbn [parse_elems] in H.
    destruct (parse_value f d s) as [[v r0]|] eqn:Pv; [|discriminate].
    rewrite (IV _ _ _ _ _ out D Pv), c_endvalue_ws.
    destruct (skip_ws r0) as [|c r'] eqn:W; [discriminate|]. clear W.
    destruct c; try discriminate H.
    + (* , *)
      destruct (parse_elems f d r') as [[l0 rest0]|] eqn:Pe; [|discriminate]. inversion H; subst ts rest0.
      rewrite (CR_step esc _ _ _ _ _ _ _ _ (x2c :: rev (print esc v) ++ out) (arr_comma_o l)) by (apply cf_keep; reflexivity).
      rewrite (IE _ _ _ _ _ _ D Pe). apply parse_elems_nonempty in Pe. destruct l0 as [|t0 l0]; [congruence|].
      cbn [map]. rewrite sep_concat_cons, !rev_app_distr, <- !app_assoc. reflexivity.
    + (* ] *)
      inversion H; subst ts rest.
      rewrite (CR_step esc _ _ _ _ _ _ _ _ (x5d :: rev (print esc v) ++ out) (pop_arr_o l)) by (apply cf_keep; reflexivity).
      rewrite c_popped. reflexivity.
  - (* members *)
    intros d s l ms rest out D H. cbn [parse_members] in H. rewrite (c_ws esc St_stateBeginString _ _ eq_refl).
    destruct (skip_ws s) as [|c r] eqn:W; [discriminate|]. clear W.
    destruct c; try discriminate H.
    rewrite (CR_step esc _ _ _ _ _ _ _ _ (x22 :: out) (quote_o _ _ (or_intror eq_refl))) by (apply cf_keep; reflexivity).
    destruct (scan_string r) as [[k rest0]|] eqn:Ss; [|discriminate].
    rewrite (c_string esc _ r k rest0 _ Ss), c_endvalue_ws.
    destruct (skip_ws rest0) as [|c1 r1] eqn:W1; [discriminate|]. clear W1.
    destruct c1; try discriminate H.
    rewrite (CR_step esc _ _ _ _ _ _ _ _ (x3a :: x22 :: rev (body esc k) ++ x22 :: out) (key_colon_o l)) by (apply cf_keep; reflexivity).
    destruct (parse_value f d r1) as [[v rest']|] eqn:Pv; [|discriminate].
    rewrite (IV _ _ _ _ _ _ (dep_settop _ parseObjectValue _ _ D) Pv), c_endvalue_ws.
    destruct (skip_ws rest') as [|c3 r3] eqn:W3; [discriminate|]. clear W3.
    assert (Mem : rev (print esc v) ++ x3a :: x22 :: rev (body esc k) ++ x22 :: out = rev (pmember esc (k, v)) ++ out).
    { unfold pmember. cbn [fst snd]. change (spell esc k ++ x3a :: print esc v) with (spell esc k ++ [x3a] ++ print esc v).
      rewrite !rev_app_distr, <- !app_assoc, rev_spell. reflexivity. }
    destruct c3; try discriminate H.
    + (* , *)
      destruct (parse_members f d r3) as [[l0 rest0']|] eqn:Pe; [|discriminate]. inversion H; subst ms rest0'.
      rewrite (CR_step esc _ _ _ _ _ _ _ _ (x2c :: rev (print esc v) ++ x3a :: x22 :: rev (body esc k) ++ x22 :: out) (obj_comma_o l)) by (apply cf_keep; reflexivity).
      rewrite (IM _ _ _ _ _ _ D Pe). apply parse_members_nonempty in Pe. destruct l0 as [|m0 l0]; [congruence|].
      rewrite Mem. cbn [map]. rewrite sep_concat_cons, !rev_app_distr, <- !app_assoc. reflexivity.
    + (* } *)
      inversion H; subst ms rest.
      rewrite (CR_step esc _ _ _ _ _ _ _ _ (x7d :: rev (print esc v) ++ x3a :: x22 :: rev (body esc k) ++ x22 :: out) (pop_obj_o l)) by (apply cf_keep; reflexivity).
      rewrite c_popped, Mem. reflexivity.
Qed.

Theorem compact_go_print esc bs t : parse bs = Some t -> compact_go esc bs = Some (print esc t).
Proof.
  unfold parse. intro H. destruct (parse_value (parse_fuel bs) max_depth bs) as [[t0 rest]|] eqn:Pv; [|discriminate].
  destruct (skip_ws rest) eqn:W; [|discriminate]. inversion H; subst t0.
  rewrite compact_go_grun. change (grun _ (cf esc) St_stateBeginValue [] bs (0%nat, [])) with (CR esc St_stateBeginValue [] bs []).
  rewrite (proj1 (compact_struct esc _) _ _ [] _ _ [] eq_refl Pv), (c_top esc _ _ W). cbn [snd].
  now rewrite app_nil_r, rev_involutive.
Qed.

Print Assumptions compact_go_print.

(* ---------------------------------------------------------------------------------------------- *)
(* 6. Indent: the output on a text that parses to t is pp false ind 0 t, then the trailing space     *)
(* ---------------------------------------------------------------------------------------------- *)

Definition IR (ind : bytes) (x : st) (stk : list ps) (s : bytes) (need : bool) (dp : nat) (out : bytes)
  : option (bool * nat * bytes) :=
  grun _ (idf ind) x stk s (need, dp, out).

Lemma IR_cons ind x stk c r need dp out :
  IR ind x stk (c :: r) need dp out =
  match ostep x stk c with
  | Some (x', stk', v) => grun _ (idf ind) x' stk' r (idf ind (need, dp, out) v c r)
  | None => None
  end.
Proof. reflexivity. Qed.

Lemma IR_step ind x stk c r need dp out x' stk' v need' dp' out' :
  ostep x stk c = Some (x', stk', v) -> idf ind (need, dp, out) v c r = (need', dp', out') ->
  IR ind x stk (c :: r) need dp out = IR ind x' stk' r need' dp' out'.
Proof. intros O F. rewrite IR_cons, O, F. reflexivity. Qed.

(* the pending line break after an opening bracket *)
Definition ent_d (need : bool) (dp : nat) : nat := if need then S dp else dp.
Definition ent_o (ind : bytes) (need : bool) (dp : nat) (out : bytes) : bytes :=
  if need then newline_rev ind (S dp) out else out.

Lemma rep_bytes_rep n s : rep_bytes n s = rep n s.
Proof. induction n as [|n IH]; [reflexivity|]. cbn [rep_bytes rep]. now rewrite IH. Qed.

Lemma newline_rev_nl ind n out : newline_rev ind n out = rev (nl ind n) ++ out.
Proof. unfold newline_rev, nl. now rewrite rep_bytes_rep. Qed.

Definition nonstruct (c : byte) : bool :=
  match c with x7b | x5b | x2c | x3a | x7d | x5d => false | _ => true end.

Lemma idf_cont ind dp out c r : idf ind (false, dp, out) scanContinue c r = (false, dp, c :: out).
Proof. reflexivity. Qed.

Lemma idf_skip ind need dp out c r : idf ind (need, dp, out) scanSkipSpace c r = (need, dp, out).
Proof. reflexivity. Qed.

Lemma idf_lit ind need dp out c r : nonstruct c = true ->
  idf ind (need, dp, out) scanBeginLiteral c r = (false, ent_d need dp, c :: ent_o ind need dp out).
Proof. destruct need; destruct c; try discriminate; reflexivity. Qed.

Lemma idf_open_arr ind need dp out r :
  idf ind (need, dp, out) scanBeginArray x5b r = (true, ent_d need dp, x5b :: ent_o ind need dp out).
Proof. destruct need; reflexivity. Qed.

Lemma idf_open_obj ind need dp out r :
  idf ind (need, dp, out) scanBeginObject x7b r = (true, ent_d need dp, x7b :: ent_o ind need dp out).
Proof. destruct need; reflexivity. Qed.

Lemma idf_end ind dp out c r : is_ws c = true -> idf ind (false, dp, out) scanEnd c r = (false, dp, c :: out).
Proof. bytecases c. Qed.

Lemma BV_lit_nonstruct stk c x0 : special c = false ->
  ostep St_stateBeginValue stk c = Some (x0, stk, scanBeginLiteral) -> nonstruct c = true.
Proof. bytecases c. Qed.

Lemma indent_crun ind : forall p x stk x' stk' s dp out, crun x stk p = Some (x', stk') ->
  IR ind x stk (p ++ s) false dp out = IR ind x' stk' s false dp (rev p ++ out).
Proof.
  induction p as [|c p IH]; intros x stk x' stk' s dp out H.
  - inversion H; reflexivity.
  - cbn [crun] in H. destruct (cstep x stk c) as [[x1 stk1]|] eqn:C; [|discriminate]. apply cstep_inv in C.
    cbn [app]. rewrite (IR_step ind _ _ _ _ _ _ _ _ _ _ _ _ _ C (idf_cont ind dp out c _)).
    rewrite (IH _ _ _ _ _ _ _ H). cbn [rev]. now rewrite <- app_assoc.
Qed.

Lemma i_ws ind x stk need dp out : skips_ws x = true -> forall s, IR ind x stk s need dp out = IR ind x stk (skip_ws s) need dp out.
Proof.
  intros X. induction s as [|c r IH]; [reflexivity|]. cbn [skip_ws]. destruct (is_ws c) eqn:W; [|reflexivity].
  rewrite (IR_step ind _ _ _ _ _ _ _ _ _ _ _ _ _ (ws_o x stk c X W) (idf_skip ind need dp out c _)). exact IH.
Qed.

Lemma i_endvalue_ws ind p l need dp out : forall s,
  IR ind St_stateEndValue (p :: l) s need dp out = IR ind St_stateEndValue (p :: l) (skip_ws s) need dp out.
Proof.
  induction s as [|c r IH]; [reflexivity|]. cbn [skip_ws]. destruct (is_ws c) eqn:W; [|reflexivity].
  rewrite (IR_step ind _ _ _ _ _ _ _ _ _ _ _ _ _ (endvalue_ws_o p l c W) (idf_skip ind need dp out c _)). exact IH.
Qed.

Lemma i_endtop ind dp : forall s out, skip_ws s = [] -> IR ind St_stateEndTop [] s false dp out = Some (false, dp, rev s ++ out).
Proof.
  induction s as [|c r IH]; intros out; [reflexivity|]. cbn [skip_ws]. destruct (is_ws c) eqn:W; [|discriminate]. intro H.
  pose proof (top_o St_stateEndTop c (or_intror eq_refl)) as O. rewrite W in O.
  rewrite (IR_step ind _ _ _ _ _ _ _ _ _ _ _ _ _ O (idf_end ind dp out c r W)).
  rewrite (IH _ H). cbn [rev]. now rewrite <- app_assoc.
Qed.

Lemma i_top ind dp s out : skip_ws s = [] -> IR ind St_stateEndValue [] s false dp out = Some (false, dp, rev s ++ out).
Proof.
  destruct s as [|c r]; [reflexivity|]. cbn [skip_ws]. destruct (is_ws c) eqn:W; [|discriminate]. intro H.
  pose proof (top_o St_stateEndValue c (or_introl eq_refl)) as O. rewrite W in O.
  rewrite (IR_step ind _ _ _ _ _ _ _ _ _ _ _ _ _ O (idf_end ind dp out c r W)).
  rewrite (i_endtop ind dp _ _ H). cbn [rev]. now rewrite <- app_assoc.
Qed.

Lemma i_popped ind l s need dp out : IR ind (popped l) l s need dp out = IR ind St_stateEndValue l s need dp out.
Proof. apply grun_popped. Qed.

Lemma i_string ind stk r b rest dp out : scan_string r = Some (b, rest) ->
  IR ind St_stateInString stk r false dp out = IR ind St_stateEndValue stk rest false dp (x22 :: rev b ++ out).
Proof.
  intro H. destruct (string_trace stk _ r b rest (le_n _) H) as [E C]. rewrite E at 1.
  change (b ++ x22 :: rest) with (b ++ [x22] ++ rest). rewrite app_assoc, (indent_crun ind _ _ _ _ _ _ _ _ C), rev_unit. reflexivity.
Qed.

Lemma i_number ind stk c r t rest need dp out : special c = false ->
  match scan_number (c :: r) with Some (lit, rest0) => Some (TNum lit, rest0) | None => None end = Some (t, rest) ->
  IR ind St_stateBeginValue stk (c :: r) need dp out =
  IR ind St_stateEndValue stk rest false (ent_d need dp) (rev (pp false ind (ent_d need dp) t) ++ ent_o ind need dp out).
Proof.
  intros Sp H. destruct (scan_number (c :: r)) as [[lit rest0]|] eqn:Sn; [|discriminate]. inversion H; subst t rest0.
  destruct (num_trace stk c r lit rest Sp Sn) as [x0 [lit' [xN [El [Ea [Pc [O [Pr [Nx St]]]]]]]]]. rewrite Ea. subst lit. cbn [app pp print].
  rewrite (IR_step ind _ _ _ _ _ _ _ _ _ _ _ _ _ O (idf_lit ind need dp out c _ (BV_lit_nonstruct stk c x0 Sp O))).
  rewrite (indent_crun ind _ _ _ _ _ _ _ _ (prun_crun _ _ _ _ Pr)). unfold IR. rewrite (grun_num_end _ _ _ _ _ _ Nx St). cbn [rev]. now rewrite <- app_assoc.
Qed.

Lemma i_lit ind stk c x pat v r t rest need dp out :
  ostep St_stateBeginValue stk c = Some (x, stk, scanBeginLiteral) -> nonstruct c = true ->
  prun x stk pat = Some (St_stateEndValue, stk) -> (forall n, pp false ind n v = c :: pat) ->
  match strip_prefix pat r with Some rest0 => Some (v, rest0) | None => None end = Some (t, rest) ->
  IR ind St_stateBeginValue stk (c :: r) need dp out =
  IR ind St_stateEndValue stk rest false (ent_d need dp) (rev (pp false ind (ent_d need dp) t) ++ ent_o ind need dp out).
Proof.
  intros O Nc Pr Hp H. destruct (strip_prefix pat r) as [rest0|] eqn:Sp; [|discriminate]. inversion H; subst t rest0.
  apply strip_prefix_app in Sp. subst r.
  rewrite (IR_step ind _ _ _ _ _ _ _ _ _ _ _ _ _ O (idf_lit ind need dp out c _ Nc)).
  rewrite (indent_crun ind _ _ _ _ _ _ _ _ (prun_crun _ _ _ _ Pr)), Hp. cbn [rev]. now rewrite <- app_assoc.
Qed.

Definition ppmember (ind : bytes) (dp : nat) (kv : bytes * tjson) : bytes :=
  spell false (fst kv) ++ x3a :: x20 :: pp false ind dp (snd kv).

Lemma rev_parr ind dp ts out : ts <> [] ->
  rev (pp false ind dp (TArr ts)) ++ out =
  x5d :: rev (nl ind dp) ++ rev (sep_concat (x2c :: nl ind (S dp)) (map (pp false ind (S dp)) ts)) ++ newline_rev ind (S dp) (x5b :: out).
Proof.
  intro NE. destruct ts as [|t0 ts]; [congruence|]. cbn [pp]. rewrite newline_rev_nl.
  set (M := sep_concat _ _). set (N1 := nl ind (S dp)). set (N0 := nl ind dp).
  change (x5b :: N1 ++ M ++ N0 ++ [x5d]) with ([x5b] ++ N1 ++ M ++ N0 ++ [x5d]).
  rewrite !rev_app_distr, <- !app_assoc. reflexivity.
Qed.

Lemma rev_pobj ind dp ms out : ms <> [] ->
  rev (pp false ind dp (TObj ms)) ++ out =
  x7d :: rev (nl ind dp) ++ rev (sep_concat (x2c :: nl ind (S dp)) (map (ppmember ind (S dp)) ms)) ++ newline_rev ind (S dp) (x7b :: out).
Proof.
  intro NE. destruct ms as [|m0 ms]; [congruence|]. cbn [pp]. rewrite newline_rev_nl.
  change (fun kv : bytes * tjson => spell false (fst kv) ++ x3a :: x20 :: pp false ind (S dp) (snd kv)) with (ppmember ind (S dp)).
  set (M := sep_concat _ _). set (N1 := nl ind (S dp)). set (N0 := nl ind dp).
  change (x7b :: N1 ++ M ++ N0 ++ [x7d]) with ([x7b] ++ N1 ++ M ++ N0 ++ [x7d]).
  rewrite !rev_app_distr, <- !app_assoc. reflexivity.
Qed.

Lemma idf_empty_arr ind dp out r : idf ind (true, dp, out) scanEndArray x5d r = (false, dp, x5d :: out).
Proof. reflexivity. Qed.
Lemma idf_empty_obj ind dp out r : idf ind (true, dp, out) scanEndObject x7d r = (false, dp, x7d :: out).
Proof. reflexivity. Qed.
Lemma idf_comma_arr ind dp out r : idf ind (false, dp, out) scanArrayValue x2c r = (false, dp, newline_rev ind dp (x2c :: out)).
Proof. reflexivity. Qed.
Lemma idf_comma_obj ind dp out r : idf ind (false, dp, out) scanObjectValue x2c r = (false, dp, newline_rev ind dp (x2c :: out)).
Proof. reflexivity. Qed.
Lemma idf_colon ind dp out r : idf ind (false, dp, out) scanObjectKey x3a r = (false, dp, x20 :: x3a :: out).
Proof. reflexivity. Qed.
Lemma idf_close_arr ind dp out r :
  idf ind (false, dp, out) scanEndArray x5d r = (false, pred dp, x5d :: newline_rev ind (pred dp) out).
Proof. reflexivity. Qed.
Lemma idf_close_obj ind dp out r :
  idf ind (false, dp, out) scanEndObject x7d r = (false, pred dp, x7d :: newline_rev ind (pred dp) out).
Proof. reflexivity. Qed.

Theorem indent_struct ind : forall f,
  (forall d s stk t rest need dp out, dep stk d -> parse_value f d s = Some (t, rest) ->
     IR ind St_stateBeginValue stk s need dp out =
     IR ind St_stateEndValue stk rest false (ent_d need dp)
        (rev (pp false ind (ent_d need dp) t) ++ ent_o ind need dp out)) /\
  (forall d s l ts rest need dp out, dep (parseArrayValue :: l) d -> parse_elems f d s = Some (ts, rest) ->
     IR ind St_stateBeginValue (parseArrayValue :: l) s need dp out =
     IR ind St_stateEndValue l rest false (pred (ent_d need dp))
        (x5d :: rev (nl ind (pred (ent_d need dp))) ++
         rev (sep_concat (x2c :: nl ind (ent_d need dp)) (map (pp false ind (ent_d need dp)) ts)) ++ ent_o ind need dp out)) /\
  (forall d s l ms rest need dp out, dep (parseObjectKey :: l) d -> parse_members f d s = Some (ms, rest) ->
     IR ind St_stateBeginString (parseObjectKey :: l) s need dp out =
     IR ind St_stateEndValue l rest false (pred (ent_d need dp))
        (x7d :: rev (nl ind (pred (ent_d need dp))) ++
         rev (sep_concat (x2c :: nl ind (ent_d need dp)) (map (ppmember ind (ent_d need dp)) ms)) ++ ent_o ind need dp out)).
Proof.
  induction f as [|f [IV [IE IM]]].
  { repeat split; intros; discriminate. }
  repeat split.
  - (* values *)
    intros d s stk t rest need dp out D H. cbn [parse_value] in H. rewrite (i_ws ind St_stateBeginValue stk _ _ _ eq_refl).
    destruct (skip_ws s) as [|c r] eqn:W; [discriminate|].
    pose proof (skip_ws_hd _ _ _ W) as Wc. clear W.
    destruct c; try discriminate Wc; try (apply i_number; [reflexivity | exact H]).
    + (* string *)
      destruct (scan_string r) as [[b rest0]|] eqn:Ss; [|discriminate]. inversion H; subst t rest0.
      rewrite (IR_step ind _ _ _ _ _ _ _ _ _ _ _ _ _ (quote_o _ stk (or_introl eq_refl)) (idf_lit ind need dp out x22 _ eq_refl)).
      rewrite (i_string ind stk r b rest _ _ Ss). cbn [pp print].
      rewrite (rev_spell false b). reflexivity.
    + (* array *)
      destruct (d =? 0)%N eqn:Z; [discriminate|].
      pose proof (push_arr_o stk d D) as O. rewrite Z in O.
      rewrite (IR_step ind _ _ _ _ _ _ _ _ _ _ _ _ _ O (idf_open_arr ind need dp out _)).
      pose proof (dep_push parseArrayValue stk d D Z) as D'.
      rewrite (i_ws ind St_stateBeginValueOrEmpty _ _ _ _ eq_refl).
      set (dp' := ent_d need dp). set (out' := ent_o ind need dp out).
      destruct (skip_ws r) as [|c2 r2] eqn:W2.
      * destruct (parse_elems f (d - 1) r) as [[ts rest0]|] eqn:Pe; [|discriminate]. inversion H; subst t rest0.
        pose proof (IE _ _ _ _ _ true dp' (x5b :: out') D' Pe) as IEr. cbn [ent_d ent_o pred] in IEr.
        rewrite (i_ws ind St_stateBeginValue _ _ _ _ eq_refl), W2 in IEr.
        rewrite (rev_parr ind dp' ts out' (parse_elems_nonempty _ _ _ _ _ Pe)), <- IEr. reflexivity.
      * pose proof (skip_ws_hd _ _ _ W2) as Wc2. destruct (Byte.eqb c2 x5d) eqn:E2.
        { apply Byte.byte_dec_bl in E2. subst c2. inversion H; subst t rest.
          rewrite (IR_step ind _ _ _ _ _ _ _ _ _ _ _ _ _ (empty_arr_o stk) (idf_empty_arr ind dp' _ _)).
          rewrite i_popped. reflexivity. }
        { assert (H' : match parse_elems f (d - 1) r with Some (l, rest0) => Some (TArr l, rest0) | None => None end = Some (t, rest)).
          { destruct c2; try exact H; discriminate E2. }
          destruct (parse_elems f (d - 1) r) as [[ts rest0]|] eqn:Pe; [|discriminate]. inversion H'; subst t rest0.
          pose proof (IE _ _ _ _ _ true dp' (x5b :: out') D' Pe) as IEr. cbn [ent_d ent_o pred] in IEr.
          rewrite (i_ws ind St_stateBeginValue _ _ _ _ eq_refl), W2 in IEr.
          rewrite (rev_parr ind dp' ts out' (parse_elems_nonempty _ _ _ _ _ Pe)), <- IEr.
          rewrite !IR_cons, bvoe_other_o by assumption. reflexivity. }
    + (* false *)
      exact (i_lit ind stk x66 St_stateF (B "alse") TFalse r t rest need dp out (proj1 (proj2 (lit_o stk))) eq_refl (false_trace stk) (fun _ => eq_refl) H).
    + (* null *)
      exact (i_lit ind stk x6e St_stateN (B "ull") TNull r t rest need dp out (proj2 (proj2 (lit_o stk))) eq_refl (null_trace stk) (fun _ => eq_refl) H).
    + (* true *)
      exact (i_lit ind stk x74 St_stateT (B "rue") TTrue r t rest need dp out (proj1 (lit_o stk)) eq_refl (true_trace stk) (fun _ => eq_refl) H).
    + (* object *)
      destruct (d =? 0)%N eqn:Z; [discriminate|].
      pose proof (push_obj_o stk d D) as O. rewrite Z in O.
      rewrite (IR_step ind _ _ _ _ _ _ _ _ _ _ _ _ _ O (idf_open_obj ind need dp out _)).
      pose proof (dep_push parseObjectKey stk d D Z) as D'.
      rewrite (i_ws ind St_stateBeginStringOrEmpty _ _ _ _ eq_refl).
      set (dp' := ent_d need dp). set (out' := ent_o ind need dp out).
      destruct (skip_ws r) as [|c2 r2] eqn:W2.
      * destruct (parse_members f (d - 1) r) as [[ms rest0]|] eqn:Pe; [|discriminate]. inversion H; subst t rest0.
        pose proof (IM _ _ _ _ _ true dp' (x7b :: out') D' Pe) as IMr. cbn [ent_d ent_o pred] in IMr.
        rewrite (i_ws ind St_stateBeginString _ _ _ _ eq_refl), W2 in IMr.
        rewrite (rev_pobj ind dp' ms out' (parse_members_nonempty _ _ _ _ _ Pe)), <- IMr. reflexivity.
      * pose proof (skip_ws_hd _ _ _ W2) as Wc2. destruct (Byte.eqb c2 x7d) eqn:E2.
        { apply Byte.byte_dec_bl in E2. subst c2. inversion H; subst t rest.
          rewrite (IR_step ind _ _ _ _ _ _ _ _ _ _ _ _ _ (empty_obj_o stk) (idf_empty_obj ind dp' _ _)).
          rewrite i_popped. reflexivity. }
        { assert (H' : match parse_members f (d - 1) r with Some (l, rest0) => Some (TObj l, rest0) | None => None end = Some (t, rest)).
          { destruct c2; try exact H; discriminate E2. }
          destruct (parse_members f (d - 1) r) as [[ms rest0]|] eqn:Pe; [|discriminate]. inversion H'; subst t rest0.
          pose proof (IM _ _ _ _ _ true dp' (x7b :: out') D' Pe) as IMr. cbn [ent_d ent_o pred] in IMr.
          rewrite (i_ws ind St_stateBeginString _ _ _ _ eq_refl), W2 in IMr.
          rewrite (rev_pobj ind dp' ms out' (parse_members_nonempty _ _ _ _ _ Pe)), <- IMr.
          rewrite !IR_cons, bsoe_other_o by assumption. reflexivity. }
  - (* elements *)
    intros d s l ts rest need dp out D H. cbn [parse_elems] in H.
    destruct (parse_value f d s) as [[v r0]|] eqn:Pv; [|discriminate].
    rewrite (IV _ _ _ _ _ need dp out D Pv), i_endvalue_ws.
    set (dp' := ent_d need dp). set (out' := ent_o ind need dp out).
    destruct (skip_ws r0) as [|c r'] eqn:W; [discriminate|]. clear W.
    destruct c; try discriminate H.
    + (* , *)
      destruct (parse_elems f d r') as [[l0 rest0]|] eqn:Pe; [|discriminate]. inversion H; subst ts rest0.
      rewrite (IR_step ind _ _ _ _ _ _ _ _ _ _ _ _ _ (arr_comma_o l) (idf_comma_arr ind dp' _ _)).
      rewrite (IE _ _ _ _ _ false dp' _ D Pe). cbn [ent_d ent_o]. apply parse_elems_nonempty in Pe. destruct l0 as [|t0 l0]; [congruence|].
      rewrite newline_rev_nl. cbn [map]. rewrite sep_concat_cons.
      change (x2c :: nl ind dp') with ([x2c] ++ nl ind dp'). rewrite !rev_app_distr, <- !app_assoc. reflexivity.
    + (* ] *)
      inversion H; subst ts rest.
      rewrite (IR_step ind _ _ _ _ _ _ _ _ _ _ _ _ _ (pop_arr_o l) (idf_close_arr ind dp' _ _)).
      rewrite i_popped, newline_rev_nl. reflexivity.
  - (* members *)
    intros d s l ms rest need dp out D H. cbn [parse_members] in H. rewrite (i_ws ind St_stateBeginString _ _ _ _ eq_refl).
    destruct (skip_ws s) as [|c r] eqn:W; [discriminate|]. clear W.
    destruct c; try discriminate H.
    rewrite (IR_step ind _ _ _ _ _ _ _ _ _ _ _ _ _ (quote_o _ _ (or_intror eq_refl)) (idf_lit ind need dp out x22 _ eq_refl)).
    set (dp' := ent_d need dp). set (out' := ent_o ind need dp out).
    destruct (scan_string r) as [[k rest0]|] eqn:Ss; [|discriminate].
    rewrite (i_string ind _ r k rest0 _ _ Ss), i_endvalue_ws.
    destruct (skip_ws rest0) as [|c1 r1] eqn:W1; [discriminate|]. clear W1.
    destruct c1; try discriminate H.
    rewrite (IR_step ind _ _ _ _ _ _ _ _ _ _ _ _ _ (key_colon_o l) (idf_colon ind dp' _ _)).
    destruct (parse_value f d r1) as [[v rest']|] eqn:Pv; [|discriminate].
    rewrite (IV _ _ _ _ _ false dp' _ (dep_settop _ parseObjectValue _ _ D) Pv), i_endvalue_ws. cbn [ent_d ent_o].
    destruct (skip_ws rest') as [|c3 r3] eqn:W3; [discriminate|]. clear W3.
    assert (Mem : rev (pp false ind dp' v) ++ x20 :: x3a :: x22 :: rev k ++ x22 :: out' = rev (ppmember ind dp' (k, v)) ++ out').
    { unfold ppmember. cbn [fst snd]. change (spell false k ++ x3a :: x20 :: pp false ind dp' v) with (spell false k ++ [x3a; x20] ++ pp false ind dp' v).
      rewrite !rev_app_distr, <- !app_assoc, (rev_spell false k). reflexivity. }
    rewrite Mem.
    destruct c3; try discriminate H.
    + (* , *)
      destruct (parse_members f d r3) as [[l0 rest0']|] eqn:Pe; [|discriminate]. inversion H; subst ms rest0'.
      rewrite (IR_step ind _ _ _ _ _ _ _ _ _ _ _ _ _ (obj_comma_o l) (idf_comma_obj ind dp' _ _)).
      rewrite (IM _ _ _ _ _ false dp' _ D Pe). cbn [ent_d ent_o]. apply parse_members_nonempty in Pe. destruct l0 as [|m0 l0]; [congruence|].
      rewrite newline_rev_nl. cbn [map]. rewrite sep_concat_cons.
      change (x2c :: nl ind dp') with ([x2c] ++ nl ind dp'). rewrite !rev_app_distr, <- !app_assoc. reflexivity.
    + (* } *)
      inversion H; subst ms rest.
      rewrite (IR_step ind _ _ _ _ _ _ _ _ _ _ _ _ _ (pop_obj_o l) (idf_close_obj ind dp' _ _)).
      rewrite i_popped, newline_rev_nl. reflexivity.
Qed.

(* Indent keeps the white space after the value (scanEnd is not scanSkipSpace) *)
Theorem indent_go_pp ind bs t rest :
  parse_value (parse_fuel bs) max_depth bs = Some (t, rest) -> skip_ws rest = [] ->
  indent_go ind bs = Some (pp false ind 0 t ++ rest).
Proof.
  intros Pv W. rewrite indent_go_grun.
  change (grun _ (idf ind) St_stateBeginValue [] bs (false, 0%nat, [])) with (IR ind St_stateBeginValue [] bs false 0 []).
  rewrite (proj1 (indent_struct ind _) _ _ [] _ _ false 0%nat [] eq_refl Pv). cbn [ent_d ent_o].
  rewrite (i_top ind _ _ _ W). cbn [snd].
  now rewrite app_nil_r, rev_app_distr, !rev_involutive.
Qed.

Print Assumptions indent_go_pp.

(* ---- what the reader leaves is a suffix of its input ---- *)
Definition suffix (rest s : bytes) : Prop := exists pre, s = pre ++ rest.

Lemma suffix_refl s : suffix s s.
Proof. exists []. reflexivity. Qed.
Lemma suffix_trans a b c : suffix a b -> suffix b c -> suffix a c.
Proof. intros [p ->] [q ->]. exists (q ++ p). now rewrite app_assoc. Qed.
Lemma suffix_tl c r s : suffix (c :: r) s -> suffix r s.
Proof. apply suffix_trans. exists [c]. reflexivity. Qed.
Lemma suffix_skip_ws s : suffix (skip_ws s) s.
Proof.
  induction s as [|c r IH]; [apply suffix_refl|]. cbn [skip_ws]. destruct (is_ws c); [|apply suffix_refl].
  destruct IH as [p E]. exists (c :: p). cbn [app]. now rewrite <- E.
Qed.
Lemma skip_ws_cons_suffix s c r : skip_ws s = c :: r -> suffix r s.
Proof. intro H. apply (suffix_tl c). rewrite <- H. apply suffix_skip_ws. Qed.

Lemma parse_suffix : forall f,
  (forall d s t rest, parse_value f d s = Some (t, rest) -> suffix rest s) /\
  (forall d s l rest, parse_elems f d s = Some (l, rest) -> suffix rest s) /\
  (forall d s ms rest, parse_members f d s = Some (ms, rest) -> suffix rest s).
Proof.
  induction f as [|f [IV [IE IM]]]; [repeat split; intros; discriminate|]. repeat split.
  - intros d s t rest H. cbn [parse_value] in H. destruct (skip_ws s) as [|c r] eqn:W; [discriminate|].
    pose proof (skip_ws_cons_suffix _ _ _ W) as Sr.
    assert (Scr : suffix (c :: r) s) by (rewrite <- W; apply suffix_skip_ws).
    assert (N : special c = false ->
                match scan_number (c :: r) with Some (lit0, rest0) => Some (TNum lit0, rest0) | None => None end = Some (t, rest) ->
                suffix rest s).
    { intros Sp E. destruct (scan_number (c :: r)) as [[l0 r0]|] eqn:Sn; [|discriminate]. inversion E; subst.
      destruct (num_trace [] c r l0 rest Sp Sn) as [_ [_ [_ [_ [Ea _]]]]]. apply (suffix_trans _ (c :: r)); [|exact Scr].
      exists l0. exact Ea. }
    assert (P : forall pat v, match strip_prefix pat r with Some rest0 => Some (v, rest0) | None => None end = Some (t, rest) ->
                suffix rest s).
    { intros pat v E. destruct (strip_prefix pat r) as [r0|] eqn:Sp; [|discriminate]. inversion E; subst. apply strip_prefix_app in Sp.
      apply (suffix_trans _ r); [|exact Sr]. exists pat. exact Sp. }
    pose proof (skip_ws_hd _ _ _ W) as Wc.
    destruct c; try discriminate Wc; try (apply N; [reflexivity | exact H]); try (eapply P; exact H).
    + destruct (scan_string r) as [[b r0]|] eqn:Ss; [|discriminate]. inversion H; subst.
      destruct (string_trace [] _ _ _ _ (le_n _) Ss) as [E _]. apply (suffix_trans _ r); [|exact Sr]. exists (b ++ [x22]). now rewrite <- app_assoc.
    + destruct (d =? 0)%N; [discriminate|]. destruct (skip_ws r) as [|c2 r2] eqn:W2.
      * destruct (parse_elems f (d - 1) r) as [[l r0]|] eqn:Pe; [|discriminate]. inversion H; subst. apply IE in Pe. eapply suffix_trans; eassumption.
      * assert (D : match parse_elems f (d - 1) r with Some (l, rest0) => Some (TArr l, rest0) | None => None end = Some (t, rest) ->
                    suffix rest s).
        { destruct (parse_elems f (d - 1) r) as [[l r0]|] eqn:Pe; [|discriminate]. intro E; inversion E; subst. apply IE in Pe. eapply suffix_trans; eassumption. }
        apply skip_ws_cons_suffix in W2. destruct c2; try (exact (D H)). inversion H; subst. eapply suffix_trans; eassumption.
    + destruct (d =? 0)%N; [discriminate|]. destruct (skip_ws r) as [|c2 r2] eqn:W2.
      * destruct (parse_members f (d - 1) r) as [[l r0]|] eqn:Pe; [|discriminate]. inversion H; subst. apply IM in Pe. eapply suffix_trans; eassumption.
      * assert (D : match parse_members f (d - 1) r with Some (l, rest0) => Some (TObj l, rest0) | None => None end = Some (t, rest) ->
                    suffix rest s).
        { destruct (parse_members f (d - 1) r) as [[l r0]|] eqn:Pe; [|discriminate]. intro E; inversion E; subst. apply IM in Pe. eapply suffix_trans; eassumption. }
        apply skip_ws_cons_suffix in W2. destruct c2; try (exact (D H)). inversion H; subst. eapply suffix_trans; eassumption.
  - intros d s l rest H. cbn [parse_elems] in H. destruct (parse_value f d s) as [[v r0]|] eqn:Pv; [|discriminate].
    apply IV in Pv. destruct (skip_ws r0) as [|c r] eqn:W; [discriminate|]. apply skip_ws_cons_suffix in W.
    destruct c; try discriminate.
    + destruct (parse_elems f d r) as [[l0 r1]|] eqn:Pe; [|discriminate]. inversion H; subst. apply IE in Pe.
      eapply suffix_trans; [exact Pe|]. eapply suffix_trans; eassumption.
    + inversion H; subst. eapply suffix_trans; eassumption.
  - intros d s ms rest H. cbn [parse_members] in H. destruct (skip_ws s) as [|c r] eqn:W; [discriminate|].
    apply skip_ws_cons_suffix in W. destruct c; try discriminate.
    destruct (scan_string r) as [[k r0]|] eqn:Ss; [|discriminate].
    assert (S0 : suffix r0 s).
    { destruct (string_trace [] _ _ _ _ (le_n _) Ss) as [E _]. apply (suffix_trans _ r); [|exact W]. exists (k ++ [x22]). now rewrite <- app_assoc. }
    destruct (skip_ws r0) as [|c1 r1] eqn:W1; [discriminate|]. apply skip_ws_cons_suffix in W1. destruct c1; try discriminate.
    destruct (parse_value f d r1) as [[v r2]|] eqn:Pv; [|discriminate]. apply IV in Pv.
    assert (S2 : suffix r2 s) by (eapply suffix_trans; [exact Pv|]; eapply suffix_trans; eassumption).
    destruct (skip_ws r2) as [|c3 r3] eqn:W3; [discriminate|]. apply skip_ws_cons_suffix in W3. destruct c3; try discriminate.
    + destruct (parse_members f d r3) as [[l0 r4]|] eqn:Pe; [|discriminate]. inversion H; subst. apply IM in Pe.
      eapply suffix_trans; [exact Pe|]. eapply suffix_trans; eassumption.
    + inversion H; subst. eapply suffix_trans; eassumption.
Qed.

(* the last byte of a text is white space *)
Definition ends_ws (bs : bytes) : bool := match rev bs with c :: _ => is_ws c | [] => false end.

Lemma skip_ws_last r c : skip_ws (r ++ [c]) = [] -> is_ws c = true.
Proof.
  induction r as [|a r IH]; cbn [app skip_ws].
  - destruct (is_ws c); [reflexivity | discriminate].
  - destruct (is_ws a); [exact IH | discriminate].
Qed.

Lemma all_ws_suffix_nil rest bs : suffix rest bs -> skip_ws rest = [] -> ends_ws bs = false -> rest = [].
Proof.
  intros [pre ->] W E. destruct (rev rest) as [|c r] eqn:R.
  - apply (f_equal (@rev byte)) in R. rewrite rev_involutive in R. exact R.
  - exfalso. apply (f_equal (@rev byte)) in R. rewrite rev_involutive in R. cbn [rev] in R. subst rest.
    unfold ends_ws in E. rewrite app_assoc, rev_unit in E. apply skip_ws_last in W. congruence.
Qed.

Theorem indent_go_parse ind bs t : parse bs = Some t ->
  exists rest, suffix rest bs /\ skip_ws rest = [] /\ indent_go ind bs = Some (pp false ind 0 t ++ rest).
Proof.
  unfold parse. intro H. destruct (parse_value (parse_fuel bs) max_depth bs) as [[t0 rest]|] eqn:Pv; [|discriminate].
  destruct (skip_ws rest) eqn:W; [|discriminate]. inversion H; subst t0. exists rest.
  split; [exact (proj1 (parse_suffix _) _ _ _ _ Pv)|]. split; [exact W|]. apply indent_go_pp; assumption.
Qed.

(* a text that does not end in white space: Indent writes exactly the indented print of the tree *)
Theorem indent_go_pp_exact ind bs t : parse bs = Some t -> ends_ws bs = false ->
  indent_go ind bs = Some (pp false ind 0 t).
Proof.
  intros H E. destruct (indent_go_parse ind bs t H) as [rest [Sx [W G]]].
  rewrite (all_ws_suffix_nil rest bs Sx W E), app_nil_r in G. exact G.
Qed.

Print Assumptions indent_go_pp_exact.

(* ---------------------------------------------------------------------------------------------- *)
(* 7. summary: Compact and Indent as functions of the reader's result                               *)
(* ---------------------------------------------------------------------------------------------- *)

Theorem compact_go_spec esc bs :
  compact_go esc bs = match parse bs with Some t => Some (print esc t) | None => None end.
Proof.
  destruct (parse bs) as [t|] eqn:P; [apply compact_go_print; exact P|].
  destruct (compact_go esc bs) as [out|] eqn:C; [|reflexivity].
  destruct (proj1 (compact_accepts_iff_parse esc bs) (ex_intro _ out C)) as [t Pt]. congruence.
Qed.

Theorem indent_go_none ind bs : parse bs = None -> indent_go ind bs = None.
Proof.
  intro P. destruct (indent_go ind bs) as [out|] eqn:C; [|reflexivity].
  destruct (proj1 (indent_accepts_iff_parse ind bs) (ex_intro _ out C)) as [t Pt]. congruence.
Qed.

(* escaping changes nothing but the spelling of string bodies: both outputs are prints of the same tree *)
Corollary compact_go_esc_same_tree bs o1 o2 :
  compact_go false bs = Some o1 -> compact_go true bs = Some o2 ->
  exists t, parse bs = Some t /\ o1 = print false t /\ o2 = print true t.
Proof.
  rewrite !compact_go_spec. destruct (parse bs) as [t|]; [|discriminate].
  intros H1 H2. inversion H1; inversion H2. exists t. repeat split.
Qed.

Print Assumptions compact_go_spec.
Print Assumptions indent_go_none.

(* non-vacuity, and the one surprise: Indent copies the white space that follows the value *)
Example compact_example :
  compact_go true (B " { ""a<b"" : [1, 2.5e+3 , true,null, ""x&y"" ] , ""k"":{} } ") =
  Some [x7b; x22; x61; x5c; x75; x30; x30; x33; x63; x62; x22; x3a; x5b; x31; x2c; x32; x2e; x35; x65; x2b; x33; x2c;
        x74; x72; x75; x65; x2c; x6e; x75; x6c; x6c; x2c; x22; x78; x5c; x75; x30; x30; x32; x36; x79; x22; x5d; x2c;
        x22; x6b; x22; x3a; x7b; x7d; x7d].
Proof. vm_compute. reflexivity. Qed.

Example compact_example_2028 :
  compact_go true [x22; xe2; x80; xa8; xe2; x80; x22] = Some [x22; x5c; x75; x32; x30; x32; x38; xe2; x80; x22].
Proof. vm_compute. reflexivity. Qed.

Example indent_example :
  indent_go (B "  ") (B "{""a"":[1,{}],""b"":[]}") =
  Some (B "{" ++ [x0a] ++ B "  ""a"": [" ++ [x0a] ++ B "    1," ++ [x0a] ++ B "    {}" ++ [x0a] ++ B "  ]," ++ [x0a] ++
        B "  ""b"": []" ++ [x0a] ++ B "}").
Proof. vm_compute. reflexivity. Qed.

Example indent_keeps_trailing_space : indent_go (B "  ") (B " 12 ") = Some (B "12 ").
Proof. vm_compute. reflexivity. Qed.
