(* CauseFacts.v — C08, the cause/class statements WITH the options:
     a positive AccumulatedCopySizeLimit (copy-size accounting against the reference),
     AllowMissingPathOnRemove (causes are those of the stripped patch),
     EnsurePathExistsOnAdd (what add reports).
   Everything about existing definitions that is needed here is proved here. *)
From Coq Require Import Lia.
From JP Require Import Bytes Json Text Strings Den Pointer Rfc6902 ImplV5 DecodeFacts JsonFacts Abs EqualFacts
                       ImplFacts RefFacts ApplyFacts Depth ApplySim Domain AllowEnsureFacts.

(* ================================================================================================ *)
(* 1. the copy-size limit is consulted by copy only, and only at one point                           *)
(* ================================================================================================ *)
Definition set_limit (o : opts) (l : Z) : opts :=
  mkOpts (o_neg o) l (o_allow o) (o_ensure o) (o_esc o) (o_stale o) (o_nullsz o).

Lemma set_limit_self o : set_limit o (o_limit o) = o.
Proof. destruct o; reflexivity. Qed.

Lemma walk_limit {A} o l parts : forall c (f : con -> A * con),
  walk (set_limit o l) parts c f = walk o parts c f.
Proof.
  induction parts as [|p parts IH]; intros c f; simpl; auto.
  change (con_get (set_limit o l) c (decode_token p)) with (con_get o c (decode_token p)).
  destruct (con_get o c (decode_token p)); auto. destruct (into_con a); auto. rewrite IH. reflexivity.
Qed.

Lemma find_limit {A} o l c path (f : con -> bytes -> A * con) :
  find (set_limit o l) c path f = find o c path f.
Proof. unfold find. destruct (split_path path) as [[parts key]|]; auto. now rewrite walk_limit. Qed.

Lemma pad_nulls_limit o l : forall count c from, pad_nulls (set_limit o l) c from count = pad_nulls o c from count.
Proof.
  induction count as [|k IH]; intros c from; simpl; auto.
  change (con_add (set_limit o l) c (itoa (N.of_nat from)) (NRaw TNull)) with (con_add o c (itoa (N.of_nat from)) (NRaw TNull)).
  destruct (con_add o c (itoa (N.of_nat from)) (NRaw TNull)); apply IH.
Qed.

Lemma ensure_limit o l parts : forall c, ensure (set_limit o l) parts c = ensure o parts c.
Proof.
  induction parts as [|p parts IH]; intro c; auto.
  destruct parts as [|nextp rest]; auto.
  rewrite !ensure_unfold. cbv zeta.
  change (con_get (set_limit o l) c (decode_token p)) with (con_get o c (decode_token p)).
  change (o_neg (set_limit o l)) with (o_neg o).
  destruct (con_get o c (decode_token p)) as [[|[| | | | |l0|ms]|ks ob|ns]| |]; cbn [into_con doc_of];
    destruct (atoi p); destruct c; repeat rewrite pad_nulls_limit; repeat rewrite IH; reflexivity.
Qed.

Lemma ensure_path_limit o l c path : ensure_path (set_limit o l) c path = ensure_path o c path.
Proof. unfold ensure_path. destruct (split_slash path) as [|? [|? ?]]; auto. apply ensure_limit. Qed.

Lemma op_add_limit o l st op : op_add (set_limit o l) st op = op_add o st op.
Proof.
  unfold op_add. change (o_ensure (set_limit o l)) with (o_ensure o).
  destruct (op_str op (B "path")) as [[|x path]| |]; auto.
  destruct (s_root st); auto. rewrite ensure_path_limit.
  destruct (if o_ensure o then ensure_path o c (x :: path) else (None, c)) as [[e|] c1]; auto.
  rewrite find_limit. reflexivity.
Qed.

Lemma op_remove_limit o l st op : op_remove (set_limit o l) st op = op_remove o st op.
Proof.
  unfold op_remove. destruct (op_str op (B "path")) as [path| |]; auto.
  destruct (s_root st); auto. rewrite find_limit. reflexivity.
Qed.

Lemma op_replace_limit o l st op : op_replace (set_limit o l) st op = op_replace o st op.
Proof.
  unfold op_replace. destruct (op_str op (B "path")) as [[|x path]| |]; auto.
  destruct (s_root st); auto. rewrite find_limit. reflexivity.
Qed.

Lemma op_test_limit o l st op : op_test (set_limit o l) st op = op_test o st op.
Proof.
  unfold op_test. destruct (op_str op (B "path")) as [[|x path]| |]; auto.
  destruct (s_root st); auto. rewrite find_limit. reflexivity.
Qed.

Lemma op_move_limit o l st op : op_move (set_limit o l) st op = op_move o st op.
Proof.
  unfold op_move. destruct (op_str op (B "from")) as [[|x from]| |]; auto.
  destruct (s_root st); auto. rewrite find_limit.
  match goal with |- match ?a with _ => _ end = match ?b with _ => _ end =>
    change a with b; destruct b as [[| |[v| |]] c1]; auto end.
  destruct (op_str op (B "path")) as [path| |]; auto. rewrite find_limit. reflexivity.
Qed.

(* the number of bytes deepCopy reports for this copy, if the copy gets as far as deepCopy: source
   resolved, path read, destination parent resolved, source re-read, depth check passed *)
Definition copy_probe (o : opts) (st : state) (op : operation) : option Z :=
  match op_str op (B "from") with
  | Ok from =>
      match s_root st with
      | RNull => None
      | RCon c =>
          match find o c from (fun c' key => (con_get o c' key, c')) with
          | (FoundAt (Ok _), c1) =>
              match op_str op (B "path") with
              | Ok path =>
                  match find o c1 path (fun c' key => (tt, c')) with
                  | (FoundAt _, c2) =>
                      let src :=
                        match from with
                        | [] => Ok (node_of_con c2)
                        | _ => match find o c2 from (fun c' key => (con_get o c' key, c')) with
                               | (FoundAt r, _) => r
                               | _ => Err EMissing
                               end
                        end in
                      match src with
                      | Ok v => if copy_too_deep o v then None else Some (snd (deep_copy o v))
                      | _ => None
                      end
                  | (_, _) => None
                  end
              | _ => None
              end
          | (_, _) => None
          end
      end
  | _ => None
  end.

Definition over (o : opts) (st : state) (sz : Z) : bool :=
  ((0 <? o_limit o)%Z && (o_limit o <? s_acc st + sz)%Z)%bool.

(* copy = the limit check at deepCopy's size, then the copy without a limit *)
Lemma op_copy_split o st op :
  op_copy o st op =
  match copy_probe o st op with
  | Some sz => if over o st sz then Err (ECopyLimit (o_limit o) (s_acc st + sz)) else op_copy (set_limit o 0) st op
  | None => op_copy (set_limit o 0) st op
  end.
Proof.
  unfold op_copy, copy_probe, over. destruct (op_str op (B "from")) as [from| |]; auto.
  destruct (s_root st); auto. rewrite find_limit.
  change (fun (c' : con) (key : bytes) => (con_get (set_limit o 0) c' key, c')) with (fun (c' : con) (key : bytes) => (con_get o c' key, c')).
  destruct (find o c from (fun c' key => (con_get o c' key, c'))) as [[| |[v0| |]] c1]; auto.
  destruct (op_str op (B "path")) as [path| |]; auto. rewrite find_limit.
  destruct (find o c1 path (fun c' key => (tt, c'))) as [[| |u] c2]; auto.
  rewrite find_limit.
  match goal with |- match ?a with _ => _ end = _ => destruct a as [v| |]; auto end.
  change (copy_too_deep (set_limit o 0) v) with (copy_too_deep o v).
  destruct (copy_too_deep o v); auto.
  change (deep_copy (set_limit o 0) v) with (deep_copy o v). destruct (deep_copy o v) as [cp sz]. cbn [snd].
  change (o_limit (set_limit o 0)) with 0%Z. change (0 <? 0)%Z with false. cbn [andb].
  rewrite find_limit.
  destruct ((0 <? o_limit o)%Z && (o_limit o <? s_acc st + sz)%Z)%bool; reflexivity.
Qed.

(* the total the limit error reports, when this operation is a copy that trips the limit *)
Definition copy_over (o : opts) (st : state) (op : operation) : option Z :=
  match op_kind op with
  | KCopy =>
      match copy_probe o st op with
      | Some sz => if over o st sz then Some (s_acc st + sz)%Z else None
      | None => None
      end
  | _ => None
  end.

Lemma step_limit_other o l st op : op_kind op <> KCopy -> step (set_limit o l) st op = step o st op.
Proof.
  unfold step. intro K. destruct (op_kind op); try congruence;
    auto using op_add_limit, op_remove_limit, op_replace_limit, op_move_limit, op_test_limit.
Qed.

(* one operation under any limit: the limit error when copy_over says so, otherwise exactly the
   operation under limit 0 *)
Theorem step_split o st op :
  step o st op =
  match copy_over o st op with
  | Some total => Err (ECopyLimit (o_limit o) total)
  | None => step (set_limit o 0) st op
  end.
Proof.
  unfold copy_over. destruct (op_kind op) eqn:K;
    try (symmetry; apply step_limit_other; congruence).
  unfold step. rewrite K. rewrite op_copy_split.
  destruct (copy_probe o st op) as [sz|]; auto. destruct (over o st sz); auto.
Qed.

Lemma copy_over_inv o st op total :
  copy_over o st op = Some total ->
  op_kind op = KCopy /\ exists sz, copy_probe o st op = Some sz /\ total = (s_acc st + sz)%Z /\
                                   (0 < o_limit o)%Z /\ (o_limit o < total)%Z.
Proof.
  unfold copy_over, over. destruct (op_kind op); try discriminate.
  destruct (copy_probe o st op) as [sz|]; try discriminate.
  destruct ((0 <? o_limit o)%Z && (o_limit o <? s_acc st + sz)%Z)%bool eqn:E; try discriminate.
  intro H; inversion H; subst. apply andb_prop in E as [E1 E2]. apply Z.ltb_lt in E1, E2.
  split; auto. exists sz. auto.
Qed.

Lemma copy_over_intro o st op sz :
  op_kind op = KCopy -> copy_probe o st op = Some sz -> (0 < o_limit o)%Z -> (o_limit o < s_acc st + sz)%Z ->
  copy_over o st op = Some (s_acc st + sz)%Z.
Proof.
  intros K P L1 L2. unfold copy_over, over. rewrite K, P.
  apply Z.ltb_lt in L1, L2. rewrite L1, L2. reflexivity.
Qed.

Lemma copy_over_zero o st op : o_limit o = 0%Z -> copy_over o st op = None.
Proof.
  intro Z0. destruct (copy_over o st op) as [t|] eqn:E; auto.
  apply copy_over_inv in E as [_ [sz [_ [_ [L _]]]]]. lia.
Qed.

(* the limit error, exactly *)
Theorem step_limit_iff o st op l a :
  step o st op = Err (ECopyLimit l a) <-> (copy_over o st op = Some a /\ l = o_limit o).
Proof.
  rewrite step_split. split.
  - destruct (copy_over o st op) as [t|] eqn:E.
    + intro H; inversion H; subst. auto.
    + intro H. apply step_copy_limit in H as [_ [L _]]. simpl in L. lia.
  - intros [-> ->]. reflexivity.
Qed.

(* a successful copy adds deepCopy's size to the running total *)
Lemma op_copy_acc o st op st' :
  op_copy o st op = Ok st' -> exists sz, copy_probe o st op = Some sz /\ s_acc st' = (s_acc st + sz)%Z.
Proof.
  unfold op_copy, copy_probe. intro H.
  destruct (op_str op (B "from")) as [from| |]; try discriminate.
  destruct (s_root st); try discriminate.
  destruct (find o c from (fun c' key => (con_get o c' key, c'))) as [[| |[v0| |]] c1]; try discriminate.
  destruct (op_str op (B "path")) as [path| |]; try discriminate.
  destruct (find o c1 path (fun c' key => (tt, c'))) as [[| |u] c2]; try discriminate.
  match type of H with match ?a with _ => _ end = _ => destruct a as [v| |]; try discriminate end.
  destruct (copy_too_deep o v); try discriminate.
  destruct (deep_copy o v) as [cp sz]. cbn [snd]. exists sz. split; auto.
  destruct ((0 <? o_limit o)%Z && (o_limit o <? s_acc st + sz)%Z)%bool; try discriminate.
  match type of H with match ?a with _ => _ end = _ => destruct a as [[| |[x| |]] c3]; try discriminate end.
  inversion H; reflexivity.
Qed.

Theorem step_acc o st op st' :
  step o st op = Ok st' ->
  match op_kind op with
  | KCopy => exists sz, copy_probe o st op = Some sz /\ s_acc st' = (s_acc st + sz)%Z
  | _ => s_acc st' = s_acc st
  end.
Proof.
  intro H. destruct (op_kind op) eqn:K; try (apply (step_acc_noncopy o st op st'); [congruence | exact H]).
  unfold step in H. rewrite K in H. apply op_copy_acc; exact H.
Qed.

(* ================================================================================================ *)
(* 2. the probe against the reference                                                               *)
(* ================================================================================================ *)
(* from not "" *)
Lemma copy_probe_sim o st op rf r c :
  s_root st = RCon c -> cgood c ->
  op_str op (B "from") = Ok (x2f :: rf) -> Forall tok_dom (map decode_token (split_slash rf)) ->
  op_str op (B "path") = Ok (x2f :: r) -> Forall tok_dom (map decode_token (split_slash r)) ->
  match get_at (dia o) (ptoks rf) (cval c) with
  | ROk j =>
      if dest_reachable (dia o) (cval c) r
      then exists v, aval v = j /\ ngood v /\
             copy_probe o st op = if (max_depth <? odepth j)%N then None else Some (snd (deep_copy o v))
      else copy_probe o st op = None
  | RFail _ => copy_probe o st op = None
  end.
Proof.
  intros Hr G Hf Df Hp Dp. unfold copy_probe. rewrite Hf, Hr.
  change (find o c (x2f :: rf) _) with (find o c (x2f :: rf) (get_fn o)).
  pose proof (find_get_sim o c rf G Df) as FG. fold (get_fn o) in FG. unfold ptoks at 1.
  destruct (get_at (dia o) (map decode_token (path_parts rf) ++ [path_key rf]) (cval c)) as [j|cz] eqn:Eg.
  2: { destruct FG as [e [c2 [[F1|[F1 ->]] _]]]; rewrite F1; reflexivity. }
  destruct FG as [v0 [c1 [F1 [F2 [F3 [F4 F5]]]]]]. rewrite F1, Hp.
  change (find o c1 (x2f :: r) _) with (find o c1 (x2f :: r) unit_fn).
  pose proof (find_unit_sim o c1 r F5 Dp) as FU. rewrite F4 in FU. unfold dest_reachable.
  destruct (descend (dia o) (map decode_token (path_parts r)) (cval c)) as [p|] eqn:Ed.
  2: { destruct FU as [c2 U1]. rewrite U1. reflexivity. }
  destruct (is_container p) eqn:Cp.
  2: { destruct FU as [c2 U1]. rewrite U1. reflexivity. }
  destruct FU as [c2 [U1 [U2 U3]]]. rewrite U1.
  change (find o c2 (x2f :: rf) _) with (find o c2 (x2f :: rf) (get_fn o)).
  pose proof (find_get_sim o c2 rf U3 Df) as FG2. fold (get_fn o) in FG2. rewrite U2 in FG2.
  rewrite Eg in FG2. destruct FG2 as [v [c3 [G1 [G2 [G3 _]]]]]. rewrite G1.
  exists v. split; [exact G2|]. split; [exact G3|].
  rewrite (copy_too_deep_val o v (proj1 G3)), G2. reflexivity.
Qed.

(* from "" (the whole document) *)
Lemma copy_probe_root_sim o st op r c :
  s_root st = RCon c -> cgood c ->
  op_str op (B "from") = Ok [] ->
  op_str op (B "path") = Ok (x2f :: r) -> Forall tok_dom (map decode_token (split_slash r)) ->
  if dest_reachable (dia o) (cval c) r
  then exists v, aval v = cval c /\ ngood v /\
         copy_probe o st op = if (max_depth <? odepth (cval c))%N then None else Some (snd (deep_copy o v))
  else copy_probe o st op = None.
Proof.
  intros Hr G Hf Hp Dp. unfold copy_probe. rewrite Hf, Hr.
  assert (F0 : find o c [] (fun c' key => (con_get o c' key, c')) = (FoundAt (con_get o c []), c)) by reflexivity.
  rewrite F0.
  assert (G0 : exists self, con_get o c [] = Ok self).
  { destruct c as [s k ob| |s ns]; [| exfalso; exact (proj2 G) |]; simpl; eauto. }
  destruct G0 as [self G0]. rewrite G0, Hp.
  change (find o c (x2f :: r) _) with (find o c (x2f :: r) unit_fn).
  pose proof (find_unit_sim o c r G Dp) as FU. unfold dest_reachable.
  destruct (descend (dia o) (map decode_token (path_parts r)) (cval c)) as [p|] eqn:Ed.
  2: { destruct FU as [c2 U1]. rewrite U1. reflexivity. }
  destruct (is_container p) eqn:Cp.
  2: { destruct FU as [c2 U1]. rewrite U1. reflexivity. }
  destruct FU as [c2 [U1 [U2 U3]]]. rewrite U1.
  exists (node_of_con c2). split; [exact U2|]. split; [exact (proj1 U3)|].
  rewrite (copy_too_deep_val o (node_of_con c2) (proj1 (proj1 U3))). fold (cval c2). rewrite U2. reflexivity.
Qed.

(* the reference's copy, up to the resolution of the destination parent: the source value *)
Definition copy_reaches (d : dialect) (doc : ojson) (op : operation) : option ojson :=
  match ptr_tokens (str_or_empty (op_str op (B "from"))), str_or_empty (op_str op (B "path")) with
  | Some ftoks, x2f :: r =>
      match get_at d ftoks doc with
      | ROk j => if dest_reachable d doc r then Some j else None
      | RFail _ => None
      end
  | _, _ => None
  end.

(* where the destination parent is a container, the add at it succeeds or is a bad index *)
Lemma add_at_reachable d doc r v :
  dest_reachable d doc r = true ->
  (exists j', at_parent d (ptoks r) doc (add_leaf d v) = ROk j') \/
  at_parent d (ptoks r) doc (add_leaf d v) = RFail FIndex.
Proof.
  unfold dest_reachable, ptoks. intro H. rewrite at_parent_snoc.
  destruct (descend d (map decode_token (path_parts r)) doc) as [p|]; [|discriminate].
  destruct p; try discriminate; cbn [add_leaf].
  - destruct (idx_insert d (Rfc6902.zlen l) (path_key r)); cbn [bind]; eauto.
  - cbn [bind]. eauto.
Qed.

(* the probe, for a copy of the stated domain, in terms of the reference:
   it is defined exactly when the reference resolves the source and reaches the destination parent
   (and the value is not too deep for deepCopy), and is then deepCopy's size of a node denoting the
   reference's source value *)
Theorem copy_probe_ref o st op :
  sgood st -> op_dom op -> op_kind op = KCopy ->
  match copy_reaches (dia o) (sval st) op with
  | Some j => exists v, aval v = j /\ ngood v /\
                copy_probe o st op = if (max_depth <? odepth j)%N then None else Some (snd (deep_copy o v))
  | None => copy_probe o st op = None
  end.
Proof.
  intros [c [Hr G]] [Vg [path [Hp K]]] Ek. rewrite Ek in K.
  assert (SV : sval st = cval c) by (unfold sval; rewrite Hr; reflexivity).
  destruct K as [[r [-> D]] [from [Hf Kf]]]. unfold copy_reaches. rewrite Hf, Hp, SV. cbn [str_or_empty].
  destruct Kf as [[rf [-> Df]]| ->].
  - rewrite ptr_tokens_slash. fold (ptoks rf).
    pose proof (copy_probe_sim o st op rf r c Hr G Hf Df Hp D) as S.
    destruct (get_at (dia o) (ptoks rf) (cval c)) as [j|cz]; [|exact S].
    destruct (dest_reachable (dia o) (cval c) r); exact S.
  - cbn [ptr_tokens get_at].
    pose proof (copy_probe_root_sim o st op r c Hr G Hf Hp D) as S.
    destruct (dest_reachable (dia o) (cval c) r); exact S.
Qed.

(* and the reference's own step at such a copy *)
Lemma copy_reaches_step d doc op j :
  op_dom op -> op_kind op = KCopy -> copy_reaches d doc op = Some j ->
  (exists j', rfc_step d doc (den_op op) = ROk j') \/ rfc_step d doc (den_op op) = RFail FIndex.
Proof.
  intros [Vg [path [Hp K]]] Ek. rewrite Ek in K. destruct K as [[r [-> D]] [from [Hf Kf]]].
  unfold copy_reaches, rfc_step, den_op. cbn [rkind rpath rfrom]. rewrite Ek, Hf, Hp. cbn [str_or_empty ref_kind].
  rewrite ptr_tokens_slash. fold (ptoks r).
  destruct (ptr_tokens from) as [ftoks|]; [|discriminate].
  destruct (get_at d ftoks doc) as [v|]; [|discriminate].
  destruct (dest_reachable d doc r) eqn:R; [|discriminate]. intros _. cbn [bind].
  rewrite (match_nonempty _ _ _ (ptoks_nonempty r)). apply add_at_reachable. exact R.
Qed.

(* ================================================================================================ *)
(* 3. one operation and whole patches under any copy-size limit (the two other options off)          *)
(* ================================================================================================ *)
Definition lim_opts (o : opts) : Prop := o_allow o = false /\ o_ensure o = false.

Lemma lim_opts_plain o : lim_opts o -> plain_opts (set_limit o 0).
Proof. intros [A E]. split; [exact A|]. split; [exact E | reflexivity]. Qed.

Lemma plain_lim_opts o : plain_opts o -> lim_opts o.
Proof. intros [A [E _]]. split; assumption. Qed.

Lemma copy_fits_reaches d doc op j :
  op_kind op = KCopy -> copy_fits d doc (den_op op) = true -> copy_reaches d doc op = Some j ->
  (max_depth <? odepth j)%N = false.
Proof.
  unfold copy_fits, copy_reaches, den_op. cbn [rkind rfrom]. intros -> . cbn [ref_kind].
  destruct (ptr_tokens (str_or_empty (op_str op (B "from")))) as [ftoks|]; [|discriminate].
  destruct (str_or_empty (op_str op (B "path"))) as [|[] r]; try discriminate.
  destruct (get_at d ftoks doc) as [v|]; [|discriminate].
  destruct (dest_reachable d doc r); [|discriminate].
  intros F H. inversion H; subst. apply N.ltb_ge. apply N.leb_le. exact F.
Qed.

(* when does a copy of the stated domain trip the limit: exactly when the reference resolves the
   source and reaches the destination parent, and the running total plus deepCopy's size of the
   (node denoting the) source value exceeds a positive limit *)
Theorem copy_over_ref o st op :
  sgood st -> op_dom op -> op_kind op = KCopy -> copy_fits (dia o) (sval st) (den_op op) = true ->
  match copy_reaches (dia o) (sval st) op with
  | Some j => exists v, aval v = j /\ ngood v /\ copy_probe o st op = Some (snd (deep_copy o v)) /\
                copy_over o st op = if over o st (snd (deep_copy o v))
                                    then Some (s_acc st + snd (deep_copy o v))%Z else None
  | None => copy_over o st op = None
  end.
Proof.
  intros G D K F. pose proof (copy_probe_ref o st op G D K) as P. unfold copy_over. rewrite K.
  destruct (copy_reaches (dia o) (sval st) op) as [j|] eqn:R.
  - destruct P as [v [P1 [P2 P3]]]. rewrite (copy_fits_reaches _ _ _ _ K F R) in P3.
    exists v. rewrite P3. auto.
  - rewrite P. reflexivity.
Qed.

Theorem step_sim_limit o st op :
  sgood st -> lim_opts o -> op_dom op ->
  copy_fits (dia o) (sval st) (den_op op) = true ->
  match copy_over o st op with
  | Some total =>
      step o st op = Err (ECopyLimit (o_limit o) total) /\ op_kind op = KCopy /\
      (0 < o_limit o)%Z /\ (o_limit o < total)%Z /\
      (exists j v, copy_reaches (dia o) (sval st) op = Some j /\ aval v = j /\ ngood v /\
                   total = (s_acc st + snd (deep_copy o v))%Z) /\
      ((exists j', rfc_step (dia o) (sval st) (den_op op) = ROk j') \/
       rfc_step (dia o) (sval st) (den_op op) = RFail FIndex)
  | None =>
      match rfc_step (dia o) (sval st) (den_op op) with
      | ROk j' => exists st', step o st op = Ok st' /\ sval st' = j' /\ sgood st'
      | RFail cz => exists e, step o st op = Err e /\ cause_rel cz e
      end
  end.
Proof.
  intros G LO D F. rewrite step_split. destruct (copy_over o st op) as [total|] eqn:E.
  - split; [reflexivity|]. destruct (copy_over_inv o st op total E) as [K [sz [P [-> [L1 L2]]]]].
    split; [exact K|]. split; [exact L1|]. split; [exact L2|].
    pose proof (copy_over_ref o st op G D K F) as R.
    destruct (copy_reaches (dia o) (sval st) op) as [j|] eqn:CR; [|congruence].
    destruct R as [v [R1 [R2 [R3 _]]]]. split.
    + exists j, v. split; auto. split; auto. split; auto. congruence.
    + eapply copy_reaches_step; eauto.
  - exact (step_sim (set_limit o 0) st op G (lim_opts_plain o LO) D F).
Qed.

Lemma rfc_apply_from_app d p1 : forall i doc p2,
  rfc_apply_from d i doc (p1 ++ p2) =
  match rfc_apply_from d i doc p1 with
  | Done doc' => rfc_apply_from d (i + length p1) doc' p2
  | r => r
  end.
Proof.
  induction p1 as [|o p1 IH]; intros i doc p2; simpl.
  - now rewrite Nat.add_0_r.
  - destruct (rfc_step d doc o); auto. rewrite IH. now rewrite Nat.add_succ_r.
Qed.

(* the patch is stopped by the limit: at a copy, every earlier operation agreed with the reference *)
Definition limit_stop (o : opts) (i : nat) (st : state) (p : list operation) : Prop :=
  exists p1 op p2 st1 total,
    p = p1 ++ op :: p2 /\
    apply_from o i st p1 = AOk st1 /\ sgood st1 /\
    rfc_apply_from (dia o) i (sval st) (map den_op p1) = Done (sval st1) /\
    copy_over o st1 op = Some total /\
    apply_from o i st p = AErr (i + length p1) (ECopyLimit (o_limit o) total) /\
    ((exists j', rfc_step (dia o) (sval st1) (den_op op) = ROk j') \/
     rfc_step (dia o) (sval st1) (den_op op) = RFail FIndex).

Theorem apply_sim_limit o : lim_opts o -> forall p i st,
  sgood st -> Forall op_dom p ->
  copies_fit (dia o) (sval st) (map den_op p) = true ->
  match rfc_apply_from (dia o) i (sval st) (map den_op p) with
  | Done doc => (exists st', apply_from o i st p = AOk st' /\ sval st' = doc /\ sgood st') \/ limit_stop o i st p
  | Failed j cz => (exists e, apply_from o i st p = AErr j e /\ cause_rel cz e) \/ limit_stop o i st p
  end.
Proof.
  intros LO. induction p as [|op p IH]; intros i st G D F.
  - cbn [map rfc_apply_from apply_from]. left. exists st. auto.
  - inversion D as [|? ? Dop Dp]; subst. cbn [map copies_fit] in F. apply andb_prop in F as [F1 F2].
    pose proof (step_sim_limit o st op G LO Dop F1) as S.
    destruct (copy_over o st op) as [total|] eqn:CO.
    + destruct S as [S1 [S2 [S3 [S4 [S5 S6]]]]].
      assert (LS : limit_stop o i st (op :: p)).
      { exists [], op, p, st, total. split; [reflexivity|]. split; [reflexivity|]. split; [exact G|].
        split; [reflexivity|]. split; [exact CO|]. split; [|exact S6].
        cbn [apply_from length]. rewrite S1, Nat.add_0_r. reflexivity. }
      destruct (rfc_apply_from (dia o) i (sval st) (map den_op (op :: p))); right; exact LS.
    + cbn [map rfc_apply_from apply_from].
      destruct (rfc_step (dia o) (sval st) (den_op op)) as [j'|cz] eqn:RS.
      * destruct S as [st' [S1 [S2 S3]]]. rewrite S1. rewrite <- S2 in F2.
        specialize (IH (S i) st' S3 Dp F2). rewrite S2 in IH.
        assert (Lift : limit_stop o (S i) st' p -> limit_stop o i st (op :: p)).
        { intros [p1 [op1 [p2 [st1 [total [L1 [L2 [L3 [L4 [L5 [L6 L7]]]]]]]]]]].
          exists (op :: p1), op1, p2, st1, total. split; [rewrite L1; reflexivity|].
          split; [cbn [apply_from]; rewrite S1; exact L2|]. split; [exact L3|].
          split; [cbn [map rfc_apply_from]; rewrite RS, <- S2; exact L4|]. split; [exact L5|].
          split; [|exact L7]. cbn [apply_from length]. rewrite S1, L6. f_equal. lia. }
        destruct (rfc_apply_from (dia o) (S i) j' (map den_op p)) as [doc|j cz];
          (destruct IH as [IH|IH]; [left; exact IH | right; exact (Lift IH)]).
      * destruct S as [e [S1 S2]]. rewrite S1. left. eauto.
Qed.

(* ================================================================================================ *)
(* 4. the error classes the property names                                                          *)
(* ================================================================================================ *)
Lemma rfc_failed_ge d p : forall i doc k cz, rfc_apply_from d i doc p = Failed k cz -> (i <= k)%nat.
Proof.
  induction p as [|o p IH]; intros i doc k cz; simpl; try discriminate.
  destruct (rfc_step d doc o).
  - intro H. apply IH in H. lia.
  - intro H. inversion H. lia.
Qed.

(* a failing patch: the operations before the failing one succeeded, that one failed *)
Lemma apply_err_split o : forall p i st k e,
  apply_from o i st p = AErr k e ->
  exists p1 op p2 st1, p = p1 ++ op :: p2 /\ k = (i + length p1)%nat /\
                       apply_from o i st p1 = AOk st1 /\ step o st1 op = Err e.
Proof.
  induction p as [|op p IH]; intros i st k e; simpl; try discriminate.
  destruct (step o st op) as [st'| |] eqn:E; try discriminate.
  - intro H. apply IH in H as [p1 [op1 [p2 [st1 [H1 [H2 [H3 H4]]]]]]].
    exists (op :: p1), op1, p2, st1. split; [rewrite H1; reflexivity|]. split; [simpl; lia|].
    split; [simpl; rewrite E; exact H3 | exact H4].
  - intro H. inversion H; subst. exists [], op, p, st. split; [reflexivity|]. split; [simpl; lia|]. auto.
Qed.

Lemma nth_error_mid {A} (p1 : list A) x p2 i : nth_error (p1 ++ x :: p2) (i + length p1 - i) = Some x.
Proof. replace (i + length p1 - i)%nat with (length p1 + 0)%nat by lia. rewrite nth_error_app2 by lia.
  replace (length p1 + 0 - length p1)%nat with 0%nat by lia. reflexivity. Qed.

(* (b), on the model alone, every option setting, no domain: the limit error is returned exactly
   when the first failing operation is a copy that reaches deepCopy with a size that pushes the
   running total over a positive limit; it reports that limit and that total *)
Theorem apply_limit_iff o p i st k l a :
  apply_from o i st p = AErr k (ECopyLimit l a) <->
  exists p1 op p2 st1, p = p1 ++ op :: p2 /\ k = (i + length p1)%nat /\ apply_from o i st p1 = AOk st1 /\
                       copy_over o st1 op = Some a /\ l = o_limit o.
Proof.
  split.
  - intro H. apply apply_err_split in H as [p1 [op [p2 [st1 [H1 [H2 [H3 H4]]]]]]].
    apply step_limit_iff in H4. exists p1, op, p2, st1. tauto.
  - intros [p1 [op [p2 [st1 [-> [-> [H3 [H4 ->]]]]]]]]. eapply first_failure; eauto.
    apply step_limit_iff. auto.
Qed.

(* (a), on the model alone: the failed-test sentinel comes from a test operation *)
Theorem apply_test_failed_kind o p i st k :
  apply_from o i st p = AErr k ETestFailed ->
  exists op, nth_error p (k - i) = Some op /\ op_kind op = KTest.
Proof.
  intro H. apply apply_err_split in H as [p1 [op [p2 [st1 [-> [-> [H3 H4]]]]]]].
  exists op. split; [apply nth_error_mid | eapply test_failed_only_by_test; eauto].
Qed.

(* what a limit stop means against the reference run *)
Lemma limit_stop_ref o i st p :
  limit_stop o i st p ->
  exists k total op,
    apply_from o i st p = AErr k (ECopyLimit (o_limit o) total) /\
    (0 < o_limit o)%Z /\ (o_limit o < total)%Z /\ (i <= k)%nat /\
    nth_error p (k - i) = Some op /\ op_kind op = KCopy /\
    match rfc_apply_from (dia o) i (sval st) (map den_op p) with
    | Done _ => True
    | Failed j cz => (k <= j)%nat /\ (k = j -> cz = FIndex)
    end.
Proof.
  intros [p1 [op [p2 [st1 [total [L1 [L2 [L3 [L4 [L5 [L6 L7]]]]]]]]]]].
  destruct (copy_over_inv o st1 op total L5) as [K [sz [_ [_ [Z1 Z2]]]]].
  exists (i + length p1)%nat, total, op. split; [exact L6|]. split; [exact Z1|]. split; [exact Z2|].
  split; [lia|]. split; [subst p; apply nth_error_mid|]. split; [exact K|].
  subst p. rewrite map_app, rfc_apply_from_app, L4, map_length. cbn [map rfc_apply_from].
  destruct L7 as [[j' R]|R]; rewrite R.
  - destruct (rfc_apply_from (dia o) (S (i + length p1)) j' (map den_op p2)) as [doc|j cz] eqn:E; [exact I|].
    apply rfc_failed_ge in E. split; lia.
  - split; [lia | reflexivity].
Qed.

Section Classes.
  Variables (o : opts) (p : list operation) (i : nat) (st : state).
  Hypothesis LO : lim_opts o.
  Hypothesis G : sgood st.
  Hypothesis D : Forall op_dom p.
  Hypothesis F : copies_fit (dia o) (sval st) (map den_op p) = true.

  (* the run of the model against the run of the reference, as one statement about a failing Apply:
     either the reference fails at the same operation for a corresponding cause, or the model was
     stopped by the limit at a copy which the reference performs (or rejects for its index only) *)
  Theorem apply_err_limit k e :
    apply_from o i st p = AErr k e ->
    (exists cz, rfc_apply_from (dia o) i (sval st) (map den_op p) = Failed k cz /\ cause_rel cz e) \/
    (is_copy_limit e = true /\ limit_stop o i st p).
  Proof.
    intro H. pose proof (apply_sim_limit o LO p i st G D F) as S.
    destruct (rfc_apply_from (dia o) i (sval st) (map den_op p)) as [doc|j cz].
    - destruct S as [[st' [S1 _]]|S]; [congruence|]. right. split; [|exact S].
      destruct (limit_stop_ref o i st p S) as [k' [t [op [S1 _]]]]. rewrite S1 in H. inversion H; reflexivity.
    - destruct S as [[e' [S1 S2]]|S].
      + rewrite S1 in H. inversion H; subst. left. eauto.
      + right. split; [|exact S].
        destruct (limit_stop_ref o i st p S) as [k' [t [op [S1 _]]]]. rewrite S1 in H. inversion H; reflexivity.
  Qed.

  (* (a) errors.Is(err, ErrTestFailed) exactly when the first failing operation is a test whose
     comparison came out unequal (in the reference: it fails there, at that operation, with FTest) *)
  Theorem test_failed_iff k e :
    apply_from o i st p = AErr k e ->
    (e = ETestFailed <->
     (exists op, nth_error p (k - i) = Some op /\ op_kind op = KTest) /\
     rfc_apply_from (dia o) i (sval st) (map den_op p) = Failed k FTest).
  Proof.
    intro H. split.
    - intros ->. split; [eapply apply_test_failed_kind; eauto|].
      destruct (apply_err_limit k ETestFailed H) as [[cz [R1 R2]]|[R _]]; [|discriminate].
      rewrite R1. f_equal. apply (cause_rel_test_iff cz ETestFailed R2). reflexivity.
    - intros [_ R]. destruct (apply_err_limit k e H) as [[cz [R1 R2]]|[_ S]].
      + rewrite R in R1. inversion R1; subst. exact R2.
      + destruct (limit_stop_ref o i st p S) as [k' [t [op [S1 [_ [_ [_ [_ [_ S2]]]]]]]]].
        rewrite S1 in H. inversion H; subst. rewrite R in S2. destruct S2 as [_ S2]. discriminate (S2 eq_refl).
  Qed.

  (* (b) the error is the limit error exactly when the patch was stopped by the limit: at a copy
     whose source the reference resolves and whose destination parent it reaches, the running total
     plus deepCopy's size exceeding the limit; every earlier operation agreed with the reference *)
  Theorem copy_limit_iff k e :
    apply_from o i st p = AErr k e -> (is_copy_limit e = true <-> limit_stop o i st p).
  Proof.
    intro H. split.
    - intro L. destruct (apply_err_limit k e H) as [[cz [R1 R2]]|[_ S]]; [|exact S].
      rewrite (cause_rel_not_limit cz e R2) in L. discriminate.
    - intro S. destruct (limit_stop_ref o i st p S) as [k' [t [op [S1 _]]]]. rewrite S1 in H. inversion H; reflexivity.
  Qed.

  (* (c) the reference fails at operation k because the addressed member is absent or the parent
     cannot be reached: Apply reports ErrMissing at k, unless the limit stopped it at an EARLIER copy *)
  Theorem missing_class k cz :
    rfc_apply_from (dia o) i (sval st) (map den_op p) = Failed k cz ->
    cz = FMissingMember \/ cz = FUnreachable ->
    apply_from o i st p = AErr k EMissing \/
    (exists k' total, (k' < k)%nat /\ (0 < o_limit o)%Z /\ (o_limit o < total)%Z /\
                      apply_from o i st p = AErr k' (ECopyLimit (o_limit o) total)).
  Proof.
    intros R C. pose proof (apply_sim_limit o LO p i st G D F) as S. rewrite R in S.
    destruct S as [[e [S1 S2]]|S].
    - left. rewrite (cause_rel_missing cz e S2 C) in S1. exact S1.
    - right. destruct (limit_stop_ref o i st p S) as [k' [t [op [S1 [S2 [S3 [_ [_ [_ S4]]]]]]]]].
      rewrite R in S4. destruct S4 as [S4 S5]. exists k', t.
      assert (k' <> k) by (intro E; specialize (S5 E); destruct C; congruence).
      split; [lia|]. auto.
  Qed.

  (* in particular, when Apply fails at the operation at which the reference fails *)
  Corollary missing_class_same k cz e :
    rfc_apply_from (dia o) i (sval st) (map den_op p) = Failed k cz ->
    cz = FMissingMember \/ cz = FUnreachable ->
    apply_from o i st p = AErr k e -> e = EMissing.
  Proof.
    intros R C H. destruct (missing_class k cz R C) as [S|[k' [t [L [_ [_ S]]]]]]; rewrite S in H; inversion H; subst; auto. lia.
  Qed.

  (* a patch the reference runs to the end returns no error, except the limit error *)
  Theorem done_no_error doc :
    rfc_apply_from (dia o) i (sval st) (map den_op p) = Done doc ->
    (exists st', apply_from o i st p = AOk st' /\ sval st' = doc /\ sgood st') \/
    (exists k total, (0 < o_limit o)%Z /\ (o_limit o < total)%Z /\
                     apply_from o i st p = AErr k (ECopyLimit (o_limit o) total)).
  Proof.
    intro R. pose proof (apply_sim_limit o LO p i st G D F) as S. rewrite R in S.
    destruct S as [S|S]; [left; exact S|]. right.
    destruct (limit_stop_ref o i st p S) as [k' [t [op [S1 [S2 [S3 _]]]]]]. eauto.
  Qed.
End Classes.

(* ================================================================================================ *)
(* 5. AllowMissingPathOnRemove on (limit 0): the causes are those of the stripped patch             *)
(* ================================================================================================ *)
(* a failing Apply with the option on: the reference run of the patch without the skipped removes
   fails too, at the same operation (nth_error), and the classes correspond *)
Theorem allow_classes o p i st k1 e :
  allow_opts o -> sgood st -> Forall op_dom p ->
  copies_fit (dia o) (sval st) (map den_op (strip (dia o) (sval st) p)) = true ->
  apply_from o i st p = AErr k1 e ->
  exists k cz,
    rfc_apply_from (dia o) i (sval st) (map den_op (strip (dia o) (sval st) p)) = Failed k cz /\
    cause_rel cz e /\
    nth_error p (k1 - i) = nth_error (strip (dia o) (sval st) p) (k - i) /\
    (e = ETestFailed <-> cz = FTest) /\
    (cz = FMissingMember \/ cz = FUnreachable -> e = EMissing) /\
    is_copy_limit e = false.
Proof.
  intros AO G D F H. pose proof (allow_strip_ref o AO p i i st G D F) as A.
  destruct (rfc_apply_from (dia o) i (sval st) (map den_op (strip (dia o) (sval st) p))) as [doc|k cz].
  - destruct A as [st' [A1 _]]. congruence.
  - destruct A as [k1' [e' [A1 [A2 [A3 [A4 A5]]]]]]. rewrite A1 in H. inversion H; subst.
    exists k, cz. split; [reflexivity|]. split; [exact A2|]. split; [exact A5|].
    split; [apply cause_rel_test_iff; exact A2|]. split; [apply cause_rel_missing; exact A2|].
    eapply cause_rel_not_limit; eauto.
Qed.

(* and conversely: where that reference run fails, Apply fails at that operation with the class *)
Theorem allow_classes_ref o p i st k cz :
  allow_opts o -> sgood st -> Forall op_dom p ->
  copies_fit (dia o) (sval st) (map den_op (strip (dia o) (sval st) p)) = true ->
  rfc_apply_from (dia o) i (sval st) (map den_op (strip (dia o) (sval st) p)) = Failed k cz ->
  exists k1 e,
    apply_from o i st p = AErr k1 e /\ cause_rel cz e /\
    nth_error p (k1 - i) = nth_error (strip (dia o) (sval st) p) (k - i) /\
    (e = ETestFailed <-> cz = FTest) /\
    (cz = FMissingMember \/ cz = FUnreachable -> e = EMissing) /\
    is_copy_limit e = false.
Proof.
  intros AO G D F R. pose proof (allow_strip_ref o AO p i i st G D F) as A. rewrite R in A.
  destruct A as [k1 [e [A1 [A2 [A3 [A4 A5]]]]]]. exists k1, e. split; [exact A1|]. split; [exact A2|].
  split; [exact A5|]. split; [apply cause_rel_test_iff; exact A2|]. split; [apply cause_rel_missing; exact A2|].
  eapply cause_rel_not_limit; eauto.
Qed.

(* ================================================================================================ *)
(* 6. EnsurePathExistsOnAdd on: what add reports                                                    *)
(* ================================================================================================ *)
(* the error of ensurePathExists itself is ErrInvalidIndex only (a negative next index); an existing
   value on the way that is not a container is no error of ensurePathExists (fix 584e880), and the
   remaining error return is dead code: a node that spells or holds an array always converts *)
Lemma ensure_errs o parts : forall c e c', ensure o parts c = (Some e, c') -> e = EInvalidIndex.
Proof.
  induction parts as [|p parts IH]; intros c e c'; simpl; try discriminate.
  destruct parts as [|nextp rest]; try discriminate.
  intro H. break_match_hyp H; inversion H; subst; auto;
    match goal with E : ensure o (nextp :: rest) _ = (Some _, _) |- _ => eapply IH; eauto end.
Qed.

Lemma ensure_path_errs o c path e c' : ensure_path o c path = (Some e, c') -> e = EInvalidIndex.
Proof. unfold ensure_path. intro H. break_match_hyp H; try (inversion H; fail). eapply ensure_errs; eauto. Qed.

(* where the missing parents can be created (ens succeeds) the add is the reference's add on the
   document with the parents created: its error class is that of this add *)
Theorem ensure_add_classes o st op r c j1 cz :
  s_root st = RCon c -> cgood c -> o_ensure o = true ->
  op_str op (B "path") = Ok (x2f :: r) -> Forall ctok (map decode_token (split_slash r)) -> val_good op ->
  ens (dia o) (ptoks r) (cval c) = Some j1 ->
  at_parent (dia o) (ptoks r) j1 (add_leaf (dia o) (ref_value op)) = RFail cz ->
  exists e, op_add o st op = Err e /\ cause_rel cz e /\ plain_err e = true.
Proof.
  intros Hr G En Hp D Vg H R. pose proof (ensure_add_sim o st op r c j1 Hr G En Hp D Vg H) as S.
  rewrite R in S. destruct S as [e [S1 S2]]. exists e. split; [exact S1|]. split; [exact S2|].
  eapply op_add_nocl; eauto.
Qed.

(* the path passes through an existing member that is neither a container nor null, before its last
   token: the reference cannot reach the parent (FUnreachable; without the option Apply reports
   ErrMissing: op_add_sim).  With the option, ensurePathExists leaves the document as it is and the
   add reports ErrMissing as well (before fix 584e880: ErrInvalid) *)
Lemma scalar_node n : ngood n -> is_container (aval n) = false -> aval n <> ONull ->
  exists t, n = NRaw t /\ into_con n = None /\
            match t with TArr _ => False | _ => True end.
Proof.
  intros Gn C NN. destruct n as [|t|ks ob|ns].
  - cbn [aval] in NN. congruence.
  - cbn [aval] in *. exists t. destruct t; cbn [den] in *; try discriminate; try congruence; auto.
  - rewrite aval_doc in C. discriminate.
  - discriminate.
Qed.

Lemma ensure_scalar o : forall parts c ps t rest x,
  cgood c -> Forall tok_dom (map decode_token parts) ->
  map decode_token parts = ps ++ t :: rest -> rest <> [] ->
  descend (dia o) (ps ++ [t]) (cval c) = Some x -> is_container x = false -> x <> ONull ->
  exists c', ensure o parts c = (None, c') /\ cval c' = cval c /\ cgood c'.
Proof.
  induction parts as [|part parts IH]; intros c ps t rest x G D E NE Hd Cx NN.
  - destruct ps; discriminate.
  - inversion D as [|? ? Dk Dr]; subst. destruct ps as [|t0 ps].
    + cbn [app map] in E. inversion E as [[E1 E2]]. destruct parts as [|nextp rest0]; [cbn in E2; congruence|].
      cbn [app descend] in Hd. rewrite <- E1 in Hd.
      pose proof (con_get_sim o c (decode_token part) G Dk) as CG.
      destruct (child_at (dia o) (cval c) (decode_token part)) as [j|]; [|discriminate]. inversion Hd; subst j.
      destruct CG as [n [Hg [Ev Gn]]]. rewrite <- Ev in Cx, NN.
      destruct (scalar_node n Gn Cx NN) as [tt [-> [IC Sh]]].
      rewrite ensure_unfold. cbv zeta. rewrite Hg.
      destruct tt; try contradiction; cbn [into_con];
        try (exists c; split; [reflexivity | split; [reflexivity | exact G]]).
      cbn [aval den is_container] in Cx. discriminate.
    + cbn [app map] in E. inversion E as [[E1 E2]]. cbn [app descend] in Hd. rewrite <- E1 in Hd.
      pose proof (con_get_sim o c (decode_token part) G Dk) as CG.
      destruct (child_at (dia o) (cval c) (decode_token part)) as [j|] eqn:Ech; [|discriminate].
      destruct CG as [n [Hg [Ev Gn]]].
      assert (Cj : is_container j = true).
      { destruct (ps ++ [t]) as [|a l] eqn:Ea; [destruct ps; discriminate|].
        cbn [descend] in Hd. destruct j; try discriminate; reflexivity. }
      pose proof (into_con_sim n Gn) as IC. rewrite Ev, Cj in IC. destruct IC as [ch [Hic [Evc Gch]]].
      destruct parts as [|nextp rest0]; [destruct ps; discriminate|].
      rewrite (ensure_unfold_existing o part nextp rest0 c n ch Hg) by (rewrite ?Ev; auto).
      rewrite <- Evc in Hd.
      destruct (IH ch ps t rest x Gch Dr E2 NE Hd Cx NN) as [ch' [E3 [E4 E5]]]. rewrite E3.
      eexists. split; [reflexivity|].
      destruct (con_put_sim o c (decode_token part) (node_of_con ch') n G Dk Hg (proj1 E5)) as [Q1 Q2].
      split; [|exact Q2]. rewrite Q1. fold (cval ch'). rewrite E4, Evc. apply put_child_same. exact Ech.
Qed.

Lemma descend_app d a : forall b j,
  descend d (a ++ b) j = match descend d a j with Some y => descend d b y | None => None end.
Proof.
  induction a as [|t a IH]; intros b j; cbn [app descend]; [reflexivity|].
  destruct (child_at d j t); [apply IH | reflexivity].
Qed.

(* the reference, for such a path: the parent of the addressed location is not reached *)
Lemma through_scalar_parent d r ps t rest x j :
  ptoks r = ps ++ t :: rest -> rest <> [] ->
  descend d (ps ++ [t]) j = Some x -> is_container x = false ->
  dest_reachable d j r = false.
Proof.
  intros E NE Hd Cx. destruct (exists_last NE) as [rest' [a ->]].
  unfold ptoks in E. rewrite app_comm_cons, app_assoc in E. apply app_inj_tail in E as [E1 _].
  unfold dest_reachable. rewrite E1.
  replace (ps ++ t :: rest') with ((ps ++ [t]) ++ rest') by (rewrite <- app_assoc; reflexivity).
  rewrite descend_app, Hd. destruct rest' as [|b rest']; cbn [descend]; [exact Cx|].
  destruct x; try discriminate Cx; reflexivity.
Qed.

Theorem ensure_through_scalar o st op r c ps t rest x :
  s_root st = RCon c -> cgood c -> o_ensure o = true ->
  op_str op (B "path") = Ok (x2f :: r) -> Forall tok_dom (map decode_token (split_slash r)) ->
  ptoks r = ps ++ t :: rest -> rest <> [] ->
  descend (dia o) (ps ++ [t]) (cval c) = Some x -> is_container x = false -> x <> ONull ->
  op_add o st op = Err EMissing /\
  at_parent (dia o) (ptoks r) (cval c) (add_leaf (dia o) (ref_value op)) = RFail FUnreachable.
Proof.
  intros Hr G En Hp D E NE Hd Cx NN.
  pose proof (through_scalar_parent (dia o) r ps t rest x (cval c) E NE Hd Cx) as DR.
  split.
  - rewrite ptoks_eq in E.
    destruct (ensure_scalar o (split_slash r) c ps t rest x G D E NE Hd Cx NN) as [c1 [E1 [E2 E3]]].
    unfold op_add. rewrite Hp, Hr, En, ensure_path_slash, E1.
    match goal with |- context [find o c1 (x2f :: r) ?f] => pose proof (find_spec o c1 r f E3 D) as FS end.
    rewrite E2 in FS. unfold dest_reachable in DR.
    destruct (descend (dia o) (map decode_token (path_parts r)) (cval c)) as [p|]; [rewrite DR in FS|];
      destruct FS as [c' [F1 _]]; rewrite F1; reflexivity.
  - apply dest_unreachable_ref; [|exact DR].
    intros p t0 Cp. apply (proj1 (leaf_noncontainer (dia o) p t0 Cp)).
Qed.

(* ---- ensurePathExists on any document of the C14 path domain: it never fails, and leaves a good
   document; the add that follows is the reference's add on THAT document ---- *)
Lemma ensure_unfold_nil o part nextp rest0 c :
  con_get o c (decode_token part) = Ok NNil ->
  ensure o (part :: nextp :: rest0) c =
  let c1 := pad_model o part c in
  fresh_then o nextp
    (fun ch => let (e, ch') := ensure o (nextp :: rest0) ch in
               (e, ignore_err c1 (con_add o c1 (decode_token part) (node_of_con ch'))))
    (Some EInvalidIndex, c1).
Proof. intro H. rewrite ensure_unfold. cbv zeta. rewrite H. reflexivity. Qed.

Lemma ensure_good o : forall parts c,
  cgood c -> Forall ctok (map decode_token parts) ->
  exists c1, ensure o parts c = (None, c1) /\ cgood c1.
Proof.
  induction parts as [|part parts IH]; intros c G D.
  - exists c. auto.
  - destruct parts as [|nextp rest]; [exists c; auto|].
    inversion D as [|? ? Dk Dr]; subst. pose proof Dr as Dr'. inversion Dr' as [|? ? Dn _]; subst.
    assert (Create : exists c1,
              (let c1 := pad_model o part c in
               fresh_then o nextp
                 (fun ch => let (e, ch') := ensure o (nextp :: rest) ch in
                            (e, ignore_err c1 (con_add o c1 (decode_token part) (node_of_con ch'))))
                 (Some EInvalidIndex, c1)) = (None, c1) /\ cgood c1).
    { cbv zeta. destruct (pad_model_sim o part c G Dk) as [P1 P2].
      match goal with |- context [fresh_then o nextp ?K ?Bad] =>
        destruct (fresh_then_sim o nextp K Bad Dn) as [ch [F1 [F2 F3]]]; rewrite F3 end.
      destruct (IH ch F1 Dr) as [ch' [E1 E3]]. rewrite E1.
      pose proof (con_add_sim o (pad_model o part c) (decode_token part) (node_of_con ch') P2 (proj1 Dk) (proj1 E3)) as CA.
      destruct (add_leaf (dia o) (aval (node_of_con ch')) (cval (pad_model o part c)) (decode_token part)) as [j'|cz].
      - destruct CA as [cp' [C1 [C2 C3]]]. rewrite C1. cbn [ignore_err]. exists cp'. auto.
      - destruct CA as [_ [e [C1 _]]]. rewrite C1. cbn [ignore_err]. exists (pad_model o part c). auto. }
    pose proof (con_get_sim o c (decode_token part) G (proj1 Dk)) as CG.
    destruct (child_at (dia o) (cval c) (decode_token part)) as [j|] eqn:Ech.
    + destruct CG as [n [Hg [Ev Gn]]]. destruct (is_container j) eqn:Cj.
      * pose proof (into_con_sim n Gn) as IC. rewrite Ev, Cj in IC. destruct IC as [ch [Hic [Evc Gch]]].
        rewrite (ensure_unfold_existing o part nextp rest c n ch Hg) by (rewrite ?Ev; auto).
        destruct (IH ch Gch Dr) as [ch' [E1 E3]]. rewrite E1. eexists. split; [reflexivity|].
        exact (proj2 (con_put_sim o c (decode_token part) (node_of_con ch') n G (proj1 Dk) Hg (proj1 E3))).
      * destruct n as [|tt|ks ob|ns].
        -- rewrite (ensure_unfold_nil o part nextp rest c Hg). exact Create.
        -- rewrite ensure_unfold. cbv zeta. rewrite Hg.
           destruct tt; try (rewrite <- Ev in Cj; discriminate Cj);
             (exists c; split; [reflexivity | exact G]).
        -- rewrite <- Ev, aval_doc in Cj. discriminate Cj.
        -- rewrite <- Ev in Cj. discriminate Cj.
    + destruct CG as [e [Hg _]]. rewrite (ensure_unfold_missing o part nextp rest c e Hg). exact Create.
Qed.

Theorem ensure_add_general o st op r c :
  s_root st = RCon c -> cgood c -> o_ensure o = true ->
  op_str op (B "path") = Ok (x2f :: r) -> Forall ctok (map decode_token (split_slash r)) -> val_good op ->
  exists c1, ensure_path o c (x2f :: r) = (None, c1) /\ cgood c1 /\
    (forall j1, ens (dia o) (ptoks r) (cval c) = Some j1 -> cval c1 = j1) /\
    match at_parent (dia o) (ptoks r) (cval c1) (add_leaf (dia o) (ref_value op)) with
    | ROk j' => exists st', op_add o st op = Ok st' /\ sval st' = j' /\ sgood st' /\ s_acc st' = s_acc st
    | RFail cz => exists e, op_add o st op = Err e /\ cause_rel cz e
    end.
Proof.
  intros Hr G En Hp D Vg. rewrite ensure_path_slash.
  destruct (ensure_good o (split_slash r) c G D) as [c1 [E1 E3]]. exists c1.
  split; [exact E1|]. split; [exact E3|]. split.
  - intros j1 H. rewrite ptoks_eq in H.
    destruct (ensure_sim o (split_slash r) c j1 G D H) as [c1' [E1' [E2' _]]]. congruence.
  - pose proof (opv_good op Vg) as Gv.
    pose proof (add_find_sim o c1 r (opv op) E3 (ctok_dom _ D) Gv) as AF. rewrite opv_aval in AF.
    unfold op_add. rewrite Hp, Hr, En, ensure_path_slash, E1. fold (opv op).
    change (find o c1 (x2f :: r) _) with (find o c1 (x2f :: r) (add_fn o (opv op))).
    destruct (at_parent (dia o) (ptoks r) (cval c1) (add_leaf (dia o) (ref_value op))) as [j'|cz].
    + destruct AF as [a [c2 [A1 [A2 A3]]]]. rewrite A1. eexists. split; [reflexivity|].
      unfold sval, sgood. cbn [s_root s_acc]. split; auto. split; eauto.
    + destruct AF as [e [c2 [[A1|[A1 ->]] A2]]]; rewrite A1; eauto.
Qed.

(* an add fails, in the reference, because the parent is not reached or the last token is no index *)
Lemma add_causes d v r doc cz :
  at_parent d (ptoks r) doc (add_leaf d v) = RFail cz -> cz = FUnreachable \/ cz = FIndex.
Proof.
  unfold ptoks. rewrite at_parent_snoc.
  destruct (descend d (map decode_token (path_parts r)) doc) as [p|]; [|intro H; inversion H; auto].
  destruct p; cbn [add_leaf bind]; try (intro H; inversion H; auto; fail).
  destruct (idx_insert d (Rfc6902.zlen l) (path_key r)); cbn [bind]; intro H; inversion H; auto.
Qed.

(* so, with the option on, an add of the C14 path domain reports ErrMissing, or an index error for
   its last token; never ErrInvalid *)
Corollary ensure_add_errs o st op r c e :
  s_root st = RCon c -> cgood c -> o_ensure o = true ->
  op_str op (B "path") = Ok (x2f :: r) -> Forall ctok (map decode_token (split_slash r)) -> val_good op ->
  op_add o st op = Err e -> e = EMissing \/ e = EInvalidIndex \/ e = EAtoi.
Proof.
  intros Hr G En Hp D Vg H.
  destruct (ensure_add_general o st op r c Hr G En Hp D Vg) as [c1 [_ [_ [_ S]]]].
  destruct (at_parent (dia o) (ptoks r) (cval c1) (add_leaf (dia o) (ref_value op))) as [j'|cz] eqn:R.
  - destruct S as [st' [S1 _]]. congruence.
  - destruct S as [e' [S1 S2]]. rewrite S1 in H. inversion H; subst e'.
    destruct (add_causes _ _ _ _ _ R) as [-> | ->]; cbn [cause_rel] in S2; tauto.
Qed.

(* the clause of C08 under EnsurePathExistsOnAdd: the reference's add, on the document with the
   parents created (ens), or on the document itself when nothing can be created because an existing
   scalar is on the way, fails for an unreachable parent or an absent member: ErrMissing *)
Theorem ensure_add_missing o st op r c doc1 cz :
  s_root st = RCon c -> cgood c -> o_ensure o = true ->
  op_str op (B "path") = Ok (x2f :: r) -> Forall ctok (map decode_token (split_slash r)) -> val_good op ->
  (ens (dia o) (ptoks r) (cval c) = Some doc1 \/
   (doc1 = cval c /\ exists ps t rest x, ptoks r = ps ++ t :: rest /\ rest <> [] /\
       descend (dia o) (ps ++ [t]) (cval c) = Some x /\ is_container x = false /\ x <> ONull)) ->
  at_parent (dia o) (ptoks r) doc1 (add_leaf (dia o) (ref_value op)) = RFail cz ->
  cz = FMissingMember \/ cz = FUnreachable ->
  op_add o st op = Err EMissing.
Proof.
  intros Hr G En Hp D Vg [H|[-> [ps [t [rest [x [E [NE [Hd [Cx NN]]]]]]]]]] R C.
  - destruct (ensure_add_classes o st op r c doc1 cz Hr G En Hp D Vg H R) as [e [S1 [S2 _]]].
    rewrite (cause_rel_missing cz e S2 C) in S1. exact S1.
  - exact (proj1 (ensure_through_scalar o st op r c ps t rest x Hr G En Hp (ctok_dom _ D) E NE Hd Cx NN)).
Qed.

(* ================================================================================================ *)
(* 7. Apply on bytes                                                                                 *)
(* ================================================================================================ *)
(* the state Apply starts the operation loop in *)
Definition init_state (o : opts) (t : tjson) : state :=
  match load_doc o t with Ok r => mkState r 0 | _ => mkState RNull 0 end.

Lemma api_bridge o indent p doc t :
  parse doc = Some t -> root_container t = true -> tnodup t = true ->
  sgood (init_state o t) /\ sval (init_state o t) = den t /\ s_acc (init_state o t) = 0%Z /\
  (forall k e, api_apply o indent p doc = RErr (Some k) e <-> apply_from o 0 (init_state o t) p = AErr k e) /\
  (forall st', apply_from o 0 (init_state o t) p = AOk st' -> sgood st' ->
     exists n, api_apply o indent p doc = ROut (output o indent (render (o_esc o) n)) /\ aval n = sval st' /\ ngood n).
Proof.
  intros P RC T. destruct (load_doc_good o doc t P RC T) as [c [S1 [S2 S3]]].
  unfold init_state. rewrite S1.
  split; [exists c; auto|]. split; [exact S3|]. split; [reflexivity|].
  assert (U : api_apply o indent p doc = apply_tree o indent p t).
  { unfold api_apply. destruct doc as [|b doc]; [rewrite parse_nil in P; discriminate|]. rewrite P. reflexivity. }
  rewrite U. unfold apply_tree. rewrite S1. split.
  - intros k e. destruct (apply_from o 0 (mkState (RCon c) 0) p) as [st'|j e'|j].
    + split; [|discriminate]. destruct (marshal_root o (s_root st')); discriminate.
    + split; intro H; inversion H; reflexivity.
    + split; discriminate.
  - intros st' A [c' [A3 A4]]. rewrite A. unfold marshal_root. rewrite A3. exists (node_of_con c').
    unfold sval. rewrite A3.
    destruct c' as [s k ob| |s ns]; [| exfalso; exact (proj2 A4) |]; (split; [reflexivity | split; [reflexivity | exact (proj1 A4)]]).
Qed.

Section ApiClasses.
  Variables (o : opts) (indent : bytes) (p : list operation) (doc : bytes) (t : tjson).
  Hypothesis LO : lim_opts o.
  Hypothesis P : parse doc = Some t.
  Hypothesis RC : root_container t = true.
  Hypothesis T : tnodup t = true.
  Hypothesis D : Forall op_dom p.
  Hypothesis F : copies_fit (dia o) (den t) (map den_op p) = true.

  (* the reference fails at operation k with cause cz: Apply fails there with a corresponding class,
     or was stopped by the copy-size limit at a copy at or before k (at k only if the reference
     rejects that copy for its destination index) *)
  Theorem api_cause_limit k cz :
    rfc_apply (dia o) (den t) (map den_op p) = Failed k cz ->
    (exists e, api_apply o indent p doc = RErr (Some k) e /\ cause_rel cz e /\
               (e = ETestFailed <-> cz = FTest) /\
               (cz = FMissingMember \/ cz = FUnreachable -> e = EMissing) /\
               is_copy_limit e = false) \/
    (exists k' total op, (k' <= k)%nat /\ (k' = k -> cz = FIndex) /\
               (0 < o_limit o)%Z /\ (o_limit o < total)%Z /\
               nth_error p k' = Some op /\ op_kind op = KCopy /\
               api_apply o indent p doc = RErr (Some k') (ECopyLimit (o_limit o) total)).
  Proof.
    intro R. destruct (api_bridge o indent p doc t P RC T) as [G [SV [_ [B _]]]].
    unfold rfc_apply in R. rewrite <- SV in F, R.
    pose proof (apply_sim_limit o LO p 0%nat _ G D F) as S. rewrite R in S. destruct S as [[e [S1 S2]]|S].
    - left. exists e. split; [apply B; exact S1|]. split; [exact S2|].
      split; [apply cause_rel_test_iff; exact S2|]. split; [apply cause_rel_missing; exact S2|].
      eapply cause_rel_not_limit; eauto.
    - right. destruct (limit_stop_ref o 0%nat _ p S) as [k' [total [op [S1 [S2 [S3 [_ [S4 [S5 S6]]]]]]]]].
      rewrite R in S6. rewrite Nat.sub_0_r in S4. exists k', total, op.
      split; [exact (proj1 S6)|]. split; [exact (proj2 S6)|]. split; [exact S2|]. split; [exact S3|].
      split; [exact S4|]. split; [exact S5|]. apply B. exact S1.
  Qed.

  (* the reference runs the patch to the end: Apply returns the encoding of a node denoting the
     reference's result, or the limit error *)
  Theorem api_done_limit j :
    rfc_apply (dia o) (den t) (map den_op p) = Done j ->
    (exists n, api_apply o indent p doc = ROut (output o indent (render (o_esc o) n)) /\ aval n = j /\ ngood n) \/
    (exists k' total op, (0 < o_limit o)%Z /\ (o_limit o < total)%Z /\
               nth_error p k' = Some op /\ op_kind op = KCopy /\
               api_apply o indent p doc = RErr (Some k') (ECopyLimit (o_limit o) total)).
  Proof.
    intro R. destruct (api_bridge o indent p doc t P RC T) as [G [SV [_ [B B2]]]].
    unfold rfc_apply in R. rewrite <- SV in F, R.
    pose proof (apply_sim_limit o LO p 0%nat _ G D F) as S. rewrite R in S. destruct S as [[st' [S1 [S2 S3]]]|S].
    - left. destruct (B2 st' S1 S3) as [n [N1 [N2 N3]]]. exists n. split; [exact N1|]. split; [congruence | exact N3].
    - right. destruct (limit_stop_ref o 0%nat _ p S) as [k' [total [op [S1 [S2 [S3 [_ [S4 [S5 _]]]]]]]]].
      rewrite Nat.sub_0_r in S4. exists k', total, op. split; [exact S2|]. split; [exact S3|].
      split; [exact S4|]. split; [exact S5|]. apply B. exact S1.
  Qed.

  (* the classes of a failing Apply, read off the error *)
  Theorem api_error_classes k e :
    api_apply o indent p doc = RErr (Some k) e ->
    (* (a) *)
    (e = ETestFailed <->
       (exists op, nth_error p k = Some op /\ op_kind op = KTest) /\
       rfc_apply (dia o) (den t) (map den_op p) = Failed k FTest) /\
    (* (b) *)
    (is_copy_limit e = true <-> limit_stop o 0 (init_state o t) p) /\
    (* (c) *)
    (forall cz, rfc_apply (dia o) (den t) (map den_op p) = Failed k cz ->
                cz = FMissingMember \/ cz = FUnreachable -> e = EMissing).
  Proof.
    intro H. destruct (api_bridge o indent p doc t P RC T) as [G [SV [AC [B _]]]].
    apply B in H. unfold rfc_apply. rewrite <- SV in F. rewrite <- SV. split; [|split].
    - pose proof (test_failed_iff o p 0%nat _ LO G D F k e H) as Q. rewrite Nat.sub_0_r in Q. exact Q.
    - exact (copy_limit_iff o p 0%nat _ LO G D F k e H).
    - intros cz R C. eapply missing_class_same; eauto.
  Qed.
End ApiClasses.

(* ================================================================================================ *)
(* 8. instances                                                                                     *)
(* ================================================================================================ *)
Definition cf_run (o : opts) (pt doc : bytes) : option apply_result :=
  match api_decode pt with Some p => Some (api_apply o [] p doc) | None => None end.
Definition cf_refrun (o : opts) (pt doc : bytes) : option outcome :=
  match api_decode pt, parse doc with
  | Some p, Some t => Some (rfc_apply (dia o) (den t) (map den_op p))
  | _, _ => None
  end.

(* the limit is checked before the destination index: a copy the reference rejects for its index
   (FIndex; ErrInvalidIndex without a limit) reports the limit error when it is over the limit *)
Example limit_before_index :
  let pt := B "[{""op"":""copy"",""from"":""/b"",""path"":""/a/5""}]" in
  let doc := B "{""a"":[1],""b"":""xxxxxxxxxx""}" in
  cf_run (mkOpts false 3 false false false [] None) pt doc = Some (RErr (Some 0%nat) (ECopyLimit 3 12)) /\
  cf_run (mkOpts false 0 false false false [] None) pt doc = Some (RErr (Some 0%nat) EInvalidIndex) /\
  cf_refrun (mkOpts false 3 false false false [] None) pt doc = Some (Failed 0 FIndex).
Proof. vm_compute. repeat split; reflexivity. Qed.

(* the limit stops the patch at a copy BEFORE the operation at which the reference fails *)
Example limit_before_missing :
  let pt := B "[{""op"":""test"",""path"":""/a/0"",""value"":1},{""op"":""copy"",""from"":""/b"",""path"":""/c""},{""op"":""remove"",""path"":""/zz""}]" in
  let doc := B "{""a"":[1],""b"":""xxxxxxxxxx""}" in
  cf_run (mkOpts false 3 false false false [] None) pt doc = Some (RErr (Some 1%nat) (ECopyLimit 3 12)) /\
  cf_run (mkOpts false 12 false false false [] None) pt doc = Some (RErr (Some 2%nat) EMissing) /\
  cf_refrun (mkOpts false 3 false false false [] None) pt doc = Some (Failed 2 FMissingMember).
Proof. vm_compute. repeat split; reflexivity. Qed.

(* the input that was a COUNTEREXAMPLE to the ErrMissing clause of C08 under EnsurePathExistsOnAdd
   before fix 584e880 (Apply returned ErrInvalid, intoDoc's error returned bare by ensurePathExists):
   the parent location /a of the add cannot be reached as a container (it holds the number 1; the
   reference: FUnreachable); now ErrMissing with the option as without it *)
Example ensure_scalar_now_missing :
  let pt := B "[{""op"":""add"",""path"":""/a/b"",""value"":1}]" in
  let doc := B "{""a"":1}" in
  cf_run (mkOpts false 0 false true false [] None) pt doc = Some (RErr (Some 0%nat) EMissing) /\
  cf_run (mkOpts false 0 false false false [] None) pt doc = Some (RErr (Some 0%nat) EMissing) /\
  cf_refrun (mkOpts false 0 false true false [] None) pt doc = Some (Failed 0 FUnreachable).
Proof. vm_compute. repeat split; reflexivity. Qed.

(* with the option a null on the way is treated by how it got there: a decoded null member is
   replaced by a created object; a null put there by an earlier add is an existing value that is not
   a container: nothing is created and the add reports ErrMissing *)
Example ensure_null_on_the_way :
  cf_run (mkOpts false 0 false true false [] None) (B "[{""op"":""add"",""path"":""/a/b"",""value"":1}]") (B "{""a"":null}")
    = Some (ROut (B "{""a"":{""b"":1}}")) /\
  cf_run (mkOpts false 0 false true false [] None)
      (B "[{""op"":""add"",""path"":""/a"",""value"":null},{""op"":""add"",""path"":""/a/b"",""value"":1}]") (B "{}")
    = Some (RErr (Some 1%nat) EMissing).
Proof. vm_compute. split; reflexivity. Qed.

(* ================================================================================================ *)
(* 9. AllowMissingPathOnRemove together with any copy-size limit (EnsurePathExistsOnAdd off)        *)
(* ================================================================================================ *)
Theorem step_sim_noensure o st op :
  sgood st -> o_ensure o = false -> op_dom op ->
  copy_fits (dia o) (sval st) (den_op op) = true ->
  match copy_over o st op with
  | Some total =>
      step o st op = Err (ECopyLimit (o_limit o) total) /\ op_kind op = KCopy /\
      (0 < o_limit o)%Z /\ (o_limit o < total)%Z /\
      (exists j v, copy_reaches (dia o) (sval st) op = Some j /\ aval v = j /\ ngood v /\
                   total = (s_acc st + snd (deep_copy o v))%Z) /\
      ((exists j', rfc_step (dia o) (sval st) (den_op op) = ROk j') \/
       rfc_step (dia o) (sval st) (den_op op) = RFail FIndex)
  | None =>
      if (o_allow o && absent_remove (dia o) (sval st) op)%bool
      then exists st', step o st op = Ok st' /\ sval st' = sval st /\ sgood st' /\ s_acc st' = s_acc st
      else match rfc_step (dia o) (sval st) (den_op op) with
           | ROk j' => exists st', step o st op = Ok st' /\ sval st' = j' /\ sgood st'
           | RFail cz => exists e, step o st op = Err e /\ cause_rel cz e
           end
  end.
Proof.
  intros G En D F. rewrite step_split. destruct (copy_over o st op) as [total|] eqn:E.
  - split; [reflexivity|]. destruct (copy_over_inv o st op total E) as [K [sz [P [-> [L1 L2]]]]].
    split; [exact K|]. split; [exact L1|]. split; [exact L2|].
    pose proof (copy_over_ref o st op G D K F) as R.
    destruct (copy_reaches (dia o) (sval st) op) as [j|] eqn:CR; [|congruence].
    destruct R as [v [R1 [R2 [R3 _]]]]. split.
    + exists j, v. split; auto. split; auto. split; auto. congruence.
    + eapply copy_reaches_step; eauto.
  - destruct (o_allow o) eqn:Al; cbn [andb].
    + assert (AO : allow_opts (set_limit o 0)) by (split; [exact Al | split; [exact En | reflexivity]]).
      exact (step_allow_sim (set_limit o 0) st op G AO D F).
    + assert (PO : plain_opts (set_limit o 0)) by (split; [exact Al | split; [exact En | reflexivity]]).
      exact (step_sim (set_limit o 0) st op G PO D F).
Qed.

(* strip (AllowEnsureFacts.v) with a switch: the removes the option forgives are deleted when the
   option is on; nothing is deleted when it is off *)
Fixpoint stripb (b : bool) (d : dialect) (doc : ojson) (p : list operation) : list operation :=
  match p with
  | [] => []
  | op :: rest =>
      if (b && absent_remove d doc op)%bool then stripb b d doc rest
      else op :: match rfc_step d doc (den_op op) with
                 | ROk doc' => stripb b d doc' rest
                 | RFail _ => rest
                 end
  end.

Lemma stripb_false d : forall p doc, stripb false d doc p = p.
Proof.
  induction p as [|op p IH]; intro doc; cbn [stripb andb]; auto.
  f_equal. destruct (rfc_step d doc (den_op op)); auto.
Qed.

Lemma stripb_true d : forall p doc, stripb true d doc p = strip d doc p.
Proof.
  induction p as [|op p IH]; intro doc; cbn [stripb strip andb]; auto.
  destruct (absent_remove d doc op); auto. f_equal. destruct (rfc_step d doc (den_op op)); auto.
Qed.

(* stopped by the limit, against the reference run of the stripped patch *)
Definition limit_stop_s (o : opts) (i i' : nat) (st : state) (p : list operation) : Prop :=
  exists p1 op p2 st1 total,
    p = p1 ++ op :: p2 /\
    apply_from o i st p1 = AOk st1 /\ sgood st1 /\
    rfc_apply_from (dia o) i' (sval st) (map den_op (stripb (o_allow o) (dia o) (sval st) p1)) = Done (sval st1) /\
    copy_over o st1 op = Some total /\
    apply_from o i st p = AErr (i + length p1) (ECopyLimit (o_limit o) total) /\
    ((exists j', rfc_step (dia o) (sval st1) (den_op op) = ROk j') \/
     rfc_step (dia o) (sval st1) (den_op op) = RFail FIndex).

Lemma absent_remove_not_copy d doc op : absent_remove d doc op = true -> op_kind op = KRemove.
Proof. unfold absent_remove. destruct (op_kind op); try discriminate. reflexivity. Qed.

Theorem apply_sim_noensure o : o_ensure o = false -> forall p i i' st,
  sgood st -> Forall op_dom p ->
  copies_fit (dia o) (sval st) (map den_op (stripb (o_allow o) (dia o) (sval st) p)) = true ->
  limit_stop_s o i i' st p \/
  match rfc_apply_from (dia o) i' (sval st) (map den_op (stripb (o_allow o) (dia o) (sval st) p)) with
  | Done doc => exists st', apply_from o i st p = AOk st' /\ sval st' = doc /\ sgood st'
  | Failed k cz => exists k1 e, apply_from o i st p = AErr k1 e /\ cause_rel cz e /\
                     (i <= k1)%nat /\ (i' <= k)%nat /\
                     nth_error p (k1 - i) = nth_error (stripb (o_allow o) (dia o) (sval st) p) (k - i')
  end.
Proof.
  intros En. induction p as [|op p IH]; intros i i' st G D F.
  - right. cbn [stripb map rfc_apply_from apply_from]. exists st. auto.
  - inversion D as [|? ? Dop Dp]; subst. cbn [stripb] in *.
    assert (F1 : copy_fits (dia o) (sval st) (den_op op) = true).
    { destruct (o_allow o && absent_remove (dia o) (sval st) op)%bool eqn:A.
      - apply andb_prop in A as [_ A]. apply absent_remove_fits; exact A.
      - cbn [map copies_fit] in F. apply andb_prop in F. exact (proj1 F). }
    pose proof (step_sim_noensure o st op G En Dop F1) as S.
    destruct (copy_over o st op) as [total|] eqn:CO.
    { left. destruct S as [S1 [S2 [S3 [S4 [S5 S6]]]]].
      exists [], op, p, st, total. split; [reflexivity|]. split; [reflexivity|]. split; [exact G|].
      split; [reflexivity|]. split; [exact CO|]. split; [|exact S6].
      cbn [apply_from length]. rewrite S1, Nat.add_0_r. reflexivity. }
    cbn [apply_from].
    destruct (o_allow o && absent_remove (dia o) (sval st) op)%bool eqn:A.
    + (* a skipped remove *)
      destruct S as [st' [S1 [S2 [S3 _]]]]. rewrite S1.
      specialize (IH (S i) i' st' S3 Dp). rewrite S2 in IH. specialize (IH F).
      destruct IH as [IH|IH].
      * left. destruct IH as [p1 [op1 [p2 [st1 [total [L1 [L2 [L3 [L4 [L5 [L6 L7]]]]]]]]]]].
        exists (op :: p1), op1, p2, st1, total. split; [rewrite L1; reflexivity|].
        split; [cbn [apply_from]; rewrite S1; exact L2|]. split; [exact L3|].
        split; [cbn [stripb]; rewrite A, <- S2; exact L4|]. split; [exact L5|].
        split; [|exact L7]. cbn [apply_from length]. rewrite S1, L6. f_equal. lia.
      * right. destruct (rfc_apply_from (dia o) i' (sval st) (map den_op (stripb (o_allow o) (dia o) (sval st) p))) as [doc|k cz]; [exact IH|].
        destruct IH as [k1 [e [I1 [I2 [I3 [I4 I5]]]]]]. exists k1, e. split; auto. split; auto. split; [lia|]. split; auto.
        replace (k1 - i)%nat with (S (k1 - S i))%nat by lia. exact I5.
    + cbn [map rfc_apply_from copies_fit] in *. apply andb_prop in F as [_ F2].
      destruct (rfc_step (dia o) (sval st) (den_op op)) as [j'|cz] eqn:RS.
      * destruct S as [st' [S1 [S2 S3]]]. rewrite S1.
        specialize (IH (S i) (S i') st' S3 Dp). rewrite S2 in IH. specialize (IH F2).
        destruct IH as [IH|IH].
        -- left. destruct IH as [p1 [op1 [p2 [st1 [total [L1 [L2 [L3 [L4 [L5 [L6 L7]]]]]]]]]]].
           exists (op :: p1), op1, p2, st1, total. split; [rewrite L1; reflexivity|].
           split; [cbn [apply_from]; rewrite S1; exact L2|]. split; [exact L3|].
           split; [cbn [stripb map rfc_apply_from]; rewrite A; cbn [map rfc_apply_from]; rewrite RS, <- S2; exact L4|].
           split; [exact L5|]. split; [|exact L7]. cbn [apply_from length]. rewrite S1, L6. f_equal. lia.
        -- right. destruct (rfc_apply_from (dia o) (S i') j' (map den_op (stripb (o_allow o) (dia o) j' p))) as [doc|k cz]; [exact IH|].
           destruct IH as [k1 [e [I1 [I2 [I3 [I4 I5]]]]]]. exists k1, e. split; auto. split; auto. split; [lia|]. split; [lia|].
           replace (k1 - i)%nat with (S (k1 - S i))%nat by lia. replace (k - i')%nat with (S (k - S i'))%nat by lia. exact I5.
      * right. destruct S as [e [S1 S2]]. rewrite S1. exists i, e. split; auto. split; auto. split; [lia|]. split; [lia|].
        rewrite !Nat.sub_diag. reflexivity.
Qed.

(* the reference fails with FTest only at a test operation *)
Lemma leaf_not_ftest d v p t :
  add_leaf d v p t <> RFail FTest /\ remove_leaf d p t <> RFail FTest /\ replace_leaf d v p t <> RFail FTest.
Proof.
  destruct p; cbn [add_leaf remove_leaf replace_leaf]; repeat split; try discriminate.
  - destruct (idx_insert d (Rfc6902.zlen l) t); discriminate.
  - destruct (idx_existing d (Rfc6902.zlen l) t); discriminate.
  - destruct (idx_existing d (Rfc6902.zlen l) t); discriminate.
  - destruct (amem t ms); discriminate.
  - destruct (amem t ms); discriminate.
Qed.

Lemma at_parent_ftest d f : forall toks j,
  at_parent d toks j f = RFail FTest -> exists p t, f p t = RFail FTest.
Proof.
  induction toks as [|t toks IH]; intros j; [discriminate|].
  destruct toks as [|t' r]; [cbn [at_parent]; eauto|].
  change (at_parent d (t :: t' :: r) j f) with
    (match j with
     | OObj ms => match aget t ms with
                  | Some c => bind (at_parent d (t' :: r) c f) (fun c' => ROk (OObj (aset t c' ms)))
                  | None => RFail FUnreachable end
     | OArr l => match idx_existing d (Rfc6902.zlen l) t with
                 | Some i => bind (at_parent d (t' :: r) (nth i l ONull) f) (fun c' => ROk (OArr (set_at i c' l)))
                 | None => RFail FUnreachable end
     | _ => RFail FUnreachable
     end).
  destruct j; try discriminate.
  - destruct (idx_existing d (Rfc6902.zlen l) t) as [n|]; try discriminate.
    destruct (at_parent d (t' :: r) (nth n l ONull) f) eqn:E; cbn [bind]; try discriminate.
    intro H; inversion H; subst. eapply IH; eauto.
  - destruct (aget t ms) as [c|]; try discriminate.
    destruct (at_parent d (t' :: r) c f) eqn:E; cbn [bind]; try discriminate.
    intro H; inversion H; subst. eapply IH; eauto.
Qed.

Lemma get_at_not_ftest d : forall toks j, get_at d toks j <> RFail FTest.
Proof.
  induction toks as [|t r IH]; intro j; cbn [get_at]; [discriminate|].
  destruct j; try discriminate.
  - destruct (idx_existing d (Rfc6902.zlen l) t); [apply IH | destruct r; discriminate].
  - destruct (aget t ms); [apply IH | destruct r; discriminate].
Qed.

Lemma rfc_step_ftest d doc rop : rfc_step d doc rop = RFail FTest -> rkind rop = OpTest.
Proof.
  unfold rfc_step. destruct (ptr_tokens (rpath rop)) as [toks|]; [|discriminate].
  assert (NA : forall v toks j, at_parent d toks j (add_leaf d v) <> RFail FTest).
  { intros v tk j H. apply at_parent_ftest in H as [p [t H]]. exact (proj1 (leaf_not_ftest d v p t) H). }
  assert (NR : forall toks j, at_parent d toks j (remove_leaf d) <> RFail FTest).
  { intros tk j H. apply at_parent_ftest in H as [p [t H]]. exact (proj1 (proj2 (leaf_not_ftest d ONull p t)) H). }
  assert (NP : forall v toks j, at_parent d toks j (replace_leaf d v) <> RFail FTest).
  { intros v tk j H. apply at_parent_ftest in H as [p [t H]]. exact (proj2 (proj2 (leaf_not_ftest d v p t)) H). }
  destruct (rkind rop); auto; intro H; exfalso.
  - unfold rfc_add in H. destruct toks; [destruct (is_container _); discriminate | eapply NA; eauto].
  - destruct toks; [discriminate | eapply NR; eauto].
  - destruct toks; [destruct (is_container _); discriminate | eapply NP; eauto].
  - destruct (ptr_tokens (rfrom rop)) as [[|ft ftoks]|]; try discriminate.
    destruct (get_at d (ft :: ftoks) doc) as [v|c] eqn:E; cbn [bind] in H.
    + destruct (at_parent d (ft :: ftoks) doc (remove_leaf d)) as [doc1|c] eqn:E2; cbn [bind] in H.
      * destruct toks; [discriminate | eapply NA; eauto].
      * inversion H; subst. eapply NR; eauto.
    + inversion H; subst. eapply get_at_not_ftest; eauto.
  - destruct (ptr_tokens (rfrom rop)) as [ftoks|]; try discriminate.
    destruct (get_at d ftoks doc) as [v|c] eqn:E; cbn [bind] in H.
    + destruct toks; [discriminate | eapply NA; eauto].
    + inversion H; subst. eapply get_at_not_ftest; eauto.
Qed.

Lemma rfc_failed_nth d q : forall i doc k cz,
  rfc_apply_from d i doc q = Failed k cz ->
  exists rop doc', nth_error q (k - i) = Some rop /\ rfc_step d doc' rop = RFail cz.
Proof.
  induction q as [|r q IH]; intros i doc k cz; cbn [rfc_apply_from]; [discriminate|].
  destruct (rfc_step d doc r) as [doc1|c] eqn:E.
  - intro H. pose proof (rfc_failed_ge _ _ _ _ _ _ H) as Le. apply IH in H as [rop [doc' [H1 H2]]].
    exists rop, doc'. split; [|exact H2]. replace (k - i)%nat with (S (k - S i))%nat by lia. exact H1.
  - intro H; inversion H; subst. exists r, doc. rewrite Nat.sub_diag. auto.
Qed.

(* the classes of a failing Apply with EnsurePathExistsOnAdd off: any AllowMissingPathOnRemove, any
   limit; the reference run is that of the patch without the removes the option forgives (the patch
   itself when the option is off: stripb_false) *)
Theorem noensure_classes o p i i' st k1 e :
  o_ensure o = false -> sgood st -> Forall op_dom p ->
  copies_fit (dia o) (sval st) (map den_op (stripb (o_allow o) (dia o) (sval st) p)) = true ->
  apply_from o i st p = AErr k1 e ->
  let p' := stripb (o_allow o) (dia o) (sval st) p in
  let ref := rfc_apply_from (dia o) i' (sval st) (map den_op p') in
  (* (a) *)
  (e = ETestFailed <-> exists k, ref = Failed k FTest /\ nth_error p (k1 - i) = nth_error p' (k - i')) /\
  (* (b) *)
  (is_copy_limit e = true <-> limit_stop_s o i i' st p) /\
  (* (c) *)
  (forall k cz, ref = Failed k cz -> cz = FMissingMember \/ cz = FUnreachable ->
     (e = EMissing /\ nth_error p (k1 - i) = nth_error p' (k - i')) \/ is_copy_limit e = true) /\
  (* the rest: a corresponding class, or the limit *)
  ((exists k cz, ref = Failed k cz /\ cause_rel cz e /\ nth_error p (k1 - i) = nth_error p' (k - i')) \/
   is_copy_limit e = true).
Proof.
  intros En G D F H p' ref.
  pose proof (apply_sim_noensure o En p i i' st G D F) as S. fold p' in S. fold ref in S.
  assert (LS : limit_stop_s o i i' st p -> exists op total, e = ECopyLimit (o_limit o) total /\
                 nth_error p (k1 - i) = Some op /\ op_kind op = KCopy).
  { intros [p1 [op [p2 [st1 [total [L1 [L2 [L3 [L4 [L5 [L6 L7]]]]]]]]]]]. rewrite L6 in H. inversion H; subst.
    exists op, total. split; [reflexivity|]. split; [apply nth_error_mid|].
    exact (proj1 (copy_over_inv o st1 op total L5)). }
  split; [|split; [|split]].
  - split.
    + intros ->. destruct S as [S|S]; [destruct (LS S) as [op [total [E _]]]; discriminate|].
      destruct ref as [doc|k cz]; [destruct S as [st' [S1 _]]; congruence|].
      destruct S as [k1' [e' [S1 [S2 [S3 [S4 S5]]]]]]. rewrite S1 in H. inversion H; subst.
      exists k. split; [|exact S5]. f_equal. apply (cause_rel_test_iff cz ETestFailed S2). reflexivity.
    + intros [k [R N]]. destruct S as [S|S].
      * exfalso. destruct (LS S) as [op [total [_ [N1 K]]]].
        destruct (rfc_failed_nth _ _ _ _ _ _ R) as [rop [doc' [Q1 Q2]]].
        rewrite nth_error_map, <- N, N1 in Q1. cbn [option_map] in Q1. inversion Q1; subst rop.
        apply rfc_step_ftest in Q2. unfold den_op in Q2. cbn [rkind] in Q2. rewrite K in Q2. discriminate.
      * rewrite R in S. destruct S as [k1' [e' [S1 [S2 _]]]]. rewrite S1 in H. inversion H; subst. exact S2.
  - split.
    + intro L. destruct S as [S|S]; [exact S|]. exfalso.
      destruct ref as [doc|k cz]; [destruct S as [st' [S1 _]]; congruence|].
      destruct S as [k1' [e' [S1 [S2 _]]]]. rewrite S1 in H. inversion H; subst.
      rewrite (cause_rel_not_limit cz e S2) in L. discriminate.
    + intro S'. destruct (LS S') as [op [total [-> _]]]. reflexivity.
  - intros k cz R C. destruct S as [S|S].
    + right. destruct (LS S) as [op [total [-> _]]]. reflexivity.
    + left. rewrite R in S. destruct S as [k1' [e' [S1 [S2 [_ [_ S5]]]]]]. rewrite S1 in H. inversion H; subst.
      split; [exact (cause_rel_missing cz e S2 C) | exact S5].
  - destruct S as [S|S].
    + right. destruct (LS S) as [op [total [-> _]]]. reflexivity.
    + destruct ref as [doc|k cz]; [destruct S as [st' [S1 _]]; congruence|].
      destruct S as [k1' [e' [S1 [S2 [_ [_ S5]]]]]]. rewrite S1 in H. inversion H; subst. left. eauto.
Qed.

(* the same on bytes *)
Theorem api_noensure_classes o indent p doc t k1 e :
  o_ensure o = false -> parse doc = Some t -> root_container t = true -> tnodup t = true ->
  Forall op_dom p ->
  copies_fit (dia o) (den t) (map den_op (stripb (o_allow o) (dia o) (den t) p)) = true ->
  api_apply o indent p doc = RErr (Some k1) e ->
  let p' := stripb (o_allow o) (dia o) (den t) p in
  let ref := rfc_apply (dia o) (den t) (map den_op p') in
  (e = ETestFailed <-> exists k, ref = Failed k FTest /\ nth_error p k1 = nth_error p' k) /\
  (is_copy_limit e = true <-> limit_stop_s o 0 0 (init_state o t) p) /\
  (forall k cz, ref = Failed k cz -> cz = FMissingMember \/ cz = FUnreachable ->
     (e = EMissing /\ nth_error p k1 = nth_error p' k) \/ is_copy_limit e = true) /\
  ((exists k cz, ref = Failed k cz /\ cause_rel cz e /\ nth_error p k1 = nth_error p' k) \/
   is_copy_limit e = true).
Proof.
  intros En P RC T D F H. destruct (api_bridge o indent p doc t P RC T) as [G [SV [_ [B _]]]].
  apply B in H. unfold rfc_apply. rewrite <- SV in *.
  pose proof (noensure_classes o p 0%nat 0%nat (init_state o t) k1 e En G D F H) as Q.
  cbv zeta in Q. rewrite Nat.sub_0_r in Q.
  destruct Q as [Q1 [Q2 [Q3 Q4]]]. cbv zeta. split; [|split; [exact Q2|split]].
  - rewrite Q1. split; intros [k [R N]]; exists k; rewrite Nat.sub_0_r in *; auto.
  - intros k cz R C. destruct (Q3 k cz R C) as [[E N]|L]; [left; rewrite Nat.sub_0_r in N; auto | right; exact L].
  - destruct Q4 as [[k [cz [R [C N]]]]|L]; [left; exists k, cz; rewrite Nat.sub_0_r in N; auto | right; exact L].
Qed.

(* both options at once: the skipped remove, then the copy that trips the limit, before the test
   that fails when there is no limit *)
Example allow_and_limit :
  let pt := B "[{""op"":""remove"",""path"":""/zz""},{""op"":""copy"",""from"":""/b"",""path"":""/c""},{""op"":""test"",""path"":""/a/0"",""value"":2}]" in
  let doc := B "{""a"":[1],""b"":""xxxxxxxxxx""}" in
  cf_run (mkOpts false 3 true false false [] None) pt doc = Some (RErr (Some 1%nat) (ECopyLimit 3 12)) /\
  cf_run (mkOpts false 0 true false false [] None) pt doc = Some (RErr (Some 2%nat) ETestFailed) /\
  cf_run (mkOpts false 3 false false false [] None) pt doc = Some (RErr (Some 0%nat) EMissing).
Proof. vm_compute. repeat split; reflexivity. Qed.
