(* Utf8Out.v — the UTF-8 clause of C15: every successful result of Apply / ApplyIndent, MergePatch,
   MergeMergePatches and CreateMergePatch is valid UTF-8, given UTF-8 input.

   utf8_text   : the byte-level predicate: the whole byte string is a concatenation of well-formed
                 UTF-8 sequences as unicode/utf8.Valid understands it.  It IS Codec.utf8 (the walk of
                 DecodeRune, Strings.utf8_len); utf8b is its decision procedure (utf8b_iff).
   tutf8 t     : every string body, member-name body and number literal spelled in the tree t is
                 utf8_text.
   sections:   1 bytes: append, split at an ASCII byte, decision procedure
               2 the encoder: quote esc s is UTF-8 for EVERY s; html_escape keeps UTF-8
               3 trees: print / pp / escape_tree
               4 the reader: a UTF-8 text parses to a tutf8 tree (fuel induction, suffix invariant)
               5 Apply / ApplyIndent (v5): the invariant nall tutf8 (OutputFacts.RawInv), main theorem
               6 MergePatch / MergeMergePatches (v5) (OutputFacts.MergeInv)
               7 CreateMergePatch (v5): no hypothesis on the input at all
               8 the legacy package: MergePatch / MergeMergePatches, Apply / ApplyIndent (Section RawInv4)
               9 examples: non-vacuity; the input hypothesis is needed *)
From Coq Require Import Lia.
From JP Require Import Bytes Json Text Strings Den Pointer Rfc6902 ImplV5 DecodeFacts JsonFacts Abs EqualFacts ParseFacts
                       ImplFacts RefFacts ApplyFacts Codec StrInv PrintParse Depth ApplySim Totality.
From JP Require Import ImplMerge Rfc7396 MergeFacts ImplMergeFacts CreateFacts OutputFacts.

(* ================================================================================================ *)
(* 1. bytes                                                                                          *)
(* ================================================================================================ *)
Definition utf8_text : bytes -> Prop := utf8.

Definition ascii (s : bytes) : bool := forallb (fun c => bn c <? 128) s.

Lemma ascii_app a b : ascii (a ++ b) = ascii a && ascii b.
Proof. apply forallb_app. Qed.

Lemma utf8_of_ascii s : ascii s = true -> utf8 s.
Proof. apply utf8_ascii. Qed.

Lemma utf8_tail c r : (bn c <? 128) = true -> utf8 (c :: r) -> utf8 r.
Proof.
  intros H U. inversion U as [|c0 r0 H0 U0|c0 r0 n H0 E U0]; subst; [exact U0|]. rewrite H in H0. discriminate.
Qed.

Lemma utf8_tl c r : utf8 (c :: r) -> (bn c <? 128) = true -> utf8 r.
Proof. intros U H. exact (utf8_tail c r H U). Qed.

Lemma utf8_drop_ascii a b : ascii a = true -> utf8 (a ++ b) -> utf8 b.
Proof.
  induction a as [|c a IH]; intros A U; [exact U|]. cbn [ascii forallb] in A. apply andb_prop in A as [A1 A2].
  apply IH; [exact A2|]. apply (utf8_tail c); [exact A1 | exact U].
Qed.

Lemma utf8_ascii_app a b : ascii a = true -> utf8 b -> utf8 (a ++ b).
Proof.
  induction a as [|c a IH]; intros A U; [exact U|]. cbn [ascii forallb] in A. apply andb_prop in A as [A1 A2].
  cbn [app]. apply U_ascii; [exact A1 | apply IH; assumption].
Qed.

(* a well-formed sequence followed by a UTF-8 string *)
Lemma utf8_chunk c r n X : (bn c <? 128) = false -> utf8_len (c :: r) = S n -> utf8 X ->
  utf8 (firstn (S n) (c :: r) ++ X).
Proof.
  intros H E U. pose proof (utf8_len_firstn_length c r n E) as FL.
  assert (Hd : exists t, firstn (S n) (c :: r) = c :: t) by (cbn [firstn]; eauto).
  destruct Hd as [t Ht]. pose proof (utf8_len_prefix c r n X H E) as P.
  destruct (firstn_app_exact (S n) (firstn (S n) (c :: r)) X FL) as [_ F2].
  rewrite Ht in *. cbn [app] in *. apply (U_multi c (t ++ X) n H P). rewrite F2. exact U.
Qed.

Theorem utf8_app a b : utf8 a -> utf8 b -> utf8 (a ++ b).
Proof.
  induction 1 as [|c r H U IH|c r n H E U IH]; intro Ub.
  - exact Ub.
  - cbn [app]. apply U_ascii; [exact H | apply IH; exact Ub].
  - rewrite <- (firstn_skipn (S n) (c :: r)), <- app_assoc. apply utf8_chunk; [exact H | exact E | apply IH; exact Ub].
Qed.

Lemma utf8_snoc a c : utf8 a -> (bn c <? 128) = true -> utf8 (a ++ [c]).
Proof. intros U H. apply utf8_app; [exact U|]. apply U_ascii; [exact H | constructor]. Qed.

(* in a UTF-8 string an ASCII byte is a sequence boundary *)
Lemma high_prefix_len (a : bytes) c r : (bn c <? 128) = true -> forall k,
  Forall (fun x => (bn x <? 128) = false) (firstn k (a ++ c :: r)) -> (k <= length a)%nat.
Proof.
  intro H. induction a as [|x a IH]; intros k F.
  - destruct k as [|k]; [apply le_n|]. cbn [app firstn] in F. inversion F as [|? ? F1 F2]; subst. rewrite H in F1. discriminate.
  - destruct k as [|k]; [apply Nat.le_0_l|]. cbn [app firstn] in F. inversion F as [|? ? F1 F2]; subst.
    cbn [length]. apply le_n_S. apply IH. exact F2.
Qed.

Theorem utf8_split : forall (m : nat) a c r, (length a <= m)%nat -> (bn c <? 128) = true ->
  utf8 (a ++ c :: r) -> utf8 a /\ utf8 (c :: r).
Proof.
  induction m as [|m IH]; intros a c r L H U.
  { destruct a; [split; [constructor | exact U] | simpl in L; lia]. }
  destruct a as [|x a]; [split; [constructor | exact U]|]. cbn [app] in U. simpl in L.
  inversion U as [|c0 r0 H0 U0|c0 r0 n H0 E U0]; subst.
  - destruct (IH a c r ltac:(lia) H U0) as [I1 I2]. split; [apply U_ascii; assumption | exact I2].
  - pose proof (si_utf8_seq_high x (a ++ c :: r) n H0 E) as Hi.
    pose proof (high_prefix_len (x :: a) c r H (S n) Hi) as Le.
    assert (Sk : skipn (S n) (x :: a ++ c :: r) = skipn (S n) (x :: a) ++ c :: r).
    { change (x :: a ++ c :: r) with ((x :: a) ++ c :: r). rewrite skipn_app.
      replace (S n - length (x :: a))%nat with 0%nat by lia. reflexivity. }
    rewrite Sk in U0.
    assert (L2 : (length (skipn (S n) (x :: a)) <= m)%nat) by (rewrite skipn_length; simpl; lia).
    destruct (IH _ c r L2 H U0) as [I1 I2]. split; [|exact I2].
    assert (Fx : firstn (S n) (x :: a ++ c :: r) = firstn (S n) (x :: a)).
    { change (x :: a ++ c :: r) with ((x :: a) ++ c :: r). rewrite firstn_app.
      replace (S n - length (x :: a))%nat with 0%nat by lia. cbn [firstn]. apply app_nil_r. }
    assert (E' : utf8_len (x :: a) = S n).
    { rewrite <- (firstn_skipn (S n) (x :: a)), <- Fx. apply utf8_len_prefix; assumption. }
    apply (U_multi x a n H0 E' I1).
Qed.

Corollary utf8_split_at a c r : (bn c <? 128) = true -> utf8 (a ++ c :: r) -> utf8 a /\ utf8 r.
Proof.
  intros H U. destruct (utf8_split (length a) a c r (le_n _) H U) as [U1 U2]. split; [exact U1|].
  apply (utf8_tail c r H U2).
Qed.

(* ---- decision procedure (what utf8.Valid computes) ---- *)
Fixpoint utf8b_go (fuel : nat) (s : bytes) : bool :=
  match fuel with
  | O => match s with [] => true | _ => false end
  | S f =>
      match s with
      | [] => true
      | c :: r =>
          if bn c <? 128 then utf8b_go f r
          else match utf8_len s with
               | O => false
               | n => utf8b_go f (skipn n s)
               end
      end
  end.

Definition utf8b (s : bytes) : bool := utf8b_go (length s) s.

Lemma utf8b_go_iff : forall f s, (length s <= f)%nat -> (utf8b_go f s = true <-> utf8 s).
Proof.
  induction f as [|f IH]; intros s L.
  { destruct s; [split; [constructor | reflexivity] | simpl in L; lia]. }
  destruct s as [|c r]; [split; [constructor | reflexivity]|]. simpl in L. cbn [utf8b_go].
  destruct (bn c <? 128) eqn:H.
  - rewrite (IH r) by lia. split; [intro U; apply U_ascii; assumption | apply utf8_tail; exact H].
  - destruct (utf8_len (c :: r)) as [|n] eqn:E.
    + split; [discriminate|]. intro U. inversion U as [|c0 r0 H0 U0|c0 r0 n0 H0 E0 U0]; subst; congruence.
    + assert (L2 : (length (skipn (S n) (c :: r)) <= f)%nat) by (rewrite skipn_length; simpl; lia).
      rewrite (IH _ L2). split.
      * intro U. apply (U_multi c r n H E U).
      * intro U. inversion U as [|c0 r0 H0 U0|c0 r0 n0 H0 E0 U0]; subst; [congruence|].
        assert (n0 = n) by congruence. subst n0. exact U0.
Qed.

Theorem utf8b_iff s : utf8b s = true <-> utf8_text s.
Proof. apply utf8b_go_iff. apply le_n. Qed.

Corollary utf8b_false s : utf8b s = false -> ~ utf8_text s.
Proof. intros H U. apply utf8b_iff in U. congruence. Qed.

(* ================================================================================================ *)
(* 2. the encoder                                                                                    *)
(* ================================================================================================ *)
Lemma ascii_qchar esc c : (bn c <? 128) = true -> ascii (qchar esc c) = true.
Proof. destruct esc; destruct c; intro H; try (vm_compute in H; discriminate H); vm_compute; reflexivity. Qed.

(* encodeState.string writes UTF-8 whatever bytes the Go string holds: ASCII is copied or escaped,
   a well-formed sequence is copied (U+2028/9 escaped), a byte that starts no well-formed sequence is
   written as the escape of U+FFFD (six ASCII bytes) *)
Theorem utf8_quote_any esc : forall n s, (length s <= n)%nat -> utf8 (quote esc s).
Proof.
  induction n as [|n IH]; intros s L.
  { destruct s; [constructor | simpl in L; lia]. }
  destruct s as [|c r]; [constructor|]. simpl in L.
  destruct (bn c <? 128) eqn:H.
  - rewrite quote_ascii by exact H. apply utf8_ascii_app; [apply ascii_qchar; exact H | apply IH; lia].
  - destruct (utf8_len (c :: r)) as [|k] eqn:E.
    + rewrite (quote_invalid esc c r H E). apply utf8_ascii_app; [reflexivity | apply IH; lia].
    + rewrite (quote_multi esc c r k H E).
      assert (IHs : utf8 (quote esc (skipn (S k) (c :: r)))).
      { apply IH. cbn [skipn]. pose proof (skipn_length_le k r). lia. }
      destruct (is_ls (c :: r)) as [[d r']|] eqn:Ls.
      * unfold is_ls in Ls. destruct c; try discriminate. destruct r as [|c1 r1]; try discriminate.
        destruct c1; try discriminate. destruct r1 as [|c2 r2]; try discriminate.
        destruct c2; try discriminate; inversion Ls; subst d r';
          (apply utf8_ascii_app; [reflexivity | apply IH; cbn [length] in L; lia]).
      * apply utf8_chunk; assumption.
Qed.

Corollary utf8_quote esc s : utf8_text (quote esc s).
Proof. apply (utf8_quote_any esc (length s)). apply le_n. Qed.

(* compact's escaping keeps a UTF-8 body UTF-8 *)
Lemma he_special_ascii c r : he_special c = true -> (bn c <? 128) = true ->
  exists p, ascii p = true /\ html_escape (c :: r) = p ++ html_escape r.
Proof.
  intros S H. destruct c; try discriminate S; try discriminate H.
  - exists [x5c; x75; x30; x30; x32; x36]. split; reflexivity.
  - exists [x5c; x75; x30; x30; x33; x63]. split; reflexivity.
  - exists [x5c; x75; x30; x30; x33; x65]. split; reflexivity.
Qed.

Theorem utf8_html_escape b : utf8 b -> utf8 (html_escape b).
Proof.
  induction 1 as [|c r H U IH|c r n H E U IH].
  - constructor.
  - destruct (he_special c) eqn:Sp.
    + destruct (he_special_ascii c r Sp H) as [p [Ap ->]]. apply utf8_ascii_app; assumption.
    + rewrite he_plain by exact Sp. apply U_ascii; assumption.
  - destruct (is_ls (c :: r)) as [[d r']|] eqn:Ls.
    + unfold is_ls in Ls. destruct c; try discriminate. destruct r as [|c1 r1]; try discriminate.
      destruct c1; try discriminate. destruct r1 as [|c2 r2]; try discriminate.
      destruct c2; try discriminate;
        (assert (n = 2%nat) by (vm_compute in E; congruence); subst n; cbn [skipn] in IH).
      * change (html_escape (xe2 :: x80 :: xa8 :: r2)) with ([x5c; x75; x32; x30; x32; x38] ++ html_escape r2).
        apply utf8_ascii_app; [reflexivity | exact IH].
      * change (html_escape (xe2 :: x80 :: xa9 :: r2)) with ([x5c; x75; x32; x30; x32; x39] ++ html_escape r2).
        apply utf8_ascii_app; [reflexivity | exact IH].
    + rewrite (he_chunk c r n H E Ls). apply utf8_chunk; assumption.
Qed.

Lemma utf8_esc_body esc b : utf8 b -> utf8 (esc_body esc b).
Proof. destruct esc; [apply utf8_html_escape | auto]. Qed.

Lemma utf8_spell esc b : utf8 b -> utf8 (spell esc b).
Proof.
  intro U. unfold spell. apply U_ascii; [reflexivity|]. apply utf8_snoc; [|reflexivity].
  exact (utf8_esc_body esc b U).
Qed.

(* ================================================================================================ *)
(* 3. trees                                                                                          *)
(* ================================================================================================ *)
Fixpoint tutf8 (t : tjson) : Prop :=
  match t with
  | TStr b => utf8 b
  | TNum lit => utf8 lit
  | TArr l => (fix all (l : list tjson) : Prop := match l with [] => True | x :: r => tutf8 x /\ all r end) l
  | TObj ms => (fix all (m : list (bytes * tjson)) : Prop :=
                  match m with [] => True | kv :: r => (utf8 (fst kv) /\ tutf8 (snd kv)) /\ all r end) ms
  | _ => True
  end.

Lemma tutf8_arr l : tutf8 (TArr l) <-> Forall tutf8 l.
Proof.
  cbn [tutf8]. split; intro H.
  - induction l as [|x l IH]; constructor; destruct H; auto.
  - induction l as [|x l IH]; [exact I|]. inversion H as [|? ? Ha Hb]; subst. split; [exact Ha | apply IH; exact Hb].
Qed.

Lemma tutf8_obj ms : tutf8 (TObj ms) <-> Forall (fun kv => utf8 (fst kv) /\ tutf8 (snd kv)) ms.
Proof.
  cbn [tutf8]. split; intro H.
  - induction ms as [|x l IH]; constructor; destruct H; auto.
  - induction ms as [|x l IH]; [exact I|]. inversion H as [|? ? Ha Hb]; subst. split; [exact Ha | apply IH; exact Hb].
Qed.

Lemma tutf8_arr_parts l : tutf8 (TArr l) -> Forall tutf8 l.
Proof. apply tutf8_arr. Qed.

Lemma tutf8_obj_parts ms : tutf8 (TObj ms) -> Forall (fun kv => tutf8 (snd kv)) ms.
Proof. intro H. apply tutf8_obj in H. revert H. apply Forall_impl. intros kv [_ H]. exact H. Qed.

Lemma utf8_sep_concat sep l : utf8 sep -> Forall utf8 l -> utf8 (sep_concat sep l).
Proof.
  intros Us F. induction F as [|x l Hx F IH]; [constructor|].
  destruct l as [|y l]; [exact Hx|].
  change (sep_concat sep (x :: y :: l)) with (x ++ sep ++ sep_concat sep (y :: l)).
  apply utf8_app; [exact Hx|]. apply utf8_app; [exact Us | exact IH].
Qed.

Lemma utf8_rep k ind : utf8 ind -> utf8 (rep k ind).
Proof. intro U. induction k as [|k IH]; [constructor|]. cbn [rep]. apply utf8_app; assumption. Qed.

Lemma utf8_nl ind k : utf8 ind -> utf8 (nl ind k).
Proof. intro U. unfold nl. apply U_ascii; [reflexivity | apply utf8_rep; exact U]. Qed.

(* the compact text of a tree whose spellings are UTF-8: structural characters are ASCII *)
Theorem utf8_print esc t : tutf8 t -> utf8_text (print esc t).
Proof.
  induction t as [| | |lit|b|l IH|ms IH] using tjson_rect'; intro T; try (apply utf8_of_ascii; reflexivity).
  - exact T.
  - cbn [print]. apply utf8_spell. exact T.
  - cbn [print]. apply U_ascii; [reflexivity|]. apply utf8_snoc; [|reflexivity].
    apply utf8_sep_concat; [apply utf8_of_ascii; reflexivity|]. rewrite Forall_map. apply tutf8_arr in T.
    rewrite Forall_forall in *. intros x Hx. apply (IH x Hx). apply (T x Hx).
  - cbn [print]. apply U_ascii; [reflexivity|]. apply utf8_snoc; [|reflexivity].
    apply utf8_sep_concat; [apply utf8_of_ascii; reflexivity|]. rewrite Forall_map. apply tutf8_obj in T.
    rewrite Forall_forall in *. intros kv Hk. destruct (T kv Hk) as [T1 T2].
    apply utf8_app; [apply utf8_spell; exact T1|]. apply U_ascii; [reflexivity|]. apply (IH kv Hk). exact T2.
Qed.

(* the indented text: the indentation is repeated verbatim, so it has to be UTF-8 itself *)
Theorem utf8_pp esc ind t : utf8 ind -> tutf8 t -> forall k, utf8_text (pp esc ind k t).
Proof.
  intro Ui. induction t as [| | |lit|b|l IH|ms IH] using tjson_rect'; intros T k;
    try (apply (utf8_print esc); exact T).
  - destruct l as [|x l]; [apply utf8_of_ascii; reflexivity|].
    change (pp esc ind k (TArr (x :: l))) with
      (x5b :: nl ind (S k) ++ sep_concat (x2c :: nl ind (S k)) (map (pp esc ind (S k)) (x :: l)) ++ nl ind k ++ [x5d]).
    apply U_ascii; [reflexivity|]. apply utf8_app; [apply utf8_nl; exact Ui|].
    apply utf8_app; [|apply utf8_snoc; [apply utf8_nl; exact Ui | reflexivity]].
    apply utf8_sep_concat; [apply U_ascii; [reflexivity | apply utf8_nl; exact Ui]|].
    rewrite Forall_map. apply tutf8_arr in T. rewrite Forall_forall in *. intros y Hy. apply (IH y Hy). apply (T y Hy).
  - destruct ms as [|x ms]; [apply utf8_of_ascii; reflexivity|].
    change (pp esc ind k (TObj (x :: ms))) with
      (x7b :: nl ind (S k) ++ sep_concat (x2c :: nl ind (S k))
                 (map (fun kv => spell esc (fst kv) ++ x3a :: x20 :: pp esc ind (S k) (snd kv)) (x :: ms))
           ++ nl ind k ++ [x7d]).
    apply U_ascii; [reflexivity|]. apply utf8_app; [apply utf8_nl; exact Ui|].
    apply utf8_app; [|apply utf8_snoc; [apply utf8_nl; exact Ui | reflexivity]].
    apply utf8_sep_concat; [apply U_ascii; [reflexivity | apply utf8_nl; exact Ui]|].
    rewrite Forall_map. apply tutf8_obj in T. rewrite Forall_forall in *. intros kv Hk. destruct (T kv Hk) as [T1 T2].
    apply utf8_app; [apply utf8_spell; exact T1|]. apply U_ascii; [reflexivity|]. apply U_ascii; [reflexivity|].
    apply (IH kv Hk). exact T2.
Qed.

Corollary utf8_output o indent t : utf8 indent -> tutf8 t -> utf8_text (output o indent t).
Proof. intros Ui T. unfold output. destruct indent; [apply utf8_print; exact T | apply utf8_pp; assumption]. Qed.

(* escaping a tree *)
Lemma tutf8_escape_tree esc t : tutf8 t -> tutf8 (escape_tree esc t).
Proof.
  induction t as [| | |lit|b|l IH|ms IH] using tjson_rect'; intro S; rewrite escape_tree_eq; try exact S.
  - cbn [tutf8] in *. apply utf8_esc_body. exact S.
  - apply tutf8_arr. apply tutf8_arr in S. rewrite Forall_map. rewrite Forall_forall in *.
    intros x Hx. apply (IH x Hx). apply (S x Hx).
  - apply tutf8_obj. apply tutf8_obj in S. rewrite Forall_map. rewrite Forall_forall in *.
    intros kv Hk. cbn [fst snd]. destruct (S kv Hk) as [S1 S2]. split; [apply utf8_esc_body; exact S1 | apply (IH kv Hk); exact S2].
Qed.

(* ================================================================================================ *)
(* 4. the reader: a UTF-8 text is read as a tree whose spellings are UTF-8                           *)
(*    (every function of the reader hands back a UTF-8 rest when given a UTF-8 text: the pieces are   *)
(*    cut at ASCII bytes, and in UTF-8 an ASCII byte is a sequence boundary: utf8_split)              *)
(* ================================================================================================ *)
Lemma is_ws_ascii c : is_ws c = true -> (bn c <? 128) = true.
Proof. destruct c; intro H; try discriminate H; reflexivity. Qed.

Lemma utf8_skip_ws s : utf8 s -> utf8 (skip_ws s).
Proof.
  induction s as [|c r IH]; intro U; [exact U|]. cbn [skip_ws]. destruct (is_ws c) eqn:W; [|exact U].
  apply IH. apply (utf8_tail c r (is_ws_ascii c W) U).
Qed.

Lemma utf8_strip_prefix p : ascii p = true -> forall s rest, utf8 s -> strip_prefix p s = Some rest -> utf8 rest.
Proof.
  intro A. induction p as [|x p IH]; intros s rest U H.
  - destruct s; inversion H; subst; exact U.
  - cbn [ascii forallb] in A. apply andb_prop in A as [A1 A2]. destruct s as [|y s]; [discriminate H|].
    unfold strip_prefix in H. cbn beta iota in H. destruct (Byte.eqb x y) eqn:E; [|discriminate H].
    apply Byte.byte_dec_bl in E. subst y. apply (IH A2 s rest); [apply (utf8_tail x s A1 U) | exact H].
Qed.

Lemma utf8_scan_string s b rest : utf8 s -> scan_string s = Some (b, rest) -> utf8 b /\ utf8 rest.
Proof.
  intros U H. apply (scan_string_inv (length s) s b rest (le_n _)) in H as [_ ->].
  apply (utf8_split_at b x22 rest eq_refl U).
Qed.

(* number literals are ASCII *)
Lemma is_digit_ascii c : is_digit c = true -> (bn c <? 128) = true.
Proof. unfold is_digit. intro H. apply andb_prop in H as [_ H]. apply N.leb_le in H. apply N.ltb_lt. lia. Qed.

Lemma is_digit19_ascii c : is_digit19 c = true -> (bn c <? 128) = true.
Proof. unfold is_digit19. intro H. apply andb_prop in H as [_ H]. apply N.leb_le in H. apply N.ltb_lt. lia. Qed.

Lemma digits_ascii d : digits d = true -> ascii d = true.
Proof.
  unfold digits, ascii. induction d as [|c d IH]; [reflexivity|]. cbn [forallb]. intro H. apply andb_prop in H as [H1 H2].
  rewrite (is_digit_ascii c H1). apply IH. exact H2.
Qed.

Lemma digits1_ascii d : digits1 d = true -> ascii d = true.
Proof. destruct d; [discriminate | apply digits_ascii]. Qed.

Lemma int_ok_ascii i : int_ok i = true -> ascii i = true.
Proof.
  destruct i as [|c d]; [discriminate|]. cbn [int_ok]. destruct (Byte.eqb c x30) eqn:E.
  - apply Byte.byte_dec_bl in E. subst c. destruct d; [reflexivity | discriminate].
  - intro H. apply andb_prop in H as [H1 H2]. cbn [ascii forallb]. rewrite (is_digit19_ascii c H1). apply digits_ascii. exact H2.
Qed.

Lemma frac_ok_ascii f : frac_ok f = true -> ascii f = true.
Proof.
  destruct f as [|c d]; [reflexivity|]. cbn [frac_ok]. intro H. apply andb_prop in H as [H1 H2].
  apply Byte.byte_dec_bl in H1. subst c. cbn [ascii forallb]. apply digits1_ascii. exact H2.
Qed.

Lemma is_e_ascii c : ScannerGrammar.is_e c = true -> (bn c <? 128) = true.
Proof. destruct c; intro H; try discriminate H; reflexivity. Qed.

Lemma is_sign_ascii c : ScannerGrammar.is_sign c = true -> (bn c <? 128) = true.
Proof. destruct c; intro H; try discriminate H; reflexivity. Qed.

Lemma exp_ok_ascii e : exp_ok e = true -> ascii e = true.
Proof.
  destruct e as [|c r]; [reflexivity|]. cbn [exp_ok]. intro H. apply andb_prop in H as [H1 H2].
  cbn [ascii forallb]. rewrite (is_e_ascii c H1). cbn [andb]. destruct r as [|sg r']; [discriminate|].
  destruct (ScannerGrammar.is_sign sg) eqn:Sg.
  - cbn [forallb]. rewrite (is_sign_ascii sg Sg). apply digits1_ascii. exact H2.
  - apply digits1_ascii. exact H2.
Qed.

Theorem num_ok_ascii lit : num_ok lit -> ascii lit = true.
Proof.
  intros (neg & i & f & e & -> & Hn & Hi & Hf & He). rewrite !ascii_app.
  rewrite (int_ok_ascii i Hi), (frac_ok_ascii f Hf), (exp_ok_ascii e He). destruct Hn as [-> | ->]; reflexivity.
Qed.

Lemma utf8_scan_number s lit rest : utf8 s -> scan_number s = Some (lit, rest) -> utf8 lit /\ utf8 rest.
Proof.
  intros U H. apply scan_number_inv in H as [N ->]. pose proof (num_ok_ascii lit N) as A.
  split; [apply utf8_of_ascii; exact A | apply (utf8_drop_ascii lit rest A U)].
Qed.

Lemma parse_value_utf8 : forall fuel,
  (forall d s t rest, utf8 s -> parse_value fuel d s = Some (t, rest) -> tutf8 t /\ utf8 rest) /\
  (forall d s l rest, utf8 s -> parse_elems fuel d s = Some (l, rest) -> Forall tutf8 l /\ utf8 rest) /\
  (forall d s ms rest, utf8 s -> parse_members fuel d s = Some (ms, rest) ->
     Forall (fun kv => utf8 (fst kv) /\ tutf8 (snd kv)) ms /\ utf8 rest).
Proof.
  induction fuel as [|f [IHv [IHe IHm]]]; [repeat split; intros; discriminate|].
  split; [|split].
  - intros d s t rest U H. cbn [parse_value] in H. apply utf8_skip_ws in U.
    destruct (skip_ws s) as [|c r]; [discriminate|].
    assert (Hn : forall x, utf8 x ->
                 match scan_number x with Some (lit, rest0) => Some (TNum lit, rest0) | None => None end = Some (t, rest) ->
                 tutf8 t /\ utf8 rest).
    { intros x Ux E. destruct (scan_number x) as [[lit r0]|] eqn:Sn; [|discriminate]. inversion E; subst.
      exact (utf8_scan_number x lit rest Ux Sn). }
    assert (Hp : forall pat v, ascii pat = true -> tutf8 v -> utf8 r ->
                 match strip_prefix pat r with Some rest0 => Some (v, rest0) | None => None end = Some (t, rest) ->
                 tutf8 t /\ utf8 rest).
    { intros pat v Ap Hv Ur E. destruct (strip_prefix pat r) as [r0|] eqn:Sp; [|discriminate]. inversion E; subst.
      split; [exact Hv | exact (utf8_strip_prefix pat Ap r rest Ur Sp)]. }
    assert (Ha : utf8 r ->
                 match parse_elems f (d - 1) r with Some (l, rest0) => Some (TArr l, rest0) | None => None end = Some (t, rest) ->
                 tutf8 t /\ utf8 rest).
    { intros Ur E. destruct (parse_elems f (d - 1) r) as [[l r0]|] eqn:Pe; [|discriminate]. inversion E; subst.
      destruct (IHe _ _ _ _ Ur Pe) as [P1 P2]. split; [apply tutf8_arr; exact P1 | exact P2]. }
    assert (Ho : utf8 r ->
                 match parse_members f (d - 1) r with Some (l, rest0) => Some (TObj l, rest0) | None => None end = Some (t, rest) ->
                 tutf8 t /\ utf8 rest).
    { intros Ur E. destruct (parse_members f (d - 1) r) as [[l r0]|] eqn:Pe; [|discriminate]. inversion E; subst.
      destruct (IHm _ _ _ _ Ur Pe) as [P1 P2]. split; [apply tutf8_obj; exact P1 | exact P2]. }
    destruct c; cbv beta iota in H; try (match type of H with context [scan_number ?x] => exact (Hn x U H) end);
      pose proof (utf8_tl _ r U eq_refl) as Ur.
    + (* quote *) destruct (scan_string r) as [[b r0]|] eqn:Ss; [|discriminate]. inversion H; subst.
      exact (utf8_scan_string r b rest Ur Ss).
    + (* [ *) destruct (d =? 0) eqn:Z; [discriminate|]. destruct (skip_ws r) as [|c' r'] eqn:Es; [exact (Ha Ur H)|].
      destruct c'; try (exact (Ha Ur H)). inversion H; subst. split; [exact I|].
      apply utf8_skip_ws in Ur. rewrite Es in Ur. apply (utf8_tail x5d rest eq_refl Ur).
    + (* f *) apply (Hp (B "alse") TFalse); [reflexivity | exact I | exact Ur | exact H].
    + (* n *) apply (Hp (B "ull") TNull); [reflexivity | exact I | exact Ur | exact H].
    + (* t *) apply (Hp (B "rue") TTrue); [reflexivity | exact I | exact Ur | exact H].
    + (* { *) destruct (d =? 0) eqn:Z; [discriminate|]. destruct (skip_ws r) as [|c' r'] eqn:Es; [exact (Ho Ur H)|].
      destruct c'; try (exact (Ho Ur H)). inversion H; subst. split; [exact I|].
      apply utf8_skip_ws in Ur. rewrite Es in Ur. apply (utf8_tail x7d rest eq_refl Ur).
  - intros d s l rest U H. rewrite pe_S in H. destruct (parse_value f d s) as [[v rest0]|] eqn:Ev; [|discriminate].
    destruct (IHv _ _ _ _ U Ev) as [Tv U0]. apply utf8_skip_ws in U0.
    destruct (skip_ws rest0) as [|c r]; [discriminate|]. destruct c; try discriminate;
      pose proof (utf8_tl _ r U0 eq_refl) as Ur.
    + destruct (parse_elems f d r) as [[l' rest']|] eqn:Ee; [|discriminate]. inversion H; subst.
      destruct (IHe _ _ _ _ Ur Ee) as [P1 P2]. split; [constructor; assumption | exact P2].
    + inversion H; subst. split; [constructor; [exact Tv | constructor] | exact Ur].
  - intros d s ms rest U H. rewrite pm_S in H. apply utf8_skip_ws in U. destruct (skip_ws s) as [|c r]; [discriminate|].
    destruct c; try discriminate. pose proof (utf8_tl _ r U eq_refl) as Ur.
    destruct (scan_string r) as [[k rest0]|] eqn:Ss; [|discriminate].
    destruct (utf8_scan_string r k rest0 Ur Ss) as [Uk U0]. apply utf8_skip_ws in U0.
    destruct (skip_ws rest0) as [|c1 r1]; [discriminate|]. destruct c1; try discriminate.
    pose proof (utf8_tl _ r1 U0 eq_refl) as U1.
    destruct (parse_value f d r1) as [[v rest1]|] eqn:Ev; [|discriminate]. destruct (IHv _ _ _ _ U1 Ev) as [Tv U2].
    apply utf8_skip_ws in U2.
    destruct (skip_ws rest1) as [|c2 r2]; [discriminate|]. destruct c2; try discriminate;
      pose proof (utf8_tl _ r2 U2 eq_refl) as U3.
    + destruct (parse_members f d r2) as [[ms' rest']|] eqn:Em; [|discriminate]. inversion H; subst.
      destruct (IHm _ _ _ _ U3 Em) as [P1 P2]. split; [constructor; [split; assumption | exact P1] | exact P2].
    + inversion H; subst. split; [constructor; [split; assumption | constructor] | exact U3].
Qed.

(* the input side of the clause: a UTF-8 text that is read is read as a tree spelled in UTF-8 *)
Theorem parse_tutf8 bs t : utf8_text bs -> parse bs = Some t -> tutf8 t.
Proof.
  intros U. unfold parse. destruct (parse_value (parse_fuel bs) max_depth bs) as [[t' rest]|] eqn:E; [|discriminate].
  destruct (skip_ws rest); [|discriminate]. intro H. inversion H; subst.
  exact (proj1 (proj1 (parse_value_utf8 _) _ _ _ _ U E)).
Qed.

(* whatever the text, a complete number literal is ASCII *)
Lemma num_ok_utf8 lit : num_ok lit -> utf8 lit.
Proof. intro H. apply utf8_of_ascii. apply num_ok_ascii. exact H. Qed.

(* ================================================================================================ *)
(* 5. Apply / ApplyIndent (v5)                                                                       *)
(*    nutf8 n : every raw message stored in the node n is a tree spelled in UTF-8.  Nothing is       *)
(*    required of the member names of parsed objects: they are written by the encoder, which writes  *)
(*    UTF-8 for every Go string (utf8_quote).  The invariant is OutputFacts.nall at tutf8: kept by    *)
(*    every operation for arbitrary operations, paths and options (step_all).                        *)
(* ================================================================================================ *)
Definition nutf8 : node -> Prop := nall tutf8.

Theorem tutf8_render esc v : nutf8 v -> tutf8 (render esc v).
Proof.
  induction v as [|t|keys obj IH|ns IH] using node_rect'; intro N.
  - exact I.
  - exact N.
  - apply (nall_doc tutf8) in N. rewrite render_doc. apply tutf8_obj. rewrite Forall_map. apply Forall_forall.
    intros k _. cbn [fst snd]. split; [apply utf8_quote|].
    destruct (aget k obj) as [x|] eqn:E; cbn [option_map]; [|exact I].
    apply aget_In in E. rewrite Forall_forall in IH, N. apply (IH _ E). apply (N _ E).
  - apply (nall_ary tutf8) in N. cbn [render]. apply tutf8_arr. rewrite Forall_map. rewrite Forall_forall in *.
    intros x Hx. apply (IH x Hx). apply (N x Hx).
Qed.

(* what deepCopy stores *)
Corollary tutf8_enc esc v : nutf8 v -> tutf8 (escape_tree esc (render esc v)).
Proof. intro N. apply tutf8_escape_tree. apply tutf8_render. exact N. Qed.

Definition op_utf8 : operation -> Prop := op_all tutf8.
Definition sutf8 (st : state) : Prop := sall tutf8 st.

Theorem step_nutf8 o st op st' : sutf8 st -> op_utf8 op -> step o st op = Ok st' -> sutf8 st'.
Proof.
  apply (step_all tutf8); [exact I | exact tutf8_arr_parts | exact tutf8_obj_parts | intros esc v; apply tutf8_enc].
Qed.

Theorem apply_from_nutf8 o p i st st' :
  sutf8 st -> Forall op_utf8 p -> apply_from o i st p = AOk st' -> nutf8 (root_node (s_root st')).
Proof.
  intros Hs A E. apply (rall_root_node tutf8).
  apply (apply_from_all tutf8 I tutf8_arr_parts tutf8_obj_parts (fun esc v => tutf8_enc esc v) o p i st st' Hs A E).
Qed.

Lemma load_doc_sutf8 o t r : tutf8 t -> load_doc o t = Ok r -> sutf8 (mkState r 0).
Proof.
  intros T L. unfold sutf8, sall. cbn [s_root]. exact (load_doc_all tutf8 tutf8_arr_parts tutf8_obj_parts o t r T L).
Qed.

Theorem result_tree_tutf8 o p t tr : tutf8 t -> Forall op_utf8 p -> result_tree o p t = Some tr -> tutf8 tr.
Proof.
  intros T A. unfold result_tree.
  destruct (load_doc o t) as [r| |] eqn:L; try discriminate.
  destruct (apply_from o 0 (mkState r 0) p) as [st| |] eqn:E; try discriminate.
  destruct (marshal_root o (s_root st)) as [tr0| |] eqn:M; try discriminate.
  intro H; inversion H; subst tr0. rewrite (marshal_root_render _ _ _ M). apply tutf8_render.
  apply (apply_from_nutf8 o p 0%nat (mkState r 0) st); [eapply load_doc_sutf8; eauto | exact A | exact E].
Qed.

(* the values of a patch decoded from a UTF-8 text are spelled in UTF-8 *)
Definition op_utf8s (op : operation) : Prop :=
  Forall (fun kv : bytes * option tjson => match snd kv with Some t => tutf8 t | None => True end) op.

Lemma op_utf8s_utf8 op : op_utf8s op -> op_utf8 op.
Proof.
  unfold op_utf8s, op_utf8, op_all. intros F t E. apply aget_In in E. rewrite Forall_forall in F. exact (F _ E).
Qed.

Lemma operation_of_utf8s ms : tutf8 (TObj ms) -> op_utf8s (operation_of ms).
Proof.
  unfold operation_of, op_utf8s. intro H. apply tutf8_obj_parts in H.
  assert (G : Forall (fun kv : bytes * option tjson => match snd kv with Some t => tutf8 t | None => True end) []) by constructor.
  revert G. generalize (@nil (bytes * option tjson)).
  induction ms as [|[k v] ms IH]; intros acc G; [exact G|].
  inversion H as [|? ? H1 H2]; subst. cbn [snd] in H1.
  apply (IH H2). apply Forall_aset; [exact G|]. intro k'. cbn [snd]. destruct v; auto.
Qed.

Theorem api_decode_utf8 bs p : utf8_text bs -> api_decode bs = Some p -> Forall op_utf8 p.
Proof.
  intro U. unfold api_decode. destruct (parse bs) as [t|] eqn:Pb; [|discriminate].
  pose proof (parse_tutf8 bs t U Pb) as T. destruct t as [| | |lit|body|els|ms]; cbn [decode_patch_t]; try discriminate.
  - intro H. inversion H. constructor.
  - destruct (forallb _ els); [|discriminate].
    destruct (forallb validate_operation _); [|discriminate]. intro H. inversion H; subst. clear H.
    apply tutf8_arr in T. rewrite Forall_map. rewrite Forall_forall in *. intros e He. specialize (T e He).
    apply op_utf8s_utf8. destruct e; try (unfold op_utf8s; constructor). apply operation_of_utf8s. exact T.
Qed.

(* ---- main theorem, trees: the document tree and the patch values spelled in UTF-8 ---- *)
Theorem api_apply_utf8_tree o indent p doc t out :
  parse doc = Some t -> tutf8 t -> Forall op_utf8 p -> utf8_text indent ->
  api_apply o indent p doc = ROut out -> utf8_text out.
Proof.
  intros Pd T A Ui H. apply (api_apply_out o indent p doc t out Pd) in H as [tr [R ->]].
  apply utf8_output; [exact Ui|]. exact (result_tree_tutf8 o p t tr T A R).
Qed.

(* ---- main theorem, bytes: Apply (indent = []) and ApplyIndent.  EVERY options record, EVERY patch
   whose values are spelled in UTF-8 (every patch decoded from a UTF-8 text: api_decode_utf8).
   The indent has to be UTF-8 itself (it is copied verbatim); white space is. ---- *)
Theorem api_apply_utf8 o indent p doc out :
  utf8_text doc -> Forall op_utf8 p -> utf8_text indent ->
  api_apply o indent p doc = ROut out -> utf8_text out.
Proof.
  intros Ud A Ui H. destruct doc as [|b doc].
  - cbn [api_apply] in H. inversion H. constructor.
  - destruct (parse (b :: doc)) as [t|] eqn:Pd.
    + exact (api_apply_utf8_tree o indent p (b :: doc) t out Pd (parse_tutf8 _ t Ud Pd) A Ui H).
    + unfold api_apply in H. rewrite Pd in H. discriminate.
Qed.

Lemma wsb_utf8 ind : wsb ind = true -> utf8_text ind.
Proof.
  intro W. apply utf8_of_ascii. unfold wsb, ascii in *. rewrite forallb_forall in *. intros c Hc. apply is_ws_ascii. apply (W c Hc).
Qed.

Corollary api_apply_utf8_decoded o indent patch p doc out :
  utf8_text doc -> utf8_text patch -> api_decode patch = Some p -> wsb indent = true ->
  api_apply o indent p doc = ROut out -> utf8_text out.
Proof.
  intros Ud Up Dc W H. exact (api_apply_utf8 o indent p doc out Ud (api_decode_utf8 patch p Up Dc) (wsb_utf8 indent W) H).
Qed.

Print Assumptions utf8_quote.
Print Assumptions parse_tutf8.
Print Assumptions api_apply_utf8.
Print Assumptions api_apply_utf8_decoded.

(* ================================================================================================ *)
(* 6. MergePatch / MergeMergePatches (v5)                                                            *)
(* ================================================================================================ *)
Definition Putf (_ : N) (t : tjson) : Prop := tutf8 t.

Lemma Putf_obj d ms : Putf d (TObj ms) -> okT d /\ Forall (fun kv => anykey (unquote (fst kv)) /\ Putf (d - 1) (snd kv)) ms.
Proof.
  unfold Putf, okT, anykey. intro H. split; [exact I|]. apply tutf8_obj_parts in H. revert H. apply Forall_impl.
  intros kv H. split; [exact I | exact H].
Qed.

Lemma nlv_nutf8 n : forall d, nlv Putf anykey okT d n -> nutf8 n.
Proof.
  induction n as [|t|keys obj IH|ns IH] using node_rect'; intros d H.
  - exact I.
  - exact H.
  - apply nlv_doc in H as [_ [_ Ho]]. unfold mlv in Ho. apply (nall_doc tutf8). rewrite Forall_forall in *.
    intros kv Hin. apply (IH kv Hin (d - 1)%N). apply (Ho kv Hin).
  - apply nlv_ary in H as [_ H]. apply (nall_ary tutf8). rewrite Forall_forall in *.
    intros x Hx. apply (IH x Hx (d - 1)%N). apply (H x Hx).
Qed.

Theorem merge_node_nutf8 mm td tp : tutf8 td -> tutf8 tp -> nutf8 (merge_node mm td tp).
Proof. intros Td Tp. apply (nlv_nutf8 _ 0%N). apply (merge_node_lv Putf anykey okT Putf_obj mm 0%N td tp Td Tp). Qed.

Lemma utf8_marshal_node n : nutf8 n -> utf8_text (marshal_node n).
Proof. intro N. unfold marshal_node. apply utf8_print. apply tutf8_render. exact N. Qed.

(* every successful MergePatch (mm = false) / MergeMergePatches (mm = true) call on UTF-8 texts
   returns UTF-8 (a scalar patch is returned verbatim: this is where the patch has to be UTF-8 as a
   whole, not only in its spellings) *)
Theorem api_merge_utf8 mm doc patch out :
  utf8_text doc -> utf8_text patch -> api_merge mm doc patch = MOut out -> utf8_text out.
Proof.
  intros Ud Up. unfold api_merge. destruct (parse doc) as [td|] eqn:Pd; [|discriminate].
  destruct (parse patch) as [tp|] eqn:Pp; [|discriminate]. intro H.
  assert (NN : td <> TNull) by (intro E; subst td; discriminate H).
  destruct (scalar_text tp) eqn:Sc.
  - pose proof (api_merge_scalar mm doc patch td tp Pd Pp NN Sc) as E. unfold api_merge in E. rewrite Pd, Pp in E.
    rewrite E in H. inversion H; subst. exact Up.
  - pose proof (api_merge_node mm doc patch td tp Pd Pp NN Sc) as E. unfold api_merge in E. rewrite Pd, Pp in E.
    rewrite E in H. inversion H; subst. apply utf8_marshal_node.
    apply merge_node_nutf8; [exact (parse_tutf8 doc td Ud Pd) | exact (parse_tutf8 patch tp Up Pp)].
Qed.

Print Assumptions api_merge_utf8.

(* ================================================================================================ *)
(* 7. CreateMergePatch (v5): every string and name is written by the encoder and number literals are *)
(*    ASCII, so the result is UTF-8 whatever bytes the two documents hold                             *)
(* ================================================================================================ *)
Theorem tutf8_encode_sorted j : onum_ok j -> tutf8 (encode_sorted j).
Proof.
  induction j as [|b|lit|s|l IH|ms IH] using ojson_rect'; intro U; try exact I.
  - destruct b; exact I.
  - rewrite encode_sorted_num. apply num_ok_utf8. apply U. left. reflexivity.
  - rewrite encode_sorted_str. apply utf8_quote.
  - rewrite encode_sorted_arr. apply tutf8_arr. rewrite Forall_map. rewrite Forall_forall in *.
    intros x Hin. apply (IH x Hin). apply (onum_ok_arr l x U Hin).
  - rewrite encode_sorted_obj. apply tutf8_obj. rewrite Forall_map. cbn [fst snd].
    rewrite Forall_forall in IH. apply Forall_forall. intros kv Hin. apply In_sort4 in Hin.
    apply in_map_iff in Hin as [kv0 [<- Hin0]]. cbn [fst snd].
    split; [apply utf8_quote | apply (IH _ Hin0); apply (onum_ok_obj ms kv0 U Hin0)].
Qed.

Lemma as_obj_onum_ok t oa : tok t -> as_obj t = Some oa -> onum_ok oa.
Proof.
  intros T. destruct t; cbn [as_obj]; try discriminate; intro E.
  - inversion E; subst. intros lit [].
  - assert (Eo : oa = den (TObj ms)) by congruence. rewrite Eo. exact (onum_ok_den _ T).
Qed.

Lemma create_object_tutf8 x y p : tok y -> create_object x y = Some p -> tutf8 p.
Proof.
  intros T. rewrite create_object_spec. destruct (as_obj x) as [oa|]; [|discriminate].
  destruct (as_obj y) as [ob|] eqn:Eb; [|discriminate]. intro E; inversion E; subst.
  apply tutf8_encode_sorted. apply onum_ok_diff. exact (as_obj_onum_ok y ob T Eb).
Qed.

Lemma create_elems_tutf8 la : forall lb ps, Forall tok lb -> create_elems la lb = Some ps -> Forall tutf8 ps.
Proof.
  induction la as [|x la IH]; intros lb ps T; cbn [create_elems].
  - intro E; inversion E; constructor.
  - destruct lb as [|y lb]; [intro E; inversion E; constructor|].
    inversion T as [|? ? T1 T2]; subst.
    destruct (create_object x y) as [p|] eqn:Ec; [|discriminate].
    destruct (create_elems la lb) as [ps'|] eqn:Ee; [|discriminate]. intro E; inversion E; subst.
    constructor; [eapply create_object_tutf8; eauto | eapply IH; eauto].
Qed.

Theorem api_create_utf8 a b out : api_create a b = MOut out -> utf8_text out.
Proof.
  rewrite api_create_unfold. destruct (parse a) as [ta|] eqn:Pa; [|discriminate].
  destruct (parse b) as [tb|] eqn:Pb; [|discriminate].
  pose proof (proj1 (parse_twf _ _ Pb)) as Tb.
  assert (Obj : match create_object ta tb with Some p => MOut (print true p) | None => MErr MBadDoc end = MOut out ->
                utf8_text out).
  { destruct (create_object ta tb) as [p|] eqn:Ec; [|discriminate]. intro H; inversion H; subst.
    apply utf8_print. exact (create_object_tutf8 ta tb p Tb Ec). }
  destruct ta; try (destruct tb; try exact Obj; discriminate).
  destruct tb; try discriminate.
  destruct (length l =? length l0)%nat; [|discriminate].
  rewrite create_go_spec. destruct (create_elems l l0) as [ps|] eqn:Ee; [|discriminate].
  cbn [app]. intro H; inversion H; subst. apply (utf8_print true (TArr ps)). apply tutf8_arr.
  apply (create_elems_tutf8 l l0 ps); [apply tok_arr; exact Tb | exact Ee].
Qed.

Print Assumptions api_create_utf8.

(* ================================================================================================ *)
(* 8. the legacy root package                                                                        *)
(*    MergePatch / MergeMergePatches: OutputFacts.merge4_node_lv at tutf8.                            *)
(*    Apply / ApplyIndent: V4OutputFacts.v proves its invariant for tokens only; Section RawInv4 is   *)
(*    the same development for an arbitrary predicate on raw messages (the legacy counterpart of     *)
(*    OutputFacts.RawInv), instantiated with tutf8.                                                   *)
(* ================================================================================================ *)
From JP Require Import ImplV4 V4MergeFacts V4ApplySim V4OutputFacts.

Lemma render4_doc_u obj :
  render4 (NDoc [] obj) =
  TObj (map (fun kv => (quote true (fst kv), snd kv)) (V4MergeFacts.sort4 (map (fun kv => (fst kv, render4 (snd kv))) obj))).
Proof. reflexivity. Qed.

Theorem tutf8_render4 n : nutf8 n -> tutf8 (render4 n).
Proof.
  induction n as [|t|keys obj IH|ns IH] using node_rect'; intro N.
  - exact I.
  - exact N.
  - destruct keys as [|k0 keys]; [|exact I].
    apply (nall_doc tutf8) in N. rewrite render4_doc_u. apply tutf8_obj. rewrite Forall_map. cbn [fst snd].
    apply Forall_forall. intros kv Hin. apply In_sort4 in Hin. apply in_map_iff in Hin as [kv0 [<- Hin0]]. cbn [fst snd].
    rewrite Forall_forall in IH, N. split; [apply utf8_quote | apply (IH _ Hin0); apply (N _ Hin0)].
  - apply (nall_ary tutf8) in N. cbn [render4]. apply tutf8_arr. rewrite Forall_map. rewrite Forall_forall in *.
    intros x Hx. apply (IH x Hx). apply (N x Hx).
Qed.

Lemma utf8_marshal4 n : nutf8 n -> utf8_text (marshal4 n).
Proof. intro N. unfold marshal4. apply utf8_print. apply tutf8_render4. exact N. Qed.

Theorem merge4_node_nutf8 mm td tp : tutf8 td -> tutf8 tp -> nutf8 (merge4_node mm td tp).
Proof. intros Td Tp. apply (nlv_nutf8 _ 0%N). apply (merge4_node_lv Putf anykey okT Putf_obj mm 0%N td tp Td Tp). Qed.

(* every successful legacy MergePatch / MergeMergePatches call on UTF-8 texts returns UTF-8 (the
   legacy functions reject a scalar patch, so nothing is returned verbatim) *)
Theorem api_merge4_utf8 mm doc patch out :
  utf8_text doc -> utf8_text patch -> api_merge4 mm doc patch = MOut out -> utf8_text out.
Proof.
  intros Ud Up H. destruct (api_merge4_out_shape mm doc patch out H) as [td [tp [Pd [Pp [NN Sc]]]]].
  rewrite (api_merge4_node mm doc patch td tp Pd Pp NN Sc) in H. inversion H; subst.
  apply utf8_marshal4. apply merge4_node_nutf8; [exact (parse_tutf8 doc td Ud Pd) | exact (parse_tutf8 patch tp Up Pp)].
Qed.

Print Assumptions api_merge4_utf8.

Section RawInv4.
  Variable P : tjson -> Prop.
  Hypothesis P_arr : forall l, P (TArr l) -> Forall P l.
  Hypothesis P_obj : forall ms, P (TObj ms) -> Forall (fun kv => P (snd kv)) ms.
  Hypothesis P_copy4 : forall v, nall P v -> P (escape_tree true (render4 v)).

  Local Notation nP := (nall P).

  Definition call4g (c : con4) : Prop := nP (node_of_con4 c).
  Definition sall4 (st : state4) : Prop := call4g (r4 st).

  Lemma call4g_doc obj : call4g (DDoc obj) <-> Forall (fun kv => nP (snd kv)) obj.
  Proof. unfold call4g. cbn [node_of_con4]. apply (nall_doc P). Qed.

  Lemma call4g_ary ns : call4g (DAry ns) <-> Forall nP ns.
  Proof. unfold call4g. cbn [node_of_con4]. apply (nall_ary P). Qed.

  Lemma call4g_nil : call4g DDocNil.
  Proof. unfold call4g. cbn [node_of_con4]. apply (nall_doc P). constructor. Qed.

  Lemma nall_obj_of ms : P (TObj ms) -> Forall (fun kv => nP (snd kv)) (obj_of ms).
  Proof. intro H. apply (nall_doc P (fst (doc_of ms))). exact (nall_doc_of P P_obj ms H). Qed.

  Lemma nall_children l : P (TArr l) -> Forall nP (map child l).
  Proof. exact (Forall_nall_children P P_arr l). Qed.

  Lemma into_con4_allg n ch : nP n -> into_con4 n = Some ch -> call4g ch.
  Proof.
    intros N H. destruct n as [|t|keys obj|ns]; cbn [into_con4] in H; try discriminate.
    - destruct t; try discriminate; inversion H; subst.
      + apply call4g_ary. apply nall_children. exact N.
      + apply call4g_doc. apply nall_obj_of. exact N.
    - destruct keys as [|k0 keys]; inversion H; subst; [apply call4g_doc; apply (nall_doc P []); exact N | apply call4g_nil].
    - inversion H; subst. apply call4g_ary. apply (nall_ary P). exact N.
  Qed.

  Lemma con4_get_allg g c key n : call4g c -> con4_get g c key = Ok n -> nP n.
  Proof.
    intros C H. destruct c as [obj| |ns]; cbn [con4_get] in H.
    - inversion H; subst. destruct (aget key obj) as [v|] eqn:E; [|exact I].
      apply call4g_doc in C. apply aget_In in E. rewrite Forall_forall in C. apply (C _ E).
    - inversion H; subst. exact I.
    - destruct (resolve_idx_get (o5 g) (zlen ns) key) as [i| |]; inversion H; subst.
      apply (Forall_nth_nall P). apply call4g_ary. exact C.
  Qed.

  Lemma con4_put_allg g c key ch : call4g c -> nP ch -> call4g (con4_put g c key ch).
  Proof.
    intros C Hch. destruct c as [obj| |ns]; cbn [con4_put].
    - apply call4g_doc. apply call4g_doc in C. apply Forall_aset; auto.
    - exact C.
    - destruct (resolve_idx_get (o5 g) (zlen ns) key) as [i| |]; try exact C.
      apply call4g_ary. apply call4g_ary in C. now apply Totality.Forall_set_at.
  Qed.

  Lemma con4_add_allg g c key v c' : call4g c -> nP v -> con4_add g c key v = Ok c' -> call4g c'.
  Proof.
    intros C Hv H. destruct c as [obj| |ns]; cbn [con4_add] in H; try discriminate.
    - inversion H; subst. apply call4g_doc. apply call4g_doc in C. apply Forall_aset; auto.
    - destruct (ary_add (o5 g) ns key v) as [ns'| |] eqn:E; inversion H; subst.
      apply call4g_ary. apply call4g_ary in C. eapply ary_add_Forall; eauto.
  Qed.

  Lemma con4_set_allg g c key v c' : call4g c -> nP v -> con4_set g c key v = Ok c' -> call4g c'.
  Proof.
    intros C Hv H. destruct c as [obj| |ns]; cbn [con4_set] in H; try discriminate.
    - inversion H; subst. apply call4g_doc. apply call4g_doc in C. apply Forall_aset; auto.
    - destruct (ary_set (o5 g) ns key v) as [ns'| |] eqn:E; inversion H; subst.
      apply call4g_ary. apply call4g_ary in C. eapply ary_set_Forall; eauto.
  Qed.

  Lemma con4_remove_allg g c key c' : call4g c -> con4_remove g c key = Ok c' -> call4g c'.
  Proof.
    intros C H. destruct c as [obj| |ns]; cbn [con4_remove] in H; try discriminate.
    - destruct (amem key obj); inversion H; subst. apply call4g_doc. apply call4g_doc in C. now apply Forall_adel.
    - destruct (ary_remove (o5 g) ns key) as [ns'| |] eqn:E; inversion H; subst.
      apply call4g_ary. apply call4g_ary in C. eapply ary_remove_Forall; eauto.
  Qed.

  Lemma walk4_allg {A} (Q : A -> Prop) g parts : forall c (f : con4 -> A * con4),
    (forall c0, call4g c0 -> Q (fst (f c0)) /\ call4g (snd (f c0))) ->
    call4g c ->
    call4g (snd (walk4 g parts c f)) /\ (forall a, fst (walk4 g parts c f) = Some a -> Q a).
  Proof.
    induction parts as [|p rest IH]; intros c f Hf C; cbn [walk4].
    - destruct (Hf c C) as [H1 H2]. destruct (f c) as [a c']. cbn [fst snd] in *. split; auto.
      intros a0 E. inversion E; subst; auto.
    - destruct (con4_get g c (decode_token p)) as [next| |] eqn:G; try (cbn [fst snd]; split; [exact C | discriminate]).
      destruct (into_con4 next) as [ch|] eqn:IC; [|cbn [fst snd]; split; [exact C | discriminate]].
      assert (Cch : call4g ch) by (apply (into_con4_allg next ch); [exact (con4_get_allg g c (decode_token p) next C G) | exact IC]).
      destruct (IH ch f Hf Cch) as [H1 H2]. destruct (walk4 g rest ch f) as [r ch']. cbn [fst snd] in *. split; auto.
      apply con4_put_allg; auto.
  Qed.

  Lemma find4_allg {A} (Q : A -> Prop) g c path (f : con4 -> bytes -> A * con4) :
    (forall c0 key, call4g c0 -> Q (fst (f c0 key)) /\ call4g (snd (f c0 key))) ->
    call4g c ->
    call4g (snd (find4 g c path f)) /\ (forall a, fst (find4 g c path f) = Some a -> Q a).
  Proof.
    intros Hf C. unfold find4. destruct (split_path path) as [[parts key]|].
    - apply (walk4_allg Q g parts c (fun c' => f c' key) (fun c0 => Hf c0 key) C).
    - cbn [fst snd]. split; [exact C | discriminate].
  Qed.

  Lemma upd_allg {A} (r : res con4) c (a : A) :
    call4g c -> (forall c', r = Ok c' -> call4g c') -> call4g (snd (upd r c a)).
  Proof. intros C H. destruct r as [c'| |]; cbn [upd snd]; auto. Qed.

  Lemma add_fn4_allg g v c0 key : nP v -> call4g c0 -> call4g (snd (add_fn4 g v c0 key)).
  Proof. intros Hv C. unfold add_fn4. apply upd_allg; [exact C|]. intros c' E. exact (con4_add_allg g c0 key v c' C Hv E). Qed.

  Lemma remove_fn4_allg g c0 key : call4g c0 -> call4g (snd (remove_fn4 g c0 key)).
  Proof. intros C. unfold remove_fn4. apply upd_allg; [exact C|]. intros c' E. exact (con4_remove_allg g c0 key c' C E). Qed.

  Lemma replace_fn4_allg g v c0 key : nP v -> call4g c0 -> call4g (snd (replace_fn4 g v c0 key)).
  Proof.
    intros Hv C. unfold replace_fn4. destruct (con4_get g c0 key) as [x|e|]; try exact C.
    apply upd_allg; [exact C|]. intros c' E. exact (con4_set_allg g c0 key v c' C Hv E).
  Qed.

  Lemma move_src_fn4_allg g c0 key :
    call4g c0 -> (forall v, fst (move_src_fn4 g c0 key) = Ok v -> nP v) /\ call4g (snd (move_src_fn4 g c0 key)).
  Proof.
    intros C. unfold move_src_fn4. destruct (con4_get g c0 key) as [x|e|] eqn:G; try (split; [discriminate | exact C]).
    pose proof (con4_get_allg g c0 key x C G) as Hx.
    destruct (con4_remove g c0 key) as [c'|e|] eqn:E; cbn [upd fst snd]; try (split; [discriminate | exact C]).
    split; [intros v Ev; inversion Ev; subst; exact Hx | exact (con4_remove_allg g c0 key c' C E)].
  Qed.

  Lemma get_fn4_allg g c0 key :
    call4g c0 -> (forall v, fst (get_fn4 g c0 key) = Ok v -> nP v) /\ call4g (snd (get_fn4 g c0 key)).
  Proof. intros C. unfold get_fn4. cbn [fst snd]. split; [|exact C]. intros v E. exact (con4_get_allg g c0 key v C E). Qed.

  Lemma test_fn4_allg g op c0 key : call4g c0 -> call4g (snd (test_fn4 g op c0 key)).
  Proof.
    intros C. unfold test_fn4. destruct (con4_get g c0 key) as [x|e|]; try exact C.
    destruct (is_null4 x); [exact C|]. destruct (op_value4 op); exact C.
  Qed.

  Lemma opv4_allg op : op_all P op -> nP (opv4 op).
  Proof.
    intro A. unfold opv4, op_value4. destruct (aget (B "value") op) as [[t|]|] eqn:E; try exact I.
    - apply (nall_raw P). apply A. exact E.
    - apply (nall_raw P). exact (P_copy4 NNil I).
  Qed.

  Lemma nall_deep_copy4 g v : nP v -> nP (fst (deep_copy4 g v)).
  Proof.
    intro N. destruct (deep_copy4_cases g v) as [E|[E|E]]; rewrite E.
    - exact I.
    - apply (nall_doc P [B "null"]). constructor.
    - apply (nall_raw P); apply P_copy4; exact N.
  Qed.

  Theorem step4_allg g st op st' : sall4 st -> op_all P op -> step4 g st op = Ok st' -> sall4 st'.
  Proof.
    intros S A. unfold sall4 in *. pose proof (opv4_allg op A) as Hv. destruct (op_kind op) eqn:K.
    - (* add *) rewrite (step4_add g st op K). destruct (op_str op (B "path")) as [path| |]; try discriminate.
      intro H. unfold keep_acc in H. rewrite (lift4_state _ _ _ _ H).
      apply (find4_allg (fun _ => True) g (r4 st) path (add_fn4 g (opv4 op))); [|exact S].
      intros c0 key C0. split; [exact I | apply add_fn4_allg; assumption].
    - (* remove *) rewrite (step4_remove g st op K). destruct (op_str op (B "path")) as [path| |]; try discriminate.
      intro H. unfold keep_acc in H. rewrite (lift4_state _ _ _ _ H).
      apply (find4_allg (fun _ => True) g (r4 st) path (remove_fn4 g)); [|exact S].
      intros c0 key C0. split; [exact I | apply remove_fn4_allg; assumption].
    - (* replace *) rewrite (step4_replace g st op K). destruct (op_str op (B "path")) as [[|b path]| |]; try discriminate.
      + unfold op_value4. destruct (aget (B "value") op) as [[t|]|] eqn:E; try discriminate.
        pose proof (A t E) as Pt. destruct t; try discriminate; intro H; inversion H; subst; cbn [r4].
        * apply call4g_ary. apply nall_children. exact Pt.
        * apply call4g_doc. apply nall_obj_of. exact Pt.
      + intro H. unfold keep_acc in H. rewrite (lift4_state _ _ _ _ H).
        apply (find4_allg (fun _ => True) g (r4 st) (b :: path) (replace_fn4 g (opv4 op))); [|exact S].
        intros c0 key C0. split; [exact I | apply replace_fn4_allg; assumption].
    - (* move *) rewrite (step4_move g st op K). destruct (op_str op (B "from")) as [from| |]; try discriminate.
      destruct (find4_allg (fun r : res node => forall v, r = Ok v -> nP v) g (r4 st) from (move_src_fn4 g)) as [C1 Q1];
        [intros c0 key C0; apply move_src_fn4_allg; exact C0 | exact S |].
      destruct (find4 g (r4 st) from (move_src_fn4 g)) as [[[v|e|]|] c1]; cbn [lift4 fst snd] in *; try discriminate.
      pose proof (Q1 (Ok v) eq_refl v eq_refl) as Hmv.
      destruct (op_str op (B "path")) as [path| |]; try discriminate.
      intro H. unfold keep_acc in H. rewrite (lift4_state _ _ _ _ H).
      apply (find4_allg (fun _ => True) g c1 path (add_fn4 g v)); [|exact C1].
      intros c0 key C0. split; [exact I | apply add_fn4_allg; assumption].
    - (* copy *) rewrite (step4_copy g st op K). destruct (op_str op (B "from")) as [from| |]; try discriminate.
      destruct (find4_allg (fun r : res node => forall v, r = Ok v -> nP v) g (r4 st) from (get_fn4 g)) as [C1 _];
        [intros c0 key C0; apply get_fn4_allg; exact C0 | exact S |].
      destruct (find4 g (r4 st) from (get_fn4 g)) as [[[v0|e|]|] c1]; cbn [lift4 fst snd] in *; try discriminate.
      destruct (op_str op (B "path")) as [path| |]; try discriminate.
      destruct (find4_allg (fun _ : unit => True) g c1 path unit_fn4) as [C2 _];
        [intros c0 key C0; split; [exact I | exact C0] | exact C1 |].
      destruct (find4 g c1 path unit_fn4) as [[u|] c2]; cbn [fst snd] in *; try discriminate.
      destruct (find4_allg (fun r : res node => forall v, r = Ok v -> nP v) g c2 from (get_fn4 g)) as [_ Q3];
        [intros c0 key C0; apply get_fn4_allg; exact C0 | exact C2 |].
      destruct (find4 g c2 from (get_fn4 g)) as [[[v|e|]|] c3]; cbn [lift4 fst snd] in *; try discriminate.
      pose proof (Q3 (Ok v) eq_refl v eq_refl) as Hsrc.
      pose proof (nall_deep_copy4 g v Hsrc) as Hcp. destruct (deep_copy4 g v) as [cp sz]. cbn [fst] in Hcp.
      destruct ((0 <? g_limit g)%Z && (g_limit g <? acc4 st + sz)%Z)%bool; [discriminate|].
      intro H. rewrite (lift4_state _ _ _ _ H).
      apply (find4_allg (fun _ => True) g c2 path (add_fn4 g cp)); [|exact C2].
      intros c0 key C0. split; [exact I | apply add_fn4_allg; assumption].
    - (* test *) rewrite (step4_test g st op K). destruct (op_str op (B "path")) as [[|b path]| |]; try discriminate.
      + destruct (node_equal4 _ _ && _)%bool; [|discriminate]. intro H; inversion H; subst. exact S.
      + intro H. unfold keep_acc in H. rewrite (lift4_state _ _ _ _ H).
        apply (find4_allg (fun _ => True) g (r4 st) (b :: path) (test_fn4 g op)); [|exact S].
        intros c0 key C0. split; [exact I | apply test_fn4_allg; assumption].
    - rewrite (step4_unknown g st op K). discriminate.
  Qed.

  Theorem apply4_from_allg g : forall p i st st' j,
    sall4 st -> Forall (op_all P) p -> apply4_from g i st p = (Ok st', j) -> sall4 st'.
  Proof.
    induction p as [|op p IH]; intros i st st' j Hs A; cbn [apply4_from].
    - intro H; inversion H; subst; exact Hs.
    - inversion A as [|? ? A1 A2]; subst.
      destruct (step4 g st op) as [st1|e|] eqn:E; try discriminate.
      apply (IH (S i) st1 st' j (step4_allg g st op st1 Hs A1 E) A2).
  Qed.

  Lemma start4_allg t c : P t -> start4 t = Some c -> call4g c.
  Proof.
    intros T H. destruct t; cbn [start4] in H; try discriminate; inversion H; subst.
    - apply call4g_nil.
    - apply call4g_ary. apply nall_children. exact T.
    - apply call4g_doc. apply nall_obj_of. exact T.
  Qed.
End RawInv4.

Lemma tutf8_enc4 v : nutf8 v -> tutf8 (escape_tree true (render4 v)).
Proof. intro N. apply tutf8_escape_tree. apply tutf8_render4. exact N. Qed.

Theorem step4_nutf8 g st op st' : sall4 tutf8 st -> op_utf8 op -> step4 g st op = Ok st' -> sall4 tutf8 st'.
Proof. exact (step4_allg tutf8 tutf8_arr_parts tutf8_obj_parts tutf8_enc4 g st op st'). Qed.

Lemma tree4_tutf8 c : call4g tutf8 c -> tutf8 (tree4 c).
Proof. intro C. destruct c as [obj| |ns]; cbn [tree4]; [apply tutf8_render4; exact C | exact I | apply tutf8_render4; exact C]. Qed.

Theorem result4_tree_tutf8 g p t tr : tutf8 t -> Forall op_utf8 p -> result4_tree g p t = Some tr -> tutf8 tr.
Proof.
  intros T A. unfold result4_tree. destruct (start4 t) as [c|] eqn:St; [|discriminate].
  destruct (apply4_from g 0 (mkState4 c 0) p) as [[st|e|] i] eqn:E; try discriminate.
  intro H; inversion H; subst. apply tree4_tutf8.
  apply (apply4_from_allg tutf8 tutf8_arr_parts tutf8_obj_parts tutf8_enc4 g p 0%nat (mkState4 c 0) st i);
    [exact (start4_allg tutf8 tutf8_arr_parts tutf8_obj_parts t c T St) | exact A | exact E].
Qed.

Theorem api_decode4_utf8 bs p : utf8_text bs -> api_decode4 bs = Some p -> Forall op_utf8 p.
Proof.
  intro U. unfold api_decode4. destruct (parse bs) as [t|] eqn:Pb; [|discriminate].
  pose proof (parse_tutf8 bs t U Pb) as T. destruct t as [| | |lit|body|els|ms]; cbn [decode4_t]; try discriminate.
  - intro H. inversion H. constructor.
  - destruct (forallb _ els); [|discriminate]. intro H. inversion H; subst. clear H.
    apply tutf8_arr in T. rewrite Forall_map. rewrite Forall_forall in *. intros e He. specialize (T e He).
    apply op_utf8s_utf8. destruct e; try (unfold op_utf8s; constructor). apply operation_of_utf8s. exact T.
Qed.

Theorem api_apply4_utf8_tree g indent p doc t out :
  parse doc = Some t -> tutf8 t -> Forall op_utf8 p -> utf8_text indent ->
  api_apply4 g indent p doc = Out4 out -> utf8_text out.
Proof.
  intros Pd T A Ui H. apply (api_apply4_out g indent p doc t out Pd) in H as [tr [R ->]].
  rewrite (output4_is_output g). apply utf8_output; [exact Ui|].
  exact (result4_tree_tutf8 g p t tr T A R).
Qed.

(* the legacy Apply (indent = []) / ApplyIndent: every setting of the package variables *)
Theorem api_apply4_utf8 g indent p doc out :
  utf8_text doc -> Forall op_utf8 p -> utf8_text indent ->
  api_apply4 g indent p doc = Out4 out -> utf8_text out.
Proof.
  intros Ud A Ui H. destruct doc as [|b doc].
  - cbn [api_apply4] in H. inversion H. constructor.
  - destruct (parse (b :: doc)) as [t|] eqn:Pd.
    + exact (api_apply4_utf8_tree g indent p (b :: doc) t out Pd (parse_tutf8 _ t Ud Pd) A Ui H).
    + unfold api_apply4 in H. rewrite Pd in H. discriminate.
Qed.

Corollary api_apply4_utf8_decoded g indent patch p doc out :
  utf8_text doc -> utf8_text patch -> api_decode4 patch = Some p -> wsb indent = true ->
  api_apply4 g indent p doc = Out4 out -> utf8_text out.
Proof.
  intros Ud Up Dc W H. exact (api_apply4_utf8 g indent p doc out Ud (api_decode4_utf8 patch p Up Dc) (wsb_utf8 indent W) H).
Qed.

Print Assumptions api_apply4_utf8.
Print Assumptions api_apply4_utf8_decoded.

(* ================================================================================================ *)
(* 9. examples                                                                                       *)
(* ================================================================================================ *)
(* a document and a patch with two-, three- and four-byte sequences (U+00E9, U+2028, U+1F600, U+20AC) *)
Definition ex_u_doc : bytes :=
  B "{""k"":""" ++ [xc3; xa9; xe2; x80; xa8; xf0; x9f; x98; x80] ++ B """,""n"":[1,2]}".
Definition ex_u_patch : bytes :=
  B "[{""op"":""add"",""path"":""/n/-"",""value"":""" ++ [xe2; x82; xac] ++
  B """},{""op"":""copy"",""from"":""/k"",""path"":""/c""},{""op"":""move"",""from"":""/n"",""path"":""/" ++ [xc3; xa9] ++ B """}]".

(* non-vacuity: the hypotheses of api_apply_utf8_decoded hold, Apply and ApplyIndent succeed with
   EscapeHTML on and off, the results are not ASCII (the sequences are written raw, U+2028 escaped
   when the switch is on) and they are UTF-8 — by the theorem, and again by computation *)
Example ex_utf8_nonvacuous :
  utf8_text ex_u_doc /\ utf8_text ex_u_patch /\
  match api_decode ex_u_patch with
  | Some p =>
      match api_apply (ex_opts true) [] p ex_u_doc, api_apply (ex_opts false) (B "  ") p ex_u_doc with
      | ROut a, ROut b =>
          utf8_text a /\ utf8_text b /\ utf8b a = true /\ utf8b b = true /\ ascii a = false /\ ascii b = false /\
          parse a <> None /\ option_map den (parse a) = option_map den (parse b)
      | _, _ => False
      end
  | None => False
  end.
Proof.
  assert (Ud : utf8_text ex_u_doc) by (apply utf8b_iff; vm_compute; reflexivity).
  assert (Up : utf8_text ex_u_patch) by (apply utf8b_iff; vm_compute; reflexivity).
  split; [exact Ud|]. split; [exact Up|].
  destruct (api_decode ex_u_patch) as [p|] eqn:Dc; [|vm_compute in Dc; discriminate Dc].
  pose proof (fun o ind W out => api_apply_utf8_decoded o ind ex_u_patch p ex_u_doc out Ud Up Dc W) as Thm.
  vm_compute in Dc. injection Dc as <-.
  destruct (api_apply (ex_opts true) [] _ ex_u_doc) as [a| |] eqn:Ea; [|vm_compute in Ea; discriminate Ea..].
  destruct (api_apply (ex_opts false) (B "  ") _ ex_u_doc) as [b| |] eqn:Eb; [|vm_compute in Eb; discriminate Eb..].
  split; [exact (Thm (ex_opts true) [] eq_refl a Ea)|]. split; [exact (Thm (ex_opts false) (B "  ") eq_refl b Eb)|].
  vm_compute in Ea, Eb. injection Ea as <-. injection Eb as <-.
  vm_compute. repeat split; try reflexivity; discriminate.
Qed.

(* the hypothesis on the document is needed: the reader accepts any byte >= 0x80 inside a string, and
   Apply writes a stored string back verbatim *)
Definition ex_bad_doc : bytes := B "{""a"":""" ++ [xff] ++ B """}".

Example ex_utf8_input_needed :
  parse ex_bad_doc <> None /\ ~ utf8_text ex_bad_doc /\
  match api_apply (ex_opts true) [] [] ex_bad_doc with
  | ROut out => out = ex_bad_doc /\ ~ utf8_text out
  | _ => False
  end.
Proof.
  split; [vm_compute; discriminate|]. split; [apply utf8b_false; vm_compute; reflexivity|].
  vm_compute. split; [reflexivity|]. apply utf8b_false. vm_compute. reflexivity.
Qed.

(* ... and so is the hypothesis on the patch values: an added value is written back verbatim *)
Example ex_utf8_patch_needed :
  match api_decode (B "[{""op"":""add"",""path"":""/b"",""value"":""" ++ [xc0; xaf] ++ B """}]") with
  | Some p =>
      match api_apply (ex_opts true) [] p (B "{}") with
      | ROut out => ~ utf8_text out
      | _ => False
      end
  | None => False
  end.
Proof. vm_compute. apply utf8b_false. vm_compute. reflexivity. Qed.

(* a member NAME that is not UTF-8 is repaired on the way: names of a parsed object are decoded
   (U+FFFD, EF BF BD, for the ill-formed byte) and written again by the encoder *)
Example ex_utf8_name_repaired :
  match api_decode (B "[{""op"":""add"",""path"":""/b"",""value"":1}]") with
  | Some p =>
      match api_apply (ex_opts true) [] p (B "{""" ++ [xff] ++ B """:1}") with
      | ROut out => utf8b out = true /\ out = B "{""" ++ [xef; xbf; xbd] ++ B """:1,""b"":1}"
      | _ => False
      end
  | None => False
  end.
Proof. vm_compute. split; reflexivity. Qed.

(* the indent is copied verbatim: it has to be UTF-8 *)
Example ex_utf8_indent_needed :
  match api_apply (ex_opts true) [xff] [] (B "{""a"":1}") with
  | ROut out => ~ utf8_text out
  | _ => False
  end.
Proof. vm_compute. apply utf8b_false. vm_compute. reflexivity. Qed.

(* MergePatch: the same two ways for an ill-formed byte to get through: a stored string of the
   document, and a scalar patch returned verbatim *)
Example ex_utf8_merge_needed :
  match api_merge false ex_bad_doc (B "{""b"":1}"), api_merge false (B "{}") (B """" ++ [xff] ++ B """") with
  | MOut o1, MOut o2 => ~ utf8_text o1 /\ ~ utf8_text o2
  | _, _ => False
  end.
Proof. vm_compute. split; apply utf8b_false; vm_compute; reflexivity. Qed.

Example ex_utf8_merge_nonvacuous :
  match api_merge false ex_u_doc (B "{""n"":null,""" ++ [xc3; xa9] ++ B """:{""x"":null,""y"":""" ++ [xe2; x82; xac] ++ B """}}") with
  | MOut out => utf8b out = true /\ ascii out = false
  | _ => False
  end.
Proof. vm_compute. split; reflexivity. Qed.

(* CreateMergePatch needs no hypothesis: ill-formed bytes in strings and names are decoded to U+FFFD
   and written by the encoder *)
Example ex_utf8_create_any_input :
  match api_create (B "{""a"":1}") (B "{""a"":""" ++ [xff; xc3] ++ B """,""" ++ [xe2; x80] ++ B """:2}") with
  | MOut out => utf8b out = true /\ ascii out = false
  | _ => False
  end.
Proof. vm_compute. split; reflexivity. Qed.

(* the encoder on an arbitrary Go string *)
Example ex_utf8_quote_invalid :
  utf8b (quote false [xff; x41; xe2; x80; xc3; xa9; xed; xa0; x80]) = true /\ utf8b (quote true [xc0; x3c; xf4; x90; x80; x80]) = true.
Proof. vm_compute. split; reflexivity. Qed.

(* the legacy package on the same inputs: Apply / ApplyIndent and MergePatch succeed, the results are
   UTF-8 and not ASCII; a stored string with an ill-formed byte gets through as in v5 *)
Example ex_utf8_legacy :
  match api_decode4 ex_u_patch with
  | Some p =>
      match api_apply4 (mkOpts4 false 0 None) [x09] p ex_u_doc, api_apply4 (mkOpts4 false 0 None) [] [] ex_bad_doc,
            api_merge4 false ex_u_doc (B "{""n"":null,""" ++ [xc3; xa9] ++ B """:{""y"":""" ++ [xe2; x82; xac] ++ B """}}") with
      | Out4 a, Out4 b, MOut c =>
          utf8b a = true /\ ascii a = false /\ ~ utf8_text b /\ utf8b c = true /\ ascii c = false
      | _, _, _ => False
      end
  | None => False
  end.
Proof. vm_compute. repeat split; try reflexivity. apply utf8b_false. vm_compute. reflexivity. Qed.

Print Assumptions utf8b_iff.
Print Assumptions utf8_app.
Print Assumptions utf8_print.
Print Assumptions utf8_pp.
Print Assumptions ex_utf8_nonvacuous.
Print Assumptions ex_utf8_input_needed.
