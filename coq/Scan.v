(* Scan.v — the loops of scanner.go / indent.go that drive the (generated) scanner: checkValid /
   Valid, compact (Compact, HTMLEscape's caller path in the encoder) and Indent.  Hand-written from
   the Go source, tied to it by the correspondence (streams valid, valid-exhaustive).  No proofs. *)
From JP Require Import Bytes.
From JP.gen Require Import ScannerGen.

Definition scanner0 : scanner := scanner_reset (mkScanner St_stateBeginValue false [] false).

(* checkValid: for _, c := range data { if scan.step(scan, c) == scanError { return err } };
   if scan.eof() == scanError { return err } *)
Fixpoint check_loop (s : scanner) (bs : bytes) : option scanner :=
  match bs with
  | [] => Some s
  | c :: r =>
      let (s', op) := step_fn (step s) s c in
      if (op =? scanError)%Z then None else check_loop s' r
  end.

Definition valid_gen (bs : bytes) : bool :=
  match check_loop scanner0 bs with
  | None => false
  | Some s => negb (snd (scanner_eof s) =? scanError)%Z
  end.

(* compact(dst, src, escape): bytes for which the scanner answers >= scanSkipSpace are dropped
   (insignificant space), and with escape the bytes < > & and U+2028/9 are replaced.
   out is accumulated in reverse. *)
Definition hex_lo (c : byte) : byte := hexdigit (bn c mod 16).
Definition hex_hi (c : byte) : byte := hexdigit (bn c / 16).

Fixpoint compact_loop (esc : bool) (s : scanner) (bs : bytes) (skip : nat) (out : bytes) : option (scanner * bytes) :=
  match bs with
  | [] => Some (s, out)
  | c :: r =>
      let (s', v) := step_fn (step s) s c in
      if (v =? scanError)%Z then None else
      match skip with
      | S k => compact_loop esc s' r k out          (* second and third byte of an escaped U+2028/9 *)
      | O =>
          if esc && (Byte.eqb c x3c || Byte.eqb c x3e || Byte.eqb c x26) then
            compact_loop esc s' r 0 (hex_lo c :: hex_hi c :: x30 :: x30 :: x75 :: x5c :: out)
          else if esc && Byte.eqb c xe2 &&
                  match r with
                  | x80 :: xa8 :: _ | x80 :: xa9 :: _ => true
                  | _ => false
                  end then
            let d := match r with _ :: d :: _ => d | _ => x00 end in
            compact_loop esc s' r 2 (hex_lo d :: x32 :: x30 :: x32 :: x75 :: x5c :: out)
          else if (scanSkipSpace <=? v)%Z then compact_loop esc s' r 0 out
          else compact_loop esc s' r 0 (c :: out)
      end
  end.

Definition compact_go (esc : bool) (bs : bytes) : option bytes :=
  match compact_loop esc scanner0 bs 0 [] with
  | None => None
  | Some (s, out) => if (snd (scanner_eof s) =? scanError)%Z then None else Some (rev out)
  end.

(* Indent(dst, src, "", indent) *)
Fixpoint rep_bytes (n : nat) (s : bytes) : bytes := match n with O => [] | S k => s ++ rep_bytes k s end.
Definition newline_rev (indent : bytes) (depth : nat) (out : bytes) : bytes :=
  rev (x0a :: rep_bytes depth indent) ++ out.

Fixpoint indent_loop (indent : bytes) (s : scanner) (bs : bytes) (need : bool) (depth : nat) (out : bytes)
  : option (scanner * bytes) :=
  match bs with
  | [] => Some (s, out)
  | c :: r =>
      let (s', v) := step_fn (step s) s c in
      if (v =? scanSkipSpace)%Z then indent_loop indent s' r need depth out
      else if (v =? scanError)%Z then None
      else
        let '(need, depth, out) :=
          if need && negb (v =? scanEndObject)%Z && negb (v =? scanEndArray)%Z
          then (false, S depth, newline_rev indent (S depth) out)
          else (need, depth, out) in
        if (v =? scanContinue)%Z then indent_loop indent s' r need depth (c :: out)
        else
          match c with
          | x7b | x5b => indent_loop indent s' r true depth (c :: out)
          | x2c => indent_loop indent s' r need depth (newline_rev indent depth (c :: out))
          | x3a => indent_loop indent s' r need depth (x20 :: c :: out)
          | x7d | x5d =>
              if need then indent_loop indent s' r false depth (c :: out)
              else indent_loop indent s' r need (pred depth) (c :: newline_rev indent (pred depth) out)
          | _ => indent_loop indent s' r need depth (c :: out)
          end
  end.

Definition indent_go (indent : bytes) (bs : bytes) : option bytes :=
  match indent_loop indent scanner0 bs false 0 [] with
  | None => None
  | Some (s, out) => if (snd (scanner_eof s) =? scanError)%Z then None else Some (rev out)
  end.
