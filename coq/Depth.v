(* Depth.v — nesting depth of decoded values, and the side condition under which copy behaves like
   RFC 6902: deepCopy (v5, fix dc05ac4) refuses a value whose re-encoding nests deeper than the
   decoder's limit (Text.max_depth = 10000 levels).

   odepth            : nesting depth of a decoded value (same shape as Text.tdepth on spelled trees)
   den_depth         : decoding keeps the depth (texts without duplicate names)
   render_depth      : the encoding of a well-formed node is as deep as the value it denotes
   copy_too_deep_val : hence ImplV5.copy_too_deep is a statement about the VALUE copied
   copy_fits         : the operation is not a copy whose source (in the reference) is too deep
   copies_fit        : copy_fits at every operation the reference run reaches *)
From Coq Require Import Lia.
From JP Require Import Bytes Json Text Strings Den Pointer Rfc6902 ImplV5 DecodeFacts JsonFacts Abs StrInv.
From JP Require Export Domain.

Local Notation ROk := Rfc6902.Ok.
Local Notation RFail := Rfc6902.Fail.

(* ---- the maximum over a list ---- *)
Definition maxd {A} (f : A -> N) (l : list A) : N := fold_right (fun x a => N.max (f x) a) 0%N l.

Lemma maxd_map {A B} (f : B -> N) (g : A -> B) l : maxd f (map g l) = maxd (fun x => f (g x)) l.
Proof. induction l as [|x l IH]; simpl; [reflexivity | now rewrite IH]. Qed.

Lemma maxd_ext_in {A} (f g : A -> N) l : (forall x, In x l -> f x = g x) -> maxd f l = maxd g l.
Proof.
  induction l as [|x l IH]; intro H; simpl; [reflexivity|].
  rewrite (H x (or_introl eq_refl)), IH; [reflexivity | intros y Hy; apply H; right; exact Hy].
Qed.

Lemma maxd_le {A} (f : A -> N) l x : In x l -> (f x <= maxd f l)%N.
Proof. induction l as [|y l IH]; intro H0; [destruct H0|]. destruct H0 as [E|H]; simpl; [subst; lia | specialize (IH H); lia]. Qed.

Lemma maxd_bound {A} (f : A -> N) l b : (forall x, In x l -> (f x <= b)%N) -> (maxd f l <= b)%N.
Proof.
  induction l as [|y l IH]; intro H; simpl; [lia|].
  pose proof (H y (or_introl eq_refl)). assert (maxd f l <= b)%N by (apply IH; intros x Hx; apply H; right; exact Hx). lia.
Qed.

Lemma tdepth_arr l : Text.tdepth (TArr l) = (1 + maxd Text.tdepth l)%N.
Proof. reflexivity. Qed.

Lemma tdepth_obj ms : Text.tdepth (TObj ms) = (1 + maxd (fun kv => Text.tdepth (snd kv)) ms)%N.
Proof. reflexivity. Qed.

Lemma odepth_arr l : odepth (OArr l) = (1 + maxd odepth l)%N.
Proof. reflexivity. Qed.

Lemma odepth_obj ms : odepth (OObj ms) = (1 + maxd (fun kv => odepth (snd kv)) ms)%N.
Proof. reflexivity. Qed.

Lemma odepth_leaf j : is_container j = false -> odepth j = 0%N.
Proof. destruct j; try reflexivity; discriminate. Qed.

(* ---- decoding keeps the depth ---- *)
Lemma den_depth t : tnodup t = true -> odepth (den t) = Text.tdepth t.
Proof.
  induction t using tjson_rect'; intro T; try reflexivity.
  - apply tnodup_arr in T. cbn [den]. rewrite odepth_arr, tdepth_arr, maxd_map. f_equal.
    apply maxd_ext_in. rewrite Forall_forall in H, T. intros x Hx. apply (H x Hx). apply (T x Hx).
  - rewrite (den_obj_nodup ms T). apply tnodup_obj in T as [_ F]. unfold den_members.
    rewrite odepth_obj, tdepth_obj, maxd_map. f_equal. cbn [snd].
    apply maxd_ext_in. rewrite Forall_forall in H, F. intros kv Hk. apply (H kv Hk). apply (F kv Hk).
Qed.

(* with duplicate names decoding keeps the LAST value of a name: the depth can only shrink *)
Lemma alast_in {A} k (m : list (bytes * A)) d : alast k m d = d \/ exists kv, In kv m /\ alast k m d = snd kv.
Proof.
  revert d. induction m as [|[k' v] m IH]; intro d; simpl; [left; reflexivity|].
  destruct (IH (if bseq k k' then v else d)) as [E|[kv [I E]]].
  - rewrite E. destruct (bseq k k'); [right; exists (k', v); split; [left; reflexivity | reflexivity] | left; reflexivity].
  - right. exists kv. split; [right; exact I | exact E].
Qed.

Lemma den_depth_le t : (odepth (den t) <= Text.tdepth t)%N.
Proof.
  induction t using tjson_rect'; try (simpl; lia).
  - cbn [den]. rewrite odepth_arr, tdepth_arr, maxd_map.
    assert (maxd (fun x => odepth (den x)) l <= maxd Text.tdepth l)%N; [|lia].
    apply maxd_bound. rewrite Forall_forall in H. intros x Hx. pose proof (H x Hx). pose proof (maxd_le Text.tdepth l x Hx). lia.
  - cbn [den]. rewrite odepth_obj, tdepth_obj.
    set (m := map (fun kv => (unquote (fst kv), den (snd kv))) ms).
    assert (B : forall kv, In kv m -> (odepth (snd kv) <= maxd (fun kv => Text.tdepth (snd kv)) ms)%N).
    { intros kv Hk. apply in_map_iff in Hk as [kv0 [<- H0]]. cbn [snd]. rewrite Forall_forall in H.
      pose proof (H kv0 H0). pose proof (maxd_le (fun kv => Text.tdepth (snd kv)) ms kv0 H0). cbn beta in *. lia. }
    assert (maxd (fun kv => odepth (snd kv)) (resolve_dups m) <= maxd (fun kv => Text.tdepth (snd kv)) ms)%N; [|lia].
    apply maxd_bound. intros kv Hk. unfold resolve_dups in Hk. apply in_map_iff in Hk as [kv0 [<- H0]]. cbn [snd].
    destruct (alast_in (fst kv0) m (snd kv0)) as [E|[kv1 [I1 E]]]; rewrite E; [apply B; exact H0 | apply B; exact I1].
Qed.

(* ---- HTML escaping keeps the depth ---- *)
Lemma escape_tree_depth esc t : Text.tdepth (escape_tree esc t) = Text.tdepth t.
Proof.
  induction t using tjson_rect'; rewrite escape_tree_eq; try reflexivity.
  - rewrite !tdepth_arr, maxd_map. f_equal. apply maxd_ext_in. rewrite Forall_forall in H. exact H.
  - rewrite !tdepth_obj, maxd_map. f_equal. cbn [snd]. apply maxd_ext_in. rewrite Forall_forall in H. exact H.
Qed.

(* ---- the encoding of a node is as deep as its value ---- *)
Lemma render_depth esc n : nwf n -> Text.tdepth (render esc n) = odepth (aval n).
Proof.
  induction n using node_rect'; intro W.
  - reflexivity.
  - cbn [render aval]. symmetry. apply den_depth. exact W.
  - apply nwf_doc in W as [_ Ws]. rewrite render_doc, aval_doc. unfold abs_members.
    rewrite tdepth_obj, odepth_obj, !maxd_map. f_equal. cbn [snd]. apply maxd_ext_in. intros k _.
    destruct (aget k obj) as [v|] eqn:E; cbn [option_map or_null]; [|reflexivity].
    apply aget_In in E. rewrite Forall_forall in H, Ws. apply (H _ E). apply (Ws _ E).
  - apply nwf_ary in W. cbn [render aval]. rewrite tdepth_arr, odepth_arr, !maxd_map. f_equal.
    apply maxd_ext_in. rewrite Forall_forall in H, W. intros x Hx. apply (H x Hx). apply (W x Hx).
Qed.

(* the check deepCopy makes is a statement about the value copied *)
Lemma copy_too_deep_val o v : nwf v -> copy_too_deep o v = (max_depth <? odepth (aval v))%N.
Proof.
  intro W. unfold copy_too_deep. rewrite (render_depth (o_esc o) v W).
  destruct v; try reflexivity.
Qed.

(* what is stored is exactly as deep as what was measured *)
Lemma enc_depth esc v : nwf v -> Text.tdepth (enc esc v) = odepth (aval v).
Proof. intro W. unfold enc. rewrite escape_tree_depth. apply render_depth. exact W. Qed.

(* the purpose of the check: a raw message that deepCopy stores is within the decoder's limit (the
   later lazy parse of it cannot hit the nesting error).  No hypothesis on the node. *)
Lemma deep_copy_stored_depth o v t :
  copy_too_deep o v = false -> fst (deep_copy o v) = NRaw t -> (Text.tdepth t <= max_depth)%N.
Proof.
  unfold copy_too_deep, deep_copy. destruct v; try discriminate; cbn [fst]; intros C E; inversion E; subst t;
    rewrite escape_tree_depth; apply N.ltb_ge; exact C.
Qed.

Lemma copies_fit_nil d doc : copies_fit d doc [] = true.
Proof. reflexivity. Qed.

Lemma copy_fits_not_copy d doc o : rkind o <> OpCopy -> copy_fits d doc o = true.
Proof. unfold copy_fits. destruct (rkind o); congruence. Qed.

(* a patch without copy operations *)
Lemma copies_fit_no_copy d p : Forall (fun o => rkind o <> OpCopy) p -> forall doc, copies_fit d doc p = true.
Proof.
  induction 1 as [|o p Ho _ IH]; intro doc; cbn [copies_fit]; [reflexivity|].
  rewrite (copy_fits_not_copy d doc o Ho). cbn [andb]. destruct (rfc_step d doc o); auto.
Qed.

(* what a pointer resolves to is a part of the document: never deeper *)
Lemma nth_depth l i : (odepth (nth i l ONull) <= maxd odepth l)%N.
Proof.
  destruct (Nat.lt_ge_cases i (length l)) as [L|L].
  - apply maxd_le. apply nth_In. exact L.
  - rewrite nth_overflow by exact L. simpl. lia.
Qed.

Lemma get_at_depth d toks : forall j v, get_at d toks j = ROk v -> (odepth v <= odepth j)%N.
Proof.
  induction toks as [|t toks IH]; intros j v H; cbn [get_at] in H.
  - inversion H; subst. lia.
  - destruct j; try discriminate.
    + destruct (idx_existing d (Rfc6902.zlen l) t) as [i|]; [|destruct toks; discriminate].
      apply IH in H. rewrite odepth_arr. pose proof (nth_depth l i). lia.
    + destruct (aget t ms) as [c|] eqn:E; [|destruct toks; discriminate].
      apply IH in H. rewrite odepth_obj. apply aget_In in E.
      pose proof (maxd_le (fun kv => odepth (snd kv)) ms (t, c) E). cbn [snd] in *. lia.
Qed.

(* so a copy inside a document that is itself within the limit always fits *)
Lemma copy_fits_shallow d doc o : (odepth doc <= max_depth)%N -> copy_fits d doc o = true.
Proof.
  intro B. unfold copy_fits. destruct (rkind o); try reflexivity.
  destruct (ptr_tokens (rfrom o)) as [ftoks|]; [|reflexivity].
  destruct (get_at d ftoks doc) as [v|] eqn:E; [|reflexivity].
  apply get_at_depth in E. apply N.leb_le. lia.
Qed.

Print Assumptions render_depth.
Print Assumptions copy_too_deep_val.
Print Assumptions deep_copy_stored_depth.
Print Assumptions get_at_depth.
