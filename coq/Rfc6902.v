(* Rfc6902.v — reference semantics of JSON Patch (RFC 6902 with RFC 6901 pointers) on decoded,
   ORDERED values, in the dialect the library documents.  No proofs here.

   This file is specification (trusted): it is meant to be short enough to read in minutes.
   Dialect, defined here and not derived from anything:
     * negative array indices, when enabled: for get/remove/replace/test, -k is index len-k;
       for add, -k is position len+1-k (so -1 appends).  When disabled they are errors.
     * a test against an absent member of an existing object compares as null.
     * the root may only be replaced (add/replace with path "") by an object or an array.
     * array index syntax is canonical: 0 or [1-9][0-9]*  (and "-" for add).
   Order: a new member is appended; add on an existing member and replace keep its position;
   remove deletes in place; move = remove then add; copy = get then add. *)
From JP Require Import Bytes Json Pointer.

Inductive cause :=
| FTest            (* a test whose comparison came out unequal *)
| FMissingMember   (* the addressed object member is absent *)
| FUnreachable     (* the parent location cannot be reached *)
| FIndex           (* array index out of range or not an index *)
| FRoot            (* an operation on the whole document that the dialect does not offer *)
| FPointer         (* not a JSON pointer *)
| FOther.

Inductive res (A : Type) :=
| Ok (a : A)
| Fail (c : cause).
Arguments Ok {A} a.
Arguments Fail {A} c.

Definition bind {A B} (r : res A) (f : A -> res B) : res B :=
  match r with Ok a => f a | Fail c => Fail c end.
Notation "x <- r ;; k" := (bind r (fun x => k)) (at level 61, r at next level, right associativity).

Inductive opkind := OpAdd | OpRemove | OpReplace | OpMove | OpCopy | OpTest.

(* a decoded operation: path/from are the decoded pointer strings; value = None when absent *)
Record rop := mkRop { rkind : opkind; rpath : bytes; rfrom : bytes; rvalue : option ojson }.

Record dialect := mkDialect { neg_idx : bool }.

(* ---- arrays ---- *)
Definition zlen {A} (l : list A) : Z := Z.of_nat (length l).

(* index of an existing element *)
Definition idx_existing (d : dialect) (len : Z) (tok : bytes) : option nat :=
  match canonical_nat tok with
  | Some n => if (n <? len)%Z then Some (Z.to_nat n) else None
  | None =>
      match canonical_neg tok with
      | Some k => if neg_idx d && (k <=? len)%Z then Some (Z.to_nat (len - k)) else None
      | None => None
      end
  end.

(* position at which add inserts *)
Definition idx_insert (d : dialect) (len : Z) (tok : bytes) : option nat :=
  if bseq tok [x2d] then Some (Z.to_nat len) else
  match canonical_nat tok with
  | Some n => if (n <=? len)%Z then Some (Z.to_nat n) else None
  | None =>
      match canonical_neg tok with
      | Some k => if neg_idx d && (k <=? len + 1)%Z then Some (Z.to_nat (len + 1 - k)) else None
      | None => None
      end
  end.

Definition insert_at {A} (i : nat) (v : A) (l : list A) : list A := firstn i l ++ v :: skipn i l.
Definition remove_at {A} (i : nat) (l : list A) : list A := firstn i l ++ skipn (S i) l.
Definition set_at {A} (i : nat) (v : A) (l : list A) : list A := firstn i l ++ v :: skipn (S i) l.

(* ---- walking to the parent of the addressed location ---- *)
Fixpoint at_parent (d : dialect) (toks : list bytes) (j : ojson)
         (f : ojson -> bytes -> res ojson) {struct toks} : res ojson :=
  match toks with
  | [] => Fail FRoot
  | [t] => f j t
  | t :: rest =>
      match j with
      | OObj ms =>
          match aget t ms with
          | Some c => c' <- at_parent d rest c f ;; Ok (OObj (aset t c' ms))
          | None => Fail FUnreachable
          end
      | OArr l =>
          match idx_existing d (zlen l) t with
          | Some i => c' <- at_parent d rest (nth i l ONull) f ;; Ok (OArr (set_at i c' l))
          | None => Fail FUnreachable
          end
      | _ => Fail FUnreachable
      end
  end.

Fixpoint get_at (d : dialect) (toks : list bytes) (j : ojson) {struct toks} : res ojson :=
  match toks with
  | [] => Ok j
  | t :: rest =>
      match j with
      | OObj ms =>
          match aget t ms with
          | Some c => get_at d rest c
          | None => match rest with [] => Fail FMissingMember | _ => Fail FUnreachable end
          end
      | OArr l =>
          match idx_existing d (zlen l) t with
          | Some i => get_at d rest (nth i l ONull)
          | None => match rest with [] => Fail FIndex | _ => Fail FUnreachable end
          end
      | _ => Fail FUnreachable
      end
  end.

(* ---- the operations at the parent ---- *)
Definition add_leaf (d : dialect) (v : ojson) (parent : ojson) (t : bytes) : res ojson :=
  match parent with
  | OObj ms => Ok (OObj (aset t v ms))
  | OArr l =>
      match idx_insert d (zlen l) t with
      | Some i => Ok (OArr (insert_at i v l))
      | None => Fail FIndex
      end
  | _ => Fail FUnreachable
  end.

Definition remove_leaf (d : dialect) (parent : ojson) (t : bytes) : res ojson :=
  match parent with
  | OObj ms => if amem t ms then Ok (OObj (adel t ms)) else Fail FMissingMember
  | OArr l =>
      match idx_existing d (zlen l) t with
      | Some i => Ok (OArr (remove_at i l))
      | None => Fail FIndex
      end
  | _ => Fail FUnreachable
  end.

Definition replace_leaf (d : dialect) (v : ojson) (parent : ojson) (t : bytes) : res ojson :=
  match parent with
  | OObj ms => if amem t ms then Ok (OObj (aset t v ms)) else Fail FMissingMember
  | OArr l =>
      match idx_existing d (zlen l) t with
      | Some i => Ok (OArr (set_at i v l))
      | None => Fail FIndex
      end
  | _ => Fail FUnreachable
  end.

(* test: an absent member of an existing object compares as null *)
Definition test_leaf (d : dialect) (v : ojson) (parent : ojson) (t : bytes) : res ojson :=
  match parent with
  | OObj ms =>
      let cur := match aget t ms with Some c => c | None => ONull end in
      if jeq cur v then Ok parent else Fail FTest
  | OArr l =>
      match idx_existing d (zlen l) t with
      | Some i => if jeq (nth i l ONull) v then Ok parent else Fail FTest
      | None => Fail FIndex
      end
  | _ => Fail FUnreachable
  end.

Definition value_or_null (o : option ojson) : ojson := match o with Some v => v | None => ONull end.

Definition rfc_add (d : dialect) (doc : ojson) (toks : list bytes) (v : ojson) : res ojson :=
  match toks with
  | [] => if is_container v then Ok v else Fail FRoot
  | _ => at_parent d toks doc (add_leaf d v)
  end.

Definition rfc_step (d : dialect) (doc : ojson) (o : rop) : res ojson :=
  match ptr_tokens (rpath o) with
  | None => Fail FPointer
  | Some toks =>
      match rkind o with
      | OpAdd => rfc_add d doc toks (value_or_null (rvalue o))
      | OpReplace =>
          let v := value_or_null (rvalue o) in
          match toks with
          | [] => if is_container v then Ok v else Fail FRoot
          | _ => at_parent d toks doc (replace_leaf d v)
          end
      | OpRemove =>
          match toks with
          | [] => Fail FRoot
          | _ => at_parent d toks doc (remove_leaf d)
          end
      | OpTest =>
          let v := value_or_null (rvalue o) in
          match toks with
          | [] => if jeq doc v then Ok doc else Fail FTest
          | _ => at_parent d toks doc (test_leaf d v)
          end
      | OpMove =>
          match ptr_tokens (rfrom o) with
          | None => Fail FPointer
          | Some [] => Fail FRoot
          | Some ftoks =>
              v <- get_at d ftoks doc ;;
              doc1 <- at_parent d ftoks doc (remove_leaf d) ;;
              match toks with
              | [] => Fail FRoot
              | _ => at_parent d toks doc1 (add_leaf d v)
              end
          end
      | OpCopy =>
          match ptr_tokens (rfrom o) with
          | None => Fail FPointer
          | Some ftoks =>
              v <- get_at d ftoks doc ;;
              match toks with
              | [] => Fail FRoot
              | _ => at_parent d toks doc (add_leaf d v)
              end
          end
      end
  end.

(* the whole patch; on failure: the index of the failing operation and its cause *)
Inductive outcome :=
| Done (doc : ojson)
| Failed (index : nat) (c : cause).

Fixpoint rfc_apply_from (d : dialect) (i : nat) (doc : ojson) (p : list rop) : outcome :=
  match p with
  | [] => Done doc
  | o :: rest =>
      match rfc_step d doc o with
      | Ok doc' => rfc_apply_from d (S i) doc' rest
      | Fail c => Failed i c
      end
  end.

Definition rfc_apply (d : dialect) (doc : ojson) (p : list rop) : outcome := rfc_apply_from d 0 doc p.
