(* Json.v — the two tree types.  No proofs here.

   tjson : a JSON text modulo insignificant whitespace ("spelled tree"): number literals and the
           bytes between the quotes of strings and member names are kept as spelled.  This is the
           information a compacted json.RawMessage carries.
   ojson : a decoded, ordered, literal-exact JSON value: strings and member names are decoded
           (Go string contents), numbers keep their literal, members keep their order. *)
From JP Require Import Bytes.

Inductive tjson :=
| TNull | TTrue | TFalse
| TNum (lit : bytes)
| TStr (body : bytes)
| TArr (l : list tjson)
| TObj (ms : list (bytes * tjson)).

Inductive ojson :=
| ONull
| OBool (b : bool)
| ONum (lit : bytes)
| OStr (s : bytes)
| OArr (l : list ojson)
| OObj (ms : list (bytes * ojson)).

Fixpoint tdepth (t : tjson) : N :=
  match t with
  | TArr l => 1 + fold_right (fun x a => N.max (tdepth x) a) 0 l
  | TObj ms => 1 + fold_right (fun x a => N.max (tdepth (snd x)) a) 0 ms
  | _ => 0
  end.

(* syntactic (ordered, literal-exact) equality *)
Fixpoint oeqb (a b : ojson) {struct a} : bool :=
  match a, b with
  | ONull, ONull => true
  | OBool x, OBool y => Bool.eqb x y
  | ONum x, ONum y => bseq x y
  | OStr x, OStr y => bseq x y
  | OArr l, OArr m =>
      (fix go (l : list ojson) (m : list ojson) {struct l} : bool :=
         match l, m with
         | [], [] => true
         | x :: l', y :: m' => oeqb x y && go l' m'
         | _, _ => false
         end) l m
  | OObj l, OObj m =>
      (fix go (l : list (bytes * ojson)) (m : list (bytes * ojson)) {struct l} : bool :=
         match l, m with
         | [], [] => true
         | (k, x) :: l', (k', y) :: m' => bseq k k' && oeqb x y && go l' m'
         | _, _ => false
         end) l m
  | _, _ => false
  end.

(* structural equality: objects as finite maps (order ignored), numbers by literal.
   Written the way the property states it: same number of members and every member of a is a
   member of b with an equal value. *)
Fixpoint jeq (a b : ojson) {struct a} : bool :=
  match a, b with
  | ONull, ONull => true
  | OBool x, OBool y => Bool.eqb x y
  | ONum x, ONum y => bseq x y
  | OStr x, OStr y => bseq x y
  | OArr l, OArr m =>
      (fix go (l : list ojson) (m : list ojson) {struct l} : bool :=
         match l, m with
         | [], [] => true
         | x :: l', y :: m' => jeq x y && go l' m'
         | _, _ => false
         end) l m
  | OObj l, OObj m =>
      (length l =? length m)%nat &&
      (fix go (l : list (bytes * ojson)) {struct l} : bool :=
         match l with
         | [] => true
         | (k, x) :: l' =>
             match aget k m with
             | Some y => jeq x y && go l'
             | None => false
             end
         end) l
  | _, _ => false
  end.

Definition is_container (j : ojson) : bool :=
  match j with OArr _ | OObj _ => true | _ => false end.

(* no duplicate member names anywhere *)
Fixpoint onodup (j : ojson) : bool :=
  match j with
  | OArr l => forallb onodup l
  | OObj ms => knodup (map fst ms) && forallb (fun kv => onodup (snd kv)) ms
  | _ => true
  end.
