(* StrInv.v — the string invariant of the v5 patch engine and the codec round trip of deepCopy.
   nstr n : every raw message stored in n spells its strings and member names with bodies the scanner
            accepts (Codec.tsb), and every member name of a parsed object is valid UTF-8.
   Every tree the reader produces satisfies tsb (parse_tsb); the names decoded from such a tree are
   valid UTF-8; re-encoding a node that satisfies the invariant (render, then HTML escaping) gives a
   text that denotes the same value and satisfies the invariant again (codec_thm): this is what
   ApplySim.deep_copy_sim needs, and replaces the (refutable) global hypothesis codec_ok. *)
From Coq Require Import Lia.
From JP Require Import Bytes Json Text Strings Den ImplV5 DecodeFacts JsonFacts Abs EqualFacts ParseFacts Codec.

(* ---- ASCII strings are valid UTF-8 (to discharge utf8 of literal tokens by reflexivity) ---- *)
Lemma utf8_ascii s : forallb (fun c => bn c <? 128) s = true -> utf8 s.
Proof.
  induction s as [|c s IH]; intro H; [constructor|]. cbn [forallb] in H. apply andb_prop in H as [H1 H2].
  apply U_ascii; auto.
Qed.

(* ---- the encoder writes string bodies the scanner accepts (same statements as CreateFacts.v
   sbody_quote and its helpers; repeated here so that the simulation does not depend on the
   merge-patch development) ---- *)
Definition si_qshape (q : bytes) : bool :=
  match q with
  | [d] => (bn d <? 128) && negb (bn d <? 32) && negb (Byte.eqb d x22) && negb (Byte.eqb d x5c)
  | [d; e] => Byte.eqb d x5c && simple_esc e
  | [d; e; a; b; c; d'] => Byte.eqb d x5c && Byte.eqb e x75 && (is_hex a && is_hex b && is_hex c && is_hex d')
  | _ => false
  end.

Lemma si_qshape_qchar esc c : (bn c <? 128) = true -> si_qshape (qchar esc c) = true.
Proof. destruct esc; destruct c; intro H; try (vm_compute in H; discriminate H); vm_compute; reflexivity. Qed.

Lemma si_sbody_qshape q Q : si_qshape q = true -> sbody Q -> sbody (q ++ Q).
Proof.
  intros H S. destruct q as [|d [|e [|a [|b [|c [|d' [|x q]]]]]]]; try discriminate H; cbn [si_qshape] in H.
  - apply andb_prop in H as [H H4]. apply andb_prop in H as [H H3]. apply andb_prop in H as [H1 H2].
    apply negb_true_iff in H2, H3, H4. cbn [app]. apply SB_ascii; assumption.
  - apply andb_prop in H as [H1 H2]. apply Byte.byte_dec_bl in H1. subst d.
    cbn [app]. apply SB_esc; [exact H2 | exact S].
  - apply andb_prop in H as [H1 H3]. apply andb_prop in H1 as [H1 H2].
    apply Byte.byte_dec_bl in H1, H2. subst d e. cbn [app]. apply SB_u; [exact H3 | exact S].
Qed.

Lemma si_sbody_high_app l Q : Forall (fun x => (bn x <? 128) = false) l -> sbody Q -> sbody (l ++ Q).
Proof. induction 1 as [|x l Hx _ IH]; intro S; cbn [app]; [exact S|]. apply SB_high; [exact Hx | apply IH; exact S]. Qed.

Lemma si_utf8_seq_high c r k : (bn c <? 128) = false -> utf8_len (c :: r) = S k ->
  Forall (fun x => (bn x <? 128) = false) (firstn (S k) (c :: r)).
Proof.
  intros H E. unfold utf8_len in E. rewrite H in E.
  destruct (bn c <? 194) eqn:H1; [discriminate|].
  destruct (bn c <? 224) eqn:H2.
  { destruct r as [|c1 r]; [discriminate|]. destruct (cont c1) eqn:C; [|discriminate].
    inversion E; subst. cbn [firstn]. repeat constructor; [exact H | apply cont_high; exact C]. }
  destruct (bn c <? 240) eqn:H3.
  { destruct r as [|c1 [|c2 r]]; try discriminate. destruct (_ && _) eqn:C; [|discriminate].
    inversion E; subst. apply andb_prop in C as [C1 C2]. cbn [firstn].
    assert (K1 : cont c1 = true).
    { apply (in_range_cont (if bn c =? 224 then 160 else 128) (if bn c =? 237 then 159 else 191));
        [destruct (bn c =? 224); lia | destruct (bn c =? 237); lia | exact C1]. }
    repeat constructor; [exact H | apply cont_high; exact K1 | apply cont_high; exact C2]. }
  destruct (bn c <? 245) eqn:H4; [|discriminate].
  destruct r as [|c1 [|c2 [|c3 r]]]; try discriminate. destruct (_ && _) eqn:C; [|discriminate].
  inversion E; subst. apply andb_prop in C as [C12 C3]. apply andb_prop in C12 as [C1 C2]. cbn [firstn].
  assert (K1 : cont c1 = true).
  { apply (in_range_cont (if bn c =? 240 then 144 else 128) (if bn c =? 244 then 143 else 191));
      [destruct (bn c =? 240); lia | destruct (bn c =? 244); lia | exact C1]. }
  repeat constructor; [exact H | apply cont_high; exact K1 | apply cont_high; exact C2 | apply cont_high; exact C3].
Qed.

Theorem si_sbody_quote esc s : utf8 s -> sbody (quote esc s).
Proof.
  induction 1 as [|c r H U IH|c r n H E U IH].
  - constructor.
  - rewrite quote_ascii by exact H. apply si_sbody_qshape; [apply si_qshape_qchar; exact H | exact IH].
  - rewrite (quote_multi esc c r n H E).
    destruct (is_ls (c :: r)) as [[d r']|] eqn:L.
    + unfold is_ls in L. destruct c; try discriminate. destruct r as [|c1 r1]; try discriminate.
      destruct c1; try discriminate. destruct r1 as [|c2 r2]; try discriminate.
      destruct c2; try discriminate; inversion L; subst d r';
        (assert (n = 2%nat) by (vm_compute in E; congruence); subst n; cbn [skipn] in IH;
         cbn [app]; apply SB_u; [reflexivity | exact IH]).
    + apply si_sbody_high_app; [apply si_utf8_seq_high; assumption | exact IH].
Qed.

(* ---- HTML escaping keeps a string body a string body ---- *)
Lemma sbody_html_escape : forall n b, (length b <= n)%nat -> sbody b -> sbody (html_escape b).
Proof.
  induction n as [|n IH]; intros b L Sb.
  { destruct b; [constructor | simpl in L; lia]. }
  inversion Sb as [|e r He Sr|a b0 c d r Hh Sr|c r H1 H2 H3 H4 Sr|c r H1 Sr0]; subst.
  - constructor.
  - assert (Ne : he_special e = false) by (destruct e; try reflexivity; discriminate).
    rewrite (he_plain x5c) by reflexivity. rewrite (he_plain e) by exact Ne.
    apply SB_esc; [exact He|]. apply IH; auto. simpl in L. lia.
  - rewrite (he_u4 _ _ _ _ _ Hh). apply SB_u; [exact Hh|]. apply IH; auto. simpl in L. lia.
  - assert (IHr : sbody (html_escape r)) by (apply IH; auto; simpl in L; lia).
    destruct (he_special c) eqn:Sp.
    + assert (HE : html_escape (c :: r) = x5c :: x75 :: x30 :: x30 :: hexdigit (bn c / 16) :: hexdigit (bn c mod 16) :: html_escape r).
      { destruct c; try discriminate; reflexivity. }
      rewrite HE. apply SB_u; [exact (proj1 (hexenc_facts c H1)) | exact IHr].
    + rewrite he_plain by exact Sp. apply SB_ascii; auto.
  - assert (IHr : sbody (html_escape r)) by (apply IH; auto; simpl in L; lia).
    destruct (is_ls (c :: r)) as [[dg r2]|] eqn:Ls.
    + unfold is_ls in Ls. destruct c; try discriminate. destruct r as [|c1 r1]; try discriminate.
      destruct c1; try discriminate. destruct r1 as [|c2 r2']; try discriminate.
      assert (S2 : sbody r2').
      { destruct c2; try discriminate;
          (eapply sbody_high_inv; [|eapply sbody_high_inv; [|exact Sr0]]; reflexivity). }
      assert (IH2 : sbody (html_escape r2')) by (apply IH; auto; simpl in L; lia).
      destruct c2; try discriminate.
      * change (html_escape (xe2 :: x80 :: xa8 :: r2')) with (x5c :: x75 :: x32 :: x30 :: x32 :: x38 :: html_escape r2').
        apply SB_u; [reflexivity | exact IH2].
      * change (html_escape (xe2 :: x80 :: xa9 :: r2')) with (x5c :: x75 :: x32 :: x30 :: x32 :: x39 :: html_escape r2').
        apply SB_u; [reflexivity | exact IH2].
    + rewrite (he_lead c r H1 Ls). apply SB_high; auto.
Qed.

Lemma sbody_he b : sbody b -> sbody (html_escape b).
Proof. apply (sbody_html_escape (length b)). apply le_n. Qed.

(* ---- the reader: every string body it returns is an sbody ---- *)
Lemma scan_string_sb : forall n s b rest, (length s <= n)%nat -> scan_string s = Some (b, rest) -> sbody b.
Proof.
  induction n as [|n IH]; intros s b rest L H.
  { destruct s; [discriminate | simpl in L; lia]. }
  destruct s as [|c r]; [discriminate|]. simpl in L.
  destruct (Byte.eqb c x22) eqn:Q.
  { apply Byte.byte_dec_bl in Q. subst c. cbn [scan_string] in H. inversion H; subst. constructor. }
  destruct (Byte.eqb c x5c) eqn:Bs.
  { apply Byte.byte_dec_bl in Bs. subst c. cbn [scan_string] in H.
    destruct r as [|e r']; [discriminate|]. simpl in L.
    destruct (Byte.eqb e x75) eqn:U.
    - apply Byte.byte_dec_bl in U. subst e.
      destruct r' as [|h1 [|h2 [|h3 [|h4 r'']]]]; try discriminate.
      destruct (is_hex h1 && is_hex h2 && is_hex h3 && is_hex h4) eqn:Hh; [|discriminate].
      destruct (scan_string r'') as [[b1 rest1]|] eqn:S1; [|discriminate]. inversion H; subst.
      apply SB_u; [exact Hh|]. apply (IH r'' b1 rest); [simpl in L; lia | exact S1].
    - destruct (simple_esc e) eqn:Se.
      + assert (E : match scan_string r' with Some (b1, rest1) => Some (x5c :: e :: b1, rest1) | None => None end = Some (b, rest)).
        { destruct e; try discriminate; exact H. }
        destruct (scan_string r') as [[b1 rest1]|] eqn:S1; [|discriminate]. inversion E; subst.
        apply SB_esc; [exact Se|]. apply (IH r' b1 rest); [lia | exact S1].
      + exfalso. destruct e; try discriminate. }
  assert (E : (if bn c <? 32 then None else
               match scan_string r with Some (b1, rest1) => Some (c :: b1, rest1) | None => None end) = Some (b, rest)).
  { cbn [scan_string] in H. destruct c; try discriminate; exact H. }
  destruct (bn c <? 32) eqn:Lo; [discriminate|].
  destruct (scan_string r) as [[b1 rest1]|] eqn:S1; [|discriminate]. inversion E; subst.
  assert (Sb1 : sbody b1) by (apply (IH r b1 rest); [lia | exact S1]).
  destruct (bn c <? 128) eqn:A; [apply SB_ascii; auto | apply SB_high; auto].
Qed.

Lemma parse_value_tsb : forall fuel,
  (forall d s t rest, parse_value fuel d s = Some (t, rest) -> tsb t) /\
  (forall d s l rest, parse_elems fuel d s = Some (l, rest) -> Forall tsb l) /\
  (forall d s ms rest, parse_members fuel d s = Some (ms, rest) -> Forall (fun kv => sbody (fst kv) /\ tsb (snd kv)) ms).
Proof.
  induction fuel as [|f [IHv [IHe IHm]]]; [repeat split; intros; discriminate|].
  repeat split.
  - intros d s t rest. cbn [parse_value]. destruct (skip_ws s) as [|c r]; try discriminate.
    destruct c; try (destruct (scan_number _) as [[lit rest']|] eqn:En; [|discriminate]; intro H; inversion H; subst; exact I).
    + (* quote *) destruct (scan_string r) as [[b rest']|] eqn:Ss; try discriminate. intro H; inversion H; subst.
      cbn [tsb]. eapply scan_string_sb; [apply le_n | exact Ss].
    + (* [ *) destruct (d =? 0); try discriminate. destruct (skip_ws r) as [|c' r'] eqn:Es.
      * destruct (parse_elems f (d - 1) r) as [[l rest']|] eqn:Ee; try discriminate. intro H; inversion H; subst.
        apply tsb_arr. eauto.
      * destruct c'; try (destruct (parse_elems f (d - 1) r) as [[l rest']|] eqn:Ee; [|discriminate]; intro H; inversion H; subst;
                          apply tsb_arr; eauto).
        intro H; inversion H; exact I.
    + (* f *) destruct (strip_prefix _ r); try discriminate. intro H; inversion H; exact I.
    + (* n *) destruct (strip_prefix _ r); try discriminate. intro H; inversion H; exact I.
    + (* t *) destruct (strip_prefix _ r); try discriminate. intro H; inversion H; exact I.
    + (* { *) destruct (d =? 0); try discriminate. destruct (skip_ws r) as [|c' r'] eqn:Es.
      * destruct (parse_members f (d - 1) r) as [[ms rest']|] eqn:Ee; try discriminate. intro H; inversion H; subst.
        apply tsb_obj. eauto.
      * destruct c'; try (destruct (parse_members f (d - 1) r) as [[ms rest']|] eqn:Ee; [|discriminate]; intro H; inversion H; subst;
                          apply tsb_obj; eauto).
        intro H; inversion H; exact I.
  - intros d s l rest. cbn [parse_elems]. destruct (parse_value f d s) as [[v rest0]|] eqn:Ev; try discriminate.
    destruct (skip_ws rest0) as [|c r]; try discriminate.
    destruct c; try discriminate.
    + destruct (parse_elems f d r) as [[l' rest']|] eqn:Ee; try discriminate. intro H; inversion H; subst.
      constructor; eauto.
    + intro H; inversion H; subst. constructor; eauto.
  - intros d s ms rest. cbn [parse_members]. destruct (skip_ws s) as [|c r]; try discriminate.
    destruct c; try discriminate. destruct (scan_string r) as [[k rest0]|] eqn:Ss; try discriminate.
    destruct (skip_ws rest0) as [|c1 r1]; try discriminate. destruct c1; try discriminate.
    destruct (parse_value f d r1) as [[v rest1]|] eqn:Ev; try discriminate.
    destruct (skip_ws rest1) as [|c2 r2]; try discriminate. destruct c2; try discriminate.
    + destruct (parse_members f d r2) as [[ms' rest']|] eqn:Em; try discriminate. intro H; inversion H; subst.
      constructor; [|eauto]. cbn [fst snd]. split; [eapply scan_string_sb; [apply le_n | exact Ss] | eauto].
    + intro H; inversion H; subst. constructor; [|constructor]. cbn [fst snd].
      split; [eapply scan_string_sb; [apply le_n | exact Ss] | eauto].
Qed.

Theorem parse_tsb bs t : parse bs = Some t -> tsb t.
Proof.
  unfold parse. destruct (parse_value (parse_fuel bs) max_depth bs) as [[t' rest]|] eqn:E; try discriminate.
  destruct (skip_ws rest); try discriminate. intro H; inversion H; subst.
  eapply (proj1 (parse_value_tsb _)); eauto.
Qed.

(* ---- the string invariant of nodes ---- *)
Fixpoint nstr (n : node) : Prop :=
  match n with
  | NNil => True
  | NRaw t => tsb t
  | NDoc keys obj =>
      Forall utf8 keys /\
      (fix all (m : list (bytes * node)) : Prop :=
         match m with [] => True | kv :: r => (utf8 (fst kv) /\ nstr (snd kv)) /\ all r end) obj
  | NAry ns =>
      (fix all (l : list node) : Prop := match l with [] => True | x :: r => nstr x /\ all r end) ns
  end.

Lemma nstr_doc keys obj :
  nstr (NDoc keys obj) <-> Forall utf8 keys /\ Forall (fun kv => utf8 (fst kv) /\ nstr (snd kv)) obj.
Proof.
  cbn [nstr]. split; intros [H1 H2]; (split; [exact H1|]); clear H1.
  - induction obj as [|kv obj IH]; constructor; destruct H2; auto.
  - induction obj as [|kv obj IH]; [exact I|]. inversion H2 as [|? ? Ha Hb]; subst. split; [exact Ha | apply IH; exact Hb].
Qed.

Lemma nstr_ary ns : nstr (NAry ns) <-> Forall nstr ns.
Proof.
  cbn [nstr]. split; intro H.
  - induction ns as [|x ns IH]; constructor; destruct H; auto.
  - induction ns as [|x ns IH]; [exact I|]. inversion H as [|? ? Ha Hb]; subst. split; [exact Ha | apply IH; exact Hb].
Qed.

Arguments nstr : simpl never.
Lemma nstr_nil : nstr NNil. Proof. exact I. Qed.
Lemma nstr_raw t : nstr (NRaw t) <-> tsb t. Proof. reflexivity. Qed.
Lemma nstr_child t : tsb t -> nstr (child t).
Proof. destruct t; intro H; try exact I; exact H. Qed.

(* the names decoded from a spelled object are valid UTF-8 *)
Lemma sbody_unquote_utf8 b : sbody b -> utf8 (unquote b).
Proof. apply (unquote_utf8 (length b)). apply le_n. Qed.

Lemma tsb_obj_keys ms : tsb (TObj ms) -> Forall utf8 (map (fun kv => unquote (fst kv)) ms).
Proof.
  intro H. apply tsb_obj in H. rewrite Forall_map. rewrite Forall_forall in *. intros kv Hk.
  apply sbody_unquote_utf8. apply (H kv Hk).
Qed.

Lemma tsb_obj_vals ms : tsb (TObj ms) -> Forall (fun kv => tsb (snd kv)) ms.
Proof. intro H. apply tsb_obj in H. rewrite Forall_forall in *. intros kv Hk. apply (H kv Hk). Qed.

(* one level of lazy parsing keeps the invariant *)
Lemma nstr_parsed_obj ms :
  tsb (TObj ms) ->
  nstr (NDoc (map (fun kv => unquote (fst kv)) ms) (map (fun kv => (unquote (fst kv), child (snd kv))) ms)).
Proof.
  intro H. apply nstr_doc. split; [apply tsb_obj_keys; exact H|]. rewrite Forall_map.
  apply tsb_obj in H. rewrite Forall_forall in *. intros kv Hk. destruct (H kv Hk) as [H1 H2]. cbn [fst snd].
  split; [apply sbody_unquote_utf8; exact H1 | apply nstr_child; exact H2].
Qed.

Lemma nstr_parsed_arr l : tsb (TArr l) -> nstr (NAry (map child l)).
Proof.
  intro H. apply nstr_ary. rewrite Forall_map. apply tsb_arr in H. rewrite Forall_forall in *.
  intros t Ht. apply nstr_child. apply (H t Ht).
Qed.

Lemma Forall_aset_kv {A} (P : bytes * A -> Prop) k v m : Forall P m -> P (k, v) -> Forall P (aset k v m).
Proof.
  intros H Hv. induction m as [|[k' v'] m IH]; simpl.
  - constructor; auto.
  - inversion H; subst. destruct (bseq k k') eqn:E; constructor; auto.
    apply bseq_eq in E. subst. exact Hv.
Qed.

(* ---- escaping a spelled tree, for either setting of the switch ---- *)
Definition esc_body (esc : bool) (b : bytes) : bytes := if esc then html_escape b else b.

Lemma escape_tree_eq esc t :
  escape_tree esc t =
  match t with
  | TStr b => TStr (esc_body esc b)
  | TArr l => TArr (map (escape_tree esc) l)
  | TObj ms => TObj (map (fun kv => (esc_body esc (fst kv), escape_tree esc (snd kv))) ms)
  | _ => t
  end.
Proof.
  destruct esc; [apply escape_tree_true|]. unfold escape_tree, esc_body. destruct t; try reflexivity.
  - now rewrite map_id.
  - f_equal. induction ms as [|[k v] ms IH]; [reflexivity|]. cbn [map fst snd]. now rewrite <- IH.
Qed.

Lemma esc_body_sbody esc b : sbody b -> sbody (esc_body esc b).
Proof. destruct esc; [apply sbody_he | auto]. Qed.

Lemma esc_body_unquote esc b : sbody b -> unquote (esc_body esc b) = unquote b.
Proof. destruct esc; [apply (unquote_html_escape (length b)); apply le_n | reflexivity]. Qed.

Lemma escape_den esc t : tsb t -> den (escape_tree esc t) = den t.
Proof. destruct esc; [apply escape_tree_den | reflexivity]. Qed.

Lemma escape_tree_tlit esc t : tlit (escape_tree esc t) = tlit t.
Proof.
  destruct esc; [|reflexivity].
  induction t using tjson_rect'; try reflexivity.
  - rewrite escape_tree_true. cbn [tlit]. induction H as [|x l Hx _ IH]; [reflexivity|]. cbn [map forallb]. now rewrite Hx, IH.
  - rewrite escape_tree_true. cbn [tlit]. induction H as [|x l Hx _ IH]; [reflexivity|]. cbn [map forallb snd]. now rewrite Hx, IH.
Qed.

Lemma escape_tree_tsb esc t : tsb t -> tsb (escape_tree esc t).
Proof.
  induction t using tjson_rect'; intro S; rewrite escape_tree_eq; try exact S.
  - cbn [tsb] in *. apply esc_body_sbody. exact S.
  - apply tsb_arr. apply tsb_arr in S. rewrite Forall_map. rewrite Forall_forall in *.
    intros x Hx. apply (H x Hx). apply (S x Hx).
  - apply tsb_obj. apply tsb_obj in S. rewrite Forall_map. rewrite Forall_forall in *.
    intros kv Hk. cbn [fst snd]. destruct (S kv Hk) as [S1 S2]. split; [apply esc_body_sbody; exact S1 | apply (H kv Hk); exact S2].
Qed.

(* ---- the codec round trip of deepCopy ---- *)
Definition enc (esc : bool) (v : node) : tjson := escape_tree esc (render esc v).

Lemma render_doc esc keys obj :
  render esc (NDoc keys obj) =
  TObj (map (fun k => (quote esc k, match option_map (render esc) (aget k obj) with Some t => t | None => TNull end)) keys).
Proof.
  cbn [render]. f_equal. apply map_ext. intro k. f_equal.
  induction obj as [|[k' v] obj IH]; simpl; auto. destruct (bseq k k'); auto.
Qed.

Lemma enc_doc esc keys obj :
  enc esc (NDoc keys obj) =
  TObj (map (fun k => (esc_body esc (quote esc k),
                       match option_map (enc esc) (aget k obj) with Some t => t | None => TNull end)) keys).
Proof.
  unfold enc at 1. rewrite render_doc, escape_tree_eq, map_map. f_equal. apply map_ext. intro k. cbn [fst snd].
  f_equal. destruct (aget k obj) as [v|]; cbn [option_map]; [reflexivity|]. now rewrite escape_tree_eq.
Qed.

Lemma enc_ary esc ns : enc esc (NAry ns) = TArr (map (enc esc) ns).
Proof. unfold enc at 1. cbn [render]. now rewrite escape_tree_eq, map_map. Qed.

Lemma name_roundtrip esc k : utf8 k ->
  unquote (esc_body esc (quote esc k)) = k /\ sbody (esc_body esc (quote esc k)).
Proof.
  intro U. pose proof (si_sbody_quote esc k U) as S. split.
  - rewrite esc_body_unquote by exact S. apply unquote_quote. exact U.
  - apply esc_body_sbody. exact S.
Qed.

Theorem codec_thm esc v : nwf v -> nlit v -> nstr v ->
  den (enc esc v) = aval v /\ tlit (enc esc v) = true /\ tsb (enc esc v).
Proof.
  induction v using node_rect'; intros W L S.
  - (* nil *) unfold enc. cbn [render]. rewrite escape_tree_eq. repeat split.
  - (* raw *) unfold enc. cbn [render aval]. apply nstr_raw in S. split; [apply escape_den; exact S|].
    split; [rewrite escape_tree_tlit; exact L | apply escape_tree_tsb; exact S].
  - (* parsed object *)
    apply nwf_doc in W as [[Nk [No Ag]] Ws]. apply nlit_doc in L. apply nstr_doc in S as [Uk Ss].
    rewrite enc_doc. rewrite Forall_forall in H, Ws, L, Ss, Uk.
    assert (IHk : forall k x, aget k obj = Some x ->
                den (enc esc x) = aval x /\ tlit (enc esc x) = true /\ tsb (enc esc x)).
    { intros k x E. apply aget_In in E. apply (H _ E); [apply (Ws _ E) | apply (L _ E) | apply (Ss _ E)]. }
    split; [|split].
    + cbn [den]. rewrite map_map. cbn [fst snd].
      assert (E : map (fun k => (unquote (esc_body esc (quote esc k)),
                                 den match option_map (enc esc) (aget k obj) with Some t => t | None => TNull end)) keys
                  = abs_members keys obj).
      { unfold abs_members. apply map_ext_in. intros k Hk. f_equal.
        - apply name_roundtrip. apply (Uk k Hk).
        - destruct (aget k obj) as [x|] eqn:E; cbn [option_map or_null]; [|reflexivity].
          apply (IHk k x E). }
      rewrite E, aval_doc. f_equal. apply resolve_dups_nodup.
      unfold abs_members. rewrite map_map. cbn [fst]. rewrite map_id. exact Nk.
    + cbn [tlit]. apply forallb_forall. intros kv Hkv. apply in_map_iff in Hkv as [k [<- Hk]]. cbn [snd].
      destruct (aget k obj) as [x|] eqn:E; cbn [option_map]; [apply (IHk k x E) | reflexivity].
    + apply tsb_obj. rewrite Forall_map. apply Forall_forall. intros k Hk. cbn [fst snd]. split.
      * apply name_roundtrip. apply (Uk k Hk).
      * destruct (aget k obj) as [x|] eqn:E; cbn [option_map]; [apply (IHk k x E) | exact I].
  - (* parsed array *)
    apply nwf_ary in W. apply nlit_ary in L. apply nstr_ary in S. rewrite enc_ary. rewrite Forall_forall in H, W, L, S.
    split; [|split].
    + cbn [den aval]. f_equal. rewrite map_map. apply map_ext_in. intros x Hx. apply (H x Hx); auto.
    + cbn [tlit]. apply forallb_forall. intros t Ht. apply in_map_iff in Ht as [x [<- Hx]]. apply (H x Hx); auto.
    + apply tsb_arr. rewrite Forall_map. apply Forall_forall. intros x Hx. apply (H x Hx); auto.
Qed.

(* values of well-formed nodes have no duplicate names *)
Lemma nwf_aval_onodup n : nwf n -> onodup (aval n) = true.
Proof.
  induction n using node_rect'; intro W.
  - reflexivity.
  - exact W.
  - apply nwf_doc in W as [[Nk [No Ag]] Ws]. rewrite aval_doc. apply onodup_obj. split.
    + unfold abs_members. rewrite map_map. simpl. rewrite map_id. exact Nk.
    + unfold abs_members. rewrite Forall_map. apply Forall_forall. intros k Hk. simpl.
      destruct (aget k obj) as [v|] eqn:E; [|reflexivity]. simpl. apply aget_In in E.
      rewrite Forall_forall in H, Ws. apply (H _ E). apply (Ws _ E).
  - apply nwf_ary in W. cbn [aval]. apply onodup_arr. rewrite Forall_map. rewrite Forall_forall in *.
    intros x Hx. apply (H x Hx). apply (W x Hx).
Qed.

(* the statement deep_copy_sim uses: the fresh raw node satisfies every part of the invariant *)
Corollary codec_node esc v : nwf v -> nlit v -> nstr v ->
  aval (NRaw (enc esc v)) = aval v /\ nwf (NRaw (enc esc v)) /\ nlit (NRaw (enc esc v)) /\ nstr (NRaw (enc esc v)).
Proof.
  intros W L S. destruct (codec_thm esc v W L S) as [D [T B]]. cbn [aval]. split; [exact D|].
  split; [apply nwf_raw; unfold tnodup; rewrite D; apply nwf_aval_onodup; exact W|]. split; [exact T | exact B].
Qed.

Print Assumptions codec_thm.
Print Assumptions parse_tsb.
