(* Den.v — from spelled trees to decoded values.  No proofs here.

   den decodes strings and member names (unquote) and resolves duplicate member names exactly as
   decoding into a Go map with a separate key list does: every name is listed (duplicates
   included, in document order) and each name's value is the LAST value given for it.  Without
   duplicate names this is the obvious map. *)
From JP Require Import Bytes Json Strings.

Fixpoint alast {A} (k : bytes) (m : list (bytes * A)) (dflt : A) : A :=
  match m with
  | [] => dflt
  | (k', v) :: r => alast k r (if bseq k k' then v else dflt)
  end.

Definition resolve_dups {A} (m : list (bytes * A)) : list (bytes * A) :=
  map (fun kv => (fst kv, alast (fst kv) m (snd kv))) m.

Fixpoint den (t : tjson) : ojson :=
  match t with
  | TNull => ONull
  | TTrue => OBool true
  | TFalse => OBool false
  | TNum lit => ONum lit
  | TStr b => OStr (unquote b)
  | TArr l => OArr (map den l)
  | TObj ms => OObj (resolve_dups (map (fun kv => (unquote (fst kv), den (snd kv))) ms))
  end.

(* no duplicate member names after decoding, anywhere *)
Definition tnodup (t : tjson) : bool := onodup (den t).
