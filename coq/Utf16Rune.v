(* Utf16Rune.v -- hand-written MODELS of the standard-library functions and constants that
   unquoteBytes / getu4 (v5/internal/json/decode.go) call, next to Utf8Rune.decode_rune.  No proofs here.

   These functions are MODELLED, NOT TRANSLATED from their Go source.  gen/UnquoteGen.v (written by
   tools/gounquote2v) calls them where the Go code calls the library:

     utf8.RuneSelf = 128, utf8.UTFMax = 4, utf8.RuneError = unicode.ReplacementChar = 65533
     utf16.IsSurrogate(r)      is_surrogate_z r      0xd800 <= r < 0xe000
     utf16.DecodeRune(r1, r2)  decode_pair r1 r2     0x10000 + (r1-0xd800)*1024 + (r2-0xdc00) for a high
                                                     surrogate r1 followed by a low surrogate r2, else U+FFFD
     utf8.EncodeRune(p, r)     encode_rune_z r       the bytes written: Strings.encode_rune for a scalar
                                                     value (0 <= r < 0x110000, not a surrogate), else ef bf bd
                               encode_at b w r       utf8.EncodeRune(b[w:], r) on the buffer b: None is the
                                                     PANIC of the bounds checks of EncodeRune (p[0] = ... ,
                                                     _ = p[1], _ = p[2], _ = p[3]: fewer bytes than the
                                                     encoding needs remain in p); otherwise the buffer with
                                                     the encoding stored at w and the number of bytes written.
                                                     (the slice expression b[w:] itself is guarded by the
                                                     translator before encode_at is called)
   Runes are Go int32 values read as Coq integers; a negative rune is encoded as U+FFFD (Go converts to
   uint32 first).

   Compared once (2026-09-28, go1.23.5, by vm_compute on a generated scratch file, see
   tools/gounquote2v/gridcheck/main.go: 5199 runes, 1600 pairs) with utf8.EncodeRune, utf16.IsSurrogate and utf16.DecodeRune:
     EncodeRune / IsSurrogate on -5..300, on +-3 around every power of two up to 2^31 and around 0x7f 0x80
       0x7ff 0x800 0xd7ff 0xd800 0xdbff 0xdc00 0xdfff 0xe000 0xfffd 0xffff 0x10000 0x10ffff 0x110000
       0x7fffffff, on every 251st value up to 0x120000, and on min int32;
     EncodeRune into a slice that is 0..4 bytes long for one rune of every encoded length and for a
       surrogate (the panic or not, the bytes before and after the written ones unchanged);
     DecodeRune on all pairs of a grid of 40 values around the surrogate boundaries, -1 and others:
   equal on all of them.  That comparison is evidence, not proof: these definitions are trusted to be
   what the Go functions compute. *)
From JP Require Import Bytes Strings Utf8Rune.
Local Open Scope Z_scope.

Definition rune_self : Z := 128.            (* utf8.RuneSelf *)
Definition utf_max : Z := 4.                (* utf8.UTFMax *)
Definition replacement_char : Z := 65533.   (* unicode.ReplacementChar; utf8.RuneError is Utf8Rune.rune_error *)

Definition is_surrogate_z (r : Z) : bool := (55296 <=? r) && (r <? 57344).

Definition decode_pair (r1 r2 : Z) : Z :=
  if (55296 <=? r1) && (r1 <? 56320) && (56320 <=? r2) && (r2 <? 57344)
  then 65536 + (r1 - 55296) * 1024 + (r2 - 56320)
  else 65533.

Definition encode_rune_z (r : Z) : bytes :=
  if (0 <=? r) && (r <? 1114112) && negb (is_surrogate_z r) then encode_rune (Z.to_N r) else replacement.

(* utf8.EncodeRune(b[w:], r) *)
Definition encode_at (b : bytes) (w r : Z) : option (bytes * Z) :=
  let e := encode_rune_z r in
  let n := Z.of_nat (length e) in
  if w + n <=? Z.of_nat (length b)
  then Some (firstn (Z.to_nat w) b ++ e ++ skipn (Z.to_nat (w + n)) b, n)
  else None.

Example utf16rune_examples :
  encode_rune_z 65 = [x41] /\ encode_rune_z 233 = [xc3; xa9] /\ encode_rune_z 8364 = [xe2; x82; xac] /\
  encode_rune_z 128512 = [xf0; x9f; x98; x80] /\ encode_rune_z 55296 = [xef; xbf; xbd] /\
  encode_rune_z (-1) = [xef; xbf; xbd] /\ encode_rune_z 1114112 = [xef; xbf; xbd] /\
  is_surrogate_z 55295 = false /\ is_surrogate_z 55296 = true /\ is_surrogate_z 57343 = true /\
  is_surrogate_z 57344 = false /\
  decode_pair 55357 56832 = 128512 /\ decode_pair 55357 (-1) = 65533 /\ decode_pair 56320 56320 = 65533 /\
  decode_pair 56319 57343 = 1114111 /\ decode_pair 55296 57344 = 65533 /\
  encode_at [x01; x02; x03; x04] 1 233 = Some ([x01; xc3; xa9; x04], 2) /\
  encode_at [x01; x02; x03; x04] 3 233 = None /\ encode_at [x01] 1 65 = None.
Proof. vm_compute. repeat split. Qed.
