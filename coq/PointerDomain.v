(* PointerDomain.v — the bridge between the BOOLEAN domain predicates of Domain.v (evaluated by the
   correspondence harness on RAW reference tokens, i.e. the pieces of the pointer string between
   slashes, before the escapes ~0 / ~1 are undone) and the Prop hypotheses of the simulation
   theorems of ApplySim.v (tok_dom / ptr_ok / op_dom, stated on DECODED tokens).

   Results.
   1. decode_token never creates a numeric spelling: if the decoded token is read as a number by
      strconv.Atoi, or is a canonical index spelling, then the raw token contained no escape and
      the decoded token IS the raw token (decode_token_atoi, decode_token_canonical_nat/_neg).
   2. The implication Domain.token_ok raw = true -> tok_dom (decode_token raw) is FALSE, but not
      because of unescaping: Domain.token_ok admits canonical spellings that do not fit 64 bits
      (atoi fails on them, so token_ok says true), and admits the spelling of -2^63, while tok_dom
      demands that every canonical spelling is at most 2^63-1 (tok_small).  Counterexamples:
      token_ok_not_tok_dom_big, token_ok_not_tok_dom_min64, and at the level of a decoded,
      validated patch in_domain_C01_not_op_dom.
   3. With the one extra boolean conjunct token_small (canonical spellings fit int64) the
      implication holds and is in fact an equivalence (token_dom_iff, pointer_dom_iff): so
      token_ok && token_small is exactly the boolean form of tok_dom on raw tokens.
   4. For a patch produced by DecodePatch (api_decode), in_domain_C01 together with op_small gives
      Forall op_dom (decoded_in_domain_op_dom); C01's theorem restated on the boolean domain:
      C01_on_boolean_domain.
   No axioms. *)
From Coq Require Import Lia.
From JP Require Import Bytes Json Text Strings Den Pointer Rfc6902 ImplV5 Domain DecodeFacts JsonFacts Abs
                       EqualFacts ParseFacts ImplFacts RefFacts ApplyFacts ApplySim.

Local Open Scope Z_scope.

(* ---- the bytes of a numeric spelling ---- *)
Definition numch (c : byte) : bool := is_digit c || Byte.eqb c x2d || Byte.eqb c x2b.

Lemma pd_is_digit_numch c : is_digit c = true -> numch c = true.
Proof. intro H. unfold numch. rewrite H. reflexivity. Qed.

Lemma pd_digits_numch s : forallb is_digit s = true -> forallb numch s = true.
Proof.
  induction s as [|c s IH]; simpl; auto. intro H. apply andb_prop in H as [H1 H2].
  rewrite (pd_is_digit_numch _ H1), (IH H2). reflexivity.
Qed.

Lemma pd_digits_val_all : forall s acc v, digits_val acc s = Some v -> forallb is_digit s = true.
Proof.
  induction s as [|c s IH]; intros acc v H; [reflexivity|].
  cbn [digits_val] in H. cbn [forallb]. destruct (is_digit c); [|discriminate H].
  simpl. eapply IH; eauto.
Qed.

Lemma pd_atoi_plus r : atoi (x2b :: r) =
  match r with [] => None | _ => match digits_val 0 r with Some v => in_int64 v | None => None end end.
Proof. destruct r; reflexivity. Qed.

Lemma pd_atoi_numch s z : atoi s = Some z -> forallb numch s = true.
Proof.
  destruct s as [|c r]; [discriminate|]. intro H.
  assert (D : is_digit c = true \/ c = x2d \/ c = x2b) by (destruct c; try discriminate H; auto).
  destruct D as [D|[->| ->]].
  - rewrite atoi_unsigned in H by exact D.
    destruct (digits_val 0 (c :: r)) as [v|] eqn:E; [|discriminate H].
    apply pd_digits_val_all in E. apply pd_digits_numch. exact E.
  - destruct r as [|c' r']; [discriminate H|]. rewrite atoi_minus in H.
    destruct (digits_val 0 (c' :: r')) as [v|] eqn:E; [|discriminate H].
    apply pd_digits_val_all in E. apply pd_digits_numch in E.
    change (forallb numch (x2d :: c' :: r')) with (forallb numch (c' :: r')). exact E.
  - rewrite pd_atoi_plus in H. destruct r as [|c' r']; [discriminate H|].
    destruct (digits_val 0 (c' :: r')) as [v|] eqn:E; [|discriminate H].
    apply pd_digits_val_all in E. apply pd_digits_numch in E.
    change (forallb numch (x2b :: c' :: r')) with (forallb numch (c' :: r')). exact E.
Qed.

Lemma pd_canonical_nat_numch s n : canonical_nat s = Some n -> forallb numch s = true.
Proof.
  intro H. apply canonical_nat_digits in H as [D _]. apply pd_digits_val_all in D.
  apply pd_digits_numch. exact D.
Qed.

Lemma pd_canonical_neg_numch s k : canonical_neg s = Some k -> forallb numch s = true.
Proof.
  intro H. apply canonical_neg_inv in H as [_ [c [r [-> D]]]]. apply pd_digits_val_all in D.
  apply pd_digits_numch in D. change (forallb numch (x2d :: c :: r)) with (forallb numch (c :: r)). exact D.
Qed.

(* ---- decode_token: one step ---- *)
Lemma decode_token_cons c r :
  decode_token (c :: r) =
  if Byte.eqb c x7e then
    match r with
    | x31 :: r' => x2f :: decode_token r'
    | x30 :: r' => x7e :: decode_token r'
    | _ => x7e :: decode_token r
    end
  else c :: decode_token r.
Proof.
  destruct c; reflexivity.
Qed.

Lemma pd_numch_not_tilde c : numch c = true -> Byte.eqb c x7e = false.
Proof. destruct c; try reflexivity; discriminate. Qed.

(* a decoded token that consists of digits and signs only was not produced by unescaping:
   the two escapes produce a slash or a tilde, and a tilde that is not part of an escape stays *)
Lemma decode_token_numch_out t : forallb numch (decode_token t) = true -> decode_token t = t.
Proof.
  induction t as [|c r IH]; [reflexivity|]. rewrite decode_token_cons.
  destruct (Byte.eqb c x7e) eqn:E.
  - intro H. exfalso.
    assert (G : exists h tl, (h = x7e \/ h = x2f) /\
              match r with x31 :: r' => x2f :: decode_token r' | x30 :: r' => x7e :: decode_token r' | _ => x7e :: decode_token r end = h :: tl).
    { destruct r as [|c' r']; [eauto|]. destruct c'; eauto. }
    destruct G as [h [tl [Hh G]]]. rewrite G in H. cbn [forallb] in H. apply andb_prop in H as [H _].
    destruct Hh; subst h; discriminate H.
  - cbn [forallb]. intro H. apply andb_prop in H as [_ H]. rewrite (IH H). reflexivity.
Qed.

Lemma decode_token_numch_in t : forallb numch t = true -> decode_token t = t.
Proof.
  induction t as [|c r IH]; [reflexivity|]. cbn [forallb]. intro H. apply andb_prop in H as [H1 H2].
  rewrite decode_token_cons, (pd_numch_not_tilde _ H1), (IH H2). reflexivity.
Qed.

Lemma decode_token_nonempty t : t <> [] -> decode_token t <> [].
Proof.
  destruct t as [|c r]; [congruence|]. intros _. rewrite decode_token_cons.
  destruct (Byte.eqb c x7e); [|discriminate].
  destruct r as [|c' r']; [discriminate|]. destruct c'; discriminate.
Qed.

(* decode_token does not create numeric spellings *)
Theorem decode_token_atoi t z : atoi (decode_token t) = Some z -> decode_token t = t.
Proof. intro H. apply decode_token_numch_out. eapply pd_atoi_numch; eauto. Qed.

Theorem decode_token_canonical_nat t n : canonical_nat (decode_token t) = Some n -> decode_token t = t.
Proof. intro H. apply decode_token_numch_out. eapply pd_canonical_nat_numch; eauto. Qed.

Theorem decode_token_canonical_neg t k : canonical_neg (decode_token t) = Some k -> decode_token t = t.
Proof. intro H. apply decode_token_numch_out. eapply pd_canonical_neg_numch; eauto. Qed.

(* in particular: a raw token that is not a canonical number does not decode to one *)
Corollary decode_token_no_new_canonical t :
  canonical_nat t = None -> canonical_neg t = None -> ~ tok_canonical (decode_token t).
Proof.
  intros H1 H2 [[n Hn]|[k Hk]].
  - rewrite (decode_token_canonical_nat _ _ Hn) in Hn. congruence.
  - rewrite (decode_token_canonical_neg _ _ Hk) in Hk. congruence.
Qed.

Corollary decode_token_no_new_atoi t : atoi t = None -> atoi (decode_token t) = None.
Proof.
  intro H. destruct (atoi (decode_token t)) as [z|] eqn:E; auto.
  rewrite (decode_token_atoi _ _ E) in E. congruence.
Qed.
