(* PointerDomain.v — the bridge between the BOOLEAN domain predicates of Domain.v (evaluated by the
   correspondence harness on RAW reference tokens, i.e. the pieces of the pointer string between
   slashes, before the escapes ~0 / ~1 are undone) and the Prop hypotheses of the simulation
   theorems of ApplySim.v (tok_dom / ptr_ok / op_dom, stated on DECODED tokens).

   Results.
   1. decode_token never creates a numeric spelling: if the decoded token is read as a number by
      strconv.Atoi, or is a canonical index spelling, then the raw token contained no escape and
      the decoded token IS the raw token (decode_token_atoi, decode_token_canonical_nat/_neg).
   2. The implication Domain.token_ok raw = true -> tok_dom (decode_token raw) is FALSE, but not
      because of unescaping: Domain.token_ok admits canonical spellings that do not fit 64 bits
      (atoi fails on them, so token_ok says true), and admits the spelling of -2^63, while tok_dom
      demands that every canonical spelling is at most 2^63-1 (tok_small).  Counterexamples:
      token_ok_not_tok_dom_big, token_ok_not_tok_dom_min64, and at the level of a decoded,
      validated patch in_domain_C01_not_op_dom.
   3. With the one extra boolean conjunct token_small (canonical spellings fit int64) the
      implication holds and is in fact an equivalence (token_dom_iff, pointer_dom_iff), up to the
      UTF-8 conjunct of tok_dom: token_ok && token_small is exactly the boolean form of the numeric
      part of tok_dom on raw tokens.
   4. tok_dom also asks that the decoded token is valid UTF-8 and op_dom that the value's string
      bodies are scanner-accepted (the string invariant that makes deepCopy a round trip).  Both are
      THEOREMS for decoded patches: path/from are results of unquote on scanner-accepted bodies
      (op_tsb_str, api_decode_tsb), and splitting at '/' and undoing ~0 ~1 keep UTF-8 validity
      (utf8_split_slash, utf8_decode_token, utf8_pointer_tokens).
   5. For a patch produced by DecodePatch (api_decode), in_domain_C01 together with op_small gives
      Forall op_dom (decoded_in_domain_op_dom); C01's theorem restated on the boolean domain, with
      no hypothesis other than the boolean ones: C01_on_boolean_domain.
   6. tok_small can be traded for a bound on the array length (resolve_idx_get_ref_len,
      ary_add_ref_len, ary_remove_ref_len) but not dropped: big_index_needs_length_bound.
   No axioms. *)
From Coq Require Import Lia.
From JP Require Import Bytes Json Text Strings Den Pointer Rfc6902 ImplV5 Domain DecodeFacts JsonFacts Abs
                       EqualFacts ParseFacts ImplFacts RefFacts ApplyFacts Codec StrInv Depth ApplySim.

Local Open Scope Z_scope.

(* ---- the bytes of a numeric spelling ---- *)
Definition numch (c : byte) : bool := is_digit c || Byte.eqb c x2d || Byte.eqb c x2b.

Lemma pd_is_digit_numch c : is_digit c = true -> numch c = true.
Proof. intro H. unfold numch. rewrite H. reflexivity. Qed.

Lemma pd_digits_numch s : forallb is_digit s = true -> forallb numch s = true.
Proof.
  induction s as [|c s IH]; simpl; auto. intro H. apply andb_prop in H as [H1 H2].
  rewrite (pd_is_digit_numch _ H1), (IH H2). reflexivity.
Qed.

Lemma pd_digits_val_all : forall s acc v, digits_val acc s = Some v -> forallb is_digit s = true.
Proof.
  induction s as [|c s IH]; intros acc v H; [reflexivity|].
  cbn [digits_val] in H. cbn [forallb]. destruct (is_digit c); [|discriminate H].
  simpl. eapply IH; eauto.
Qed.

Lemma pd_atoi_plus r : atoi (x2b :: r) =
  match r with [] => None | _ => match digits_val 0 r with Some v => in_int64 v | None => None end end.
Proof. destruct r; reflexivity. Qed.

Lemma pd_atoi_numch s z : atoi s = Some z -> forallb numch s = true.
Proof.
  destruct s as [|c r]; [discriminate|]. intro H.
  assert (D : is_digit c = true \/ c = x2d \/ c = x2b) by (destruct c; try discriminate H; auto).
  destruct D as [D|[->| ->]].
  - rewrite atoi_unsigned in H by exact D.
    destruct (digits_val 0 (c :: r)) as [v|] eqn:E; [|discriminate H].
    apply pd_digits_val_all in E. apply pd_digits_numch. exact E.
  - destruct r as [|c' r']; [discriminate H|]. rewrite atoi_minus in H.
    destruct (digits_val 0 (c' :: r')) as [v|] eqn:E; [|discriminate H].
    apply pd_digits_val_all in E. apply pd_digits_numch in E.
    change (forallb numch (x2d :: c' :: r')) with (forallb numch (c' :: r')). exact E.
  - rewrite pd_atoi_plus in H. destruct r as [|c' r']; [discriminate H|].
    destruct (digits_val 0 (c' :: r')) as [v|] eqn:E; [|discriminate H].
    apply pd_digits_val_all in E. apply pd_digits_numch in E.
    change (forallb numch (x2b :: c' :: r')) with (forallb numch (c' :: r')). exact E.
Qed.

Lemma pd_canonical_nat_numch s n : canonical_nat s = Some n -> forallb numch s = true.
Proof.
  intro H. apply canonical_nat_digits in H as [D _]. apply pd_digits_val_all in D.
  apply pd_digits_numch. exact D.
Qed.

Lemma pd_canonical_neg_numch s k : canonical_neg s = Some k -> forallb numch s = true.
Proof.
  intro H. apply canonical_neg_inv in H as [_ [c [r [-> D]]]]. apply pd_digits_val_all in D.
  apply pd_digits_numch in D. change (forallb numch (x2d :: c :: r)) with (forallb numch (c :: r)). exact D.
Qed.

(* ---- decode_token: one step ---- *)
Definition decode_tilde (r : bytes) : bytes :=
  match r with
  | x31 :: r' => x2f :: decode_token r'
  | x30 :: r' => x7e :: decode_token r'
  | _ => x7e :: decode_token r
  end.

Lemma decode_token_cons c r :
  decode_token (c :: r) = if Byte.eqb c x7e then decode_tilde r else c :: decode_token r.
Proof. destruct c; reflexivity. Qed.

Lemma decode_tilde_head r : exists h tl, (h = x7e \/ h = x2f) /\ decode_tilde r = h :: tl.
Proof. unfold decode_tilde. destruct r as [|c' r']; [eauto|]. destruct c'; eauto. Qed.

Lemma pd_numch_not_tilde c : numch c = true -> Byte.eqb c x7e = false.
Proof. destruct c; try reflexivity; discriminate. Qed.

(* a decoded token that consists of digits and signs only was not produced by unescaping:
   the two escapes produce a slash or a tilde, and a tilde that is not part of an escape stays *)
Lemma decode_token_numch_out t : forallb numch (decode_token t) = true -> decode_token t = t.
Proof.
  induction t as [|c r IH]; [reflexivity|]. rewrite decode_token_cons.
  destruct (Byte.eqb c x7e) eqn:E.
  - intro H. exfalso.
    destruct (decode_tilde_head r) as [h [tl [Hh G]]]. rewrite G in H. cbn [forallb] in H. apply andb_prop in H as [H _].
    destruct Hh; subst h; discriminate H.
  - cbn [forallb]. intro H. apply andb_prop in H as [_ H]. rewrite (IH H). reflexivity.
Qed.

Lemma decode_token_numch_in t : forallb numch t = true -> decode_token t = t.
Proof.
  induction t as [|c r IH]; [reflexivity|]. cbn [forallb]. intro H. apply andb_prop in H as [H1 H2].
  rewrite decode_token_cons, (pd_numch_not_tilde _ H1), (IH H2). reflexivity.
Qed.

Lemma decode_token_nonempty t : t <> [] -> decode_token t <> [].
Proof.
  destruct t as [|c r]; [congruence|]. intros _. rewrite decode_token_cons.
  destruct (Byte.eqb c x7e); [|discriminate].
  destruct (decode_tilde_head r) as [h [tl [_ G]]]. rewrite G. discriminate.
Qed.

(* decode_token does not create numeric spellings *)
Theorem decode_token_atoi t z : atoi (decode_token t) = Some z -> decode_token t = t.
Proof. intro H. apply decode_token_numch_out. eapply pd_atoi_numch; eauto. Qed.

Theorem decode_token_canonical_nat t n : canonical_nat (decode_token t) = Some n -> decode_token t = t.
Proof. intro H. apply decode_token_numch_out. eapply pd_canonical_nat_numch; eauto. Qed.

Theorem decode_token_canonical_neg t k : canonical_neg (decode_token t) = Some k -> decode_token t = t.
Proof. intro H. apply decode_token_numch_out. eapply pd_canonical_neg_numch; eauto. Qed.

(* in particular: a raw token that is not a canonical number does not decode to one *)
Corollary decode_token_no_new_canonical t :
  canonical_nat t = None -> canonical_neg t = None -> ~ tok_canonical (decode_token t).
Proof.
  intros H1 H2 [[n Hn]|[k Hk]].
  - rewrite (decode_token_canonical_nat _ _ Hn) in Hn. congruence.
  - rewrite (decode_token_canonical_neg _ _ Hk) in Hk. congruence.
Qed.

Corollary decode_token_no_new_atoi t : atoi t = None -> atoi (decode_token t) = None.
Proof.
  intro H. destruct (atoi (decode_token t)) as [z|] eqn:E; auto.
  rewrite (decode_token_atoi _ _ E) in E. congruence.
Qed.

(* ---- valid UTF-8 is preserved by splitting at '/' and by undoing ~0 / ~1 ---- *)
(* (tok_dom asks that a decoded token is valid UTF-8: the member name that add creates from it is
   re-encoded by copy.  Every string of a decoded patch is the result of unquote, hence valid
   UTF-8; the slash and the tilde are ASCII, so the pieces are valid UTF-8 too.) *)
Lemma pd_utf8_chunk c r n Q :
  (bn c <? 128)%N = false -> utf8_len (c :: r) = S n -> utf8 Q -> utf8 (firstn (S n) (c :: r) ++ Q).
Proof.
  intros H E U. pose proof (utf8_len_firstn_length c r n E) as FL.
  assert (Hd : exists t, firstn (S n) (c :: r) = c :: t) by (cbn [firstn]; eauto).
  destruct Hd as [t Ht]. rewrite Ht. cbn [app]. apply (U_multi c _ n H).
  - change (c :: t ++ Q) with ((c :: t) ++ Q). rewrite <- Ht. apply utf8_len_prefix; auto.
  - change (c :: t ++ Q) with ((c :: t) ++ Q). rewrite <- Ht.
    rewrite (proj2 (firstn_app_exact (S n) _ Q FL)). exact U.
Qed.

Lemma pd_high_not c : (bn c <? 128)%N = false -> Byte.eqb c x2f = false /\ Byte.eqb c x7e = false.
Proof. destruct c; intro H; try discriminate H; split; reflexivity. Qed.

Lemma pd_split_slash_high l s p ps :
  Forall (fun x => (bn x <? 128)%N = false) l -> split_slash s = p :: ps ->
  split_slash (l ++ s) = (l ++ p) :: ps.
Proof.
  intros F E. induction F as [|x l Hx Hl IH]; cbn [app]; [exact E|].
  cbn [split_slash]. rewrite (proj1 (pd_high_not x Hx)), IH. reflexivity.
Qed.

Lemma pd_decode_token_high l s :
  Forall (fun x => (bn x <? 128)%N = false) l -> decode_token (l ++ s) = l ++ decode_token s.
Proof.
  induction 1 as [|x l Hx Hl IH]; cbn [app]; [reflexivity|].
  rewrite decode_token_cons, (proj2 (pd_high_not x Hx)), IH. reflexivity.
Qed.

Lemma utf8_split_slash s : utf8 s -> Forall utf8 (split_slash s).
Proof.
  induction 1 as [|c r H U IH|c r n H E U IH].
  - repeat constructor.
  - cbn [split_slash]. destruct (Byte.eqb c x2f); [constructor; [constructor | exact IH]|].
    destruct (split_slash r) as [|p ps]; [repeat constructor; exact H|].
    inversion IH; subst. constructor; [apply U_ascii; assumption | assumption].
  - rewrite <- (firstn_skipn (S n) (c :: r)).
    destruct (split_slash (skipn (S n) (c :: r))) as [|p ps] eqn:Es; [exfalso; exact (split_slash_nonempty _ Es)|].
    rewrite (pd_split_slash_high _ _ p ps (si_utf8_seq_high c r n H E) Es).
    inversion IH; subst. constructor; [apply pd_utf8_chunk; assumption | assumption].
Qed.

Lemma utf8_decode_token_tilde t : utf8 t -> utf8 (decode_token t) /\ utf8 (decode_tilde t).
Proof.
  induction 1 as [|c r H U [IH1 IH2]|c r n H E U [IH1 IH2]].
  - split; [constructor | repeat constructor].
  - assert (D : utf8 (decode_token (c :: r))).
    { rewrite decode_token_cons. destruct (Byte.eqb c x7e); [exact IH2 | apply U_ascii; assumption]. }
    split; [exact D|]. unfold decode_tilde.
    destruct c; try (apply U_ascii; [reflexivity | exact D]); (apply U_ascii; [reflexivity | exact IH1]).
  - assert (D : utf8 (decode_token (c :: r))).
    { rewrite <- (firstn_skipn (S n) (c :: r)).
      rewrite (pd_decode_token_high _ _ (si_utf8_seq_high c r n H E)). apply pd_utf8_chunk; assumption. }
    split; [exact D|]. unfold decode_tilde.
    destruct c; try (apply U_ascii; [reflexivity | exact D]); discriminate H.
Qed.

Lemma utf8_decode_token t : utf8 t -> utf8 (decode_token t).
Proof. intro U. apply utf8_decode_token_tilde. exact U. Qed.

Lemma utf8_tail_ascii c r : (bn c <? 128)%N = true -> utf8 (c :: r) -> utf8 r.
Proof. intros H U. inversion U; subst; [assumption | congruence]. Qed.

(* the decoded reference tokens of a pointer that is valid UTF-8 are valid UTF-8 *)
Theorem utf8_pointer_tokens r : utf8 (x2f :: r) -> Forall utf8 (map decode_token (split_slash r)).
Proof.
  intro U. apply utf8_tail_ascii in U; [|reflexivity]. apply utf8_split_slash in U.
  rewrite Forall_map. rewrite Forall_forall in *. intros t Ht. apply utf8_decode_token. apply (U t Ht).
Qed.

(* ---- the boolean token predicates, as Props ---- *)
Lemma token_ok_spec t :
  token_ok t = true <-> t <> [] /\ (forall z, atoi t = Some z -> tok_canonical t).
Proof.
  unfold token_ok, tok_canonical. destruct t as [|c r].
  - split; [discriminate | intros [H _]; congruence].
  - set (t := c :: r). split.
    + intro H. split; [discriminate|]. intros z Hz. rewrite Hz in H.
      destruct (canonical_nat t) as [n|]; [left; eauto|].
      destruct (canonical_neg t) as [k|]; [right; eauto | discriminate H].
    + intros [_ H]. destruct (atoi t) as [z|]; [|reflexivity].
      destruct (H z eq_refl) as [[n Hn]|[k Hk]].
      * rewrite Hn. reflexivity.
      * rewrite Hk. destruct (canonical_nat t); reflexivity.
Qed.

(* the conjunct that Domain.token_ok lacks: canonical spellings fit strconv.Atoi's int64 *)
Definition token_small (t : bytes) : bool :=
  match canonical_nat t with Some n => n <=? int64_max | None => true end &&
  match canonical_neg t with Some k => k <=? int64_max | None => true end.

Lemma token_small_spec t : token_small t = true <-> tok_small t.
Proof.
  unfold token_small, tok_small. rewrite andb_true_iff. split.
  - intros [H1 H2]. split.
    + intros n Hn. rewrite Hn in H1. apply Z.leb_le. exact H1.
    + intros k Hk. rewrite Hk in H2. apply Z.leb_le. exact H2.
  - intros [H1 H2]. split.
    + destruct (canonical_nat t) as [n|]; [apply Z.leb_le; auto | reflexivity].
    + destruct (canonical_neg t) as [k|]; [apply Z.leb_le; auto | reflexivity].
Qed.

Definition token_dom (t : bytes) : bool := token_ok t && token_small t.

(* ---- the bridge on one token, in both directions ---- *)
Theorem token_dom_iff t : token_dom t = true /\ utf8 (decode_token t) <-> tok_dom (decode_token t).
Proof.
  unfold token_dom, tok_dom. rewrite andb_true_iff, token_ok_spec, token_small_spec. split.
  - intros [[[NE C] S] U8]. split; [apply decode_token_nonempty; exact NE|]. split; [|split; [|exact U8]].
    + split.
      * intros n Hn. pose proof (decode_token_canonical_nat _ _ Hn) as E. rewrite E in Hn. apply (proj1 S _ Hn).
      * intros k Hk. pose proof (decode_token_canonical_neg _ _ Hk) as E. rewrite E in Hk. apply (proj2 S _ Hk).
    + intros z Hz. pose proof (decode_token_atoi _ _ Hz) as E. rewrite E in *. eapply C; eauto.
  - intros [NE [S [C U8]]]. split; [|exact U8]. split; [split|].
    + intro E. apply NE. rewrite E. reflexivity.
    + intros z Hz. pose proof (decode_token_numch_in _ (pd_atoi_numch _ _ Hz)) as E. rewrite E in C. eapply C; eauto.
    + split.
      * intros n Hn. pose proof (decode_token_numch_in _ (pd_canonical_nat_numch _ _ Hn)) as E. rewrite E in S.
        apply (proj1 S _ Hn).
      * intros k Hk. pose proof (decode_token_numch_in _ (pd_canonical_neg_numch _ _ Hk)) as E. rewrite E in S.
        apply (proj2 S _ Hk).
Qed.

Corollary token_ok_tok_dom t : token_ok t = true -> token_small t = true -> utf8 (decode_token t) -> tok_dom (decode_token t).
Proof. intros H1 H2 U. apply token_dom_iff. unfold token_dom. rewrite H1, H2. split; [reflexivity | exact U]. Qed.

(* ---- COUNTEREXAMPLES: Domain.token_ok alone does not give tok_dom ---- *)
(* a canonical index spelling of 20 digits: Atoi fails (out of range), so token_ok says true *)
Example token_ok_not_tok_dom_big :
  let t := B "99999999999999999999" in
  token_ok t = true /\ decode_token t = t /\ atoi t = None /\ ~ tok_dom (decode_token t).
Proof.
  split; [vm_compute; reflexivity|]. split; [vm_compute; reflexivity|]. split; [vm_compute; reflexivity|].
  intro D. apply token_dom_iff in D as [D _]. vm_compute in D. discriminate D.
Qed.

(* the spelling of -2^63: Atoi succeeds and the spelling is canonical, but tok_small bounds the
   absolute value by 2^63-1 *)
Example token_ok_not_tok_dom_min64 :
  let t := B "-9223372036854775808" in
  token_ok t = true /\ atoi t = Some int64_min /\ ~ tok_dom (decode_token t).
Proof.
  split; [vm_compute; reflexivity|]. split; [vm_compute; reflexivity|].
  intro D. apply token_dom_iff in D as [D _]. vm_compute in D. discriminate D.
Qed.

(* ---- pointers ---- *)
Definition ptr_small (p : bytes) : bool :=
  match p with
  | x2f :: r => forallb token_small (split_slash r)
  | _ => true
  end.

Lemma pd_tokens_iff l :
  forallb token_ok l && forallb token_small l = true /\ Forall utf8 (map decode_token l) <->
  Forall tok_dom (map decode_token l).
Proof.
  induction l as [|t l IH]; cbn [forallb map].
  - split; [constructor | split; [reflexivity | constructor]].
  - split.
    + intros [H U]. inversion U as [|? ? U1 U2]; subst.
      apply andb_prop in H as [H1 H2]. apply andb_prop in H1 as [A1 A2]. apply andb_prop in H2 as [B1 B2].
      constructor; [apply token_ok_tok_dom; auto|]. apply IH. rewrite A2, B2. split; [reflexivity | exact U2].
    + intro H. inversion H as [|? ? D F]; subst. apply token_dom_iff in D as [D U1]. unfold token_dom in D.
      apply andb_prop in D as [D1 D2]. apply IH in F as [F U2]. apply andb_prop in F as [F1 F2].
      rewrite D1, D2, F1, F2. split; [reflexivity | constructor; assumption].
Qed.

Lemma pd_pointer_ok_head c r : pointer_ok (c :: r) = true -> c = x2f.
Proof. destruct c; try discriminate; reflexivity. Qed.

Theorem pointer_dom_iff p : utf8 p -> (pointer_ok p && ptr_small p = true <-> p = [] \/ ptr_ok p).
Proof.
  intro U. destruct p as [|c r].
  - split; auto.
  - split.
    + intro H. apply andb_prop in H as [H1 H2]. pose proof (pd_pointer_ok_head _ _ H1) as ->.
      cbn [pointer_ok ptr_small] in H1, H2. right. exists r. split; [reflexivity|].
      apply pd_tokens_iff. rewrite H1, H2. split; [reflexivity | apply utf8_pointer_tokens; exact U].
    + intros [H|[r' [E F]]]; [discriminate H|]. inversion E; subst. cbn [pointer_ok ptr_small].
      apply pd_tokens_iff. exact F.
Qed.

Corollary pointer_ok_ptr_ok p : utf8 p -> pointer_ok p = true -> ptr_small p = true -> p <> [] -> ptr_ok p.
Proof.
  intros U H1 H2 NE. destruct (proj1 (pointer_dom_iff p U)) as [E|E]; auto; [|congruence].
  rewrite H1, H2. reflexivity.
Qed.

(* ---- operations ---- *)
Definition op_small (op : operation) : bool :=
  ptr_small (str_or_empty (op_str op (B "path"))) &&
  match op_kind op with
  | KMove | KCopy => ptr_small (str_or_empty (op_str op (B "from")))
  | _ => true
  end.

(* number literals of the patch value start with '-' or a digit: true of every parsed text *)
Definition value_lit (op : operation) : bool :=
  match aget (B "value") op with Some (Some t) => tlit t | _ => true end.

Lemma pd_is_empty_false p : negb (is_empty p) = true -> p <> [].
Proof. destruct p; [discriminate | discriminate]. Qed.

Lemma pd_value_present op :
  amem (B "value") op = true -> value_is_null op = false ->
  exists t, aget (B "value") op = Some (Some t) /\ t <> TNull.
Proof.
  unfold amem, value_is_null. destruct (aget (B "value") op) as [[t|]|]; try discriminate.
  intros _ H. exists t. split; auto. intro E. subst t. discriminate H.
Qed.

(* every text stored in the operation spells its strings with bodies the scanner accepts: true of
   every decoded patch (api_decode_tsb below); gives valid UTF-8 of path / from and tsb of the value *)
Definition op_tsb (op : operation) : Prop :=
  Forall (fun kv : bytes * option tjson => match snd kv with Some t => tsb t | None => True end) op.

Lemma op_tsb_str op k s : op_tsb op -> op_str op k = Ok s -> utf8 s.
Proof.
  unfold op_tsb, op_str. intros F H. destruct (aget k op) as [[t|]|] eqn:E; try discriminate H.
  apply aget_In in E. rewrite Forall_forall in F. specialize (F _ E). cbn [snd] in F.
  destruct t; try discriminate H. inversion H; subst. apply sbody_unquote_utf8. exact F.
Qed.

Lemma op_tsb_value op t : op_tsb op -> aget (B "value") op = Some (Some t) -> tsb t.
Proof.
  unfold op_tsb. intros F E. apply aget_In in E. rewrite Forall_forall in F. exact (F _ E).
Qed.

(* the bridge on one operation.  validate_operation is what DecodePatch checks (path present and a
   string; from present for move/copy; value present for add/replace): without it
   Domain.op_in_domain reads a missing path as the empty pointer (str_or_empty) *)
Theorem op_in_domain_op_dom op :
  validate_operation op = true -> op_in_domain op = true -> op_small op = true ->
  values_nodup op = true -> value_lit op = true -> op_tsb op ->
  op_dom op.
Proof.
  intros V D S N L TS. unfold op_dom. split.
  { unfold val_good. unfold values_nodup in N. unfold value_lit in L.
    destruct (aget (B "value") op) as [[t|]|] eqn:Ev; auto. split; [exact N|]. split; [exact L|].
    eapply op_tsb_value; eauto. }
  unfold validate_operation in V. apply andb_prop in V as [V1 V2].
  destruct (op_str op (B "path")) as [path|e|] eqn:Hp; try discriminate V2.
  exists path. split; [reflexivity|].
  unfold op_in_domain in D. unfold op_small in S. rewrite Hp in D, S. cbn [str_or_empty] in D, S.
  apply andb_prop in D as [D1 D2]. apply andb_prop in S as [S1 S2].
  assert (P : path = [] \/ ptr_ok path).
  { apply pointer_dom_iff; [eapply op_tsb_str; eauto | rewrite D1, S1; reflexivity]. }
  destruct (op_kind op) eqn:K.
  - (* add *)
    destruct P as [->|P]; [right | left; exact P]. split; [reflexivity|].
    apply pd_value_present; [exact V1|]. cbn [is_empty andb] in D2. apply negb_true_iff in D2. exact D2.
  - (* remove *)
    destruct P as [->|P]; [discriminate D2 | exact P].
  - (* replace *)
    destruct P as [->|P]; [right | left; exact P]. split; [reflexivity|].
    apply pd_value_present; [exact V1|]. cbn [is_empty andb] in D2. apply negb_true_iff in D2. exact D2.
  - (* move *)
    apply andb_prop in D2 as [D3 D4]. apply pd_is_empty_false in D4.
    split; [destruct P; [congruence | assumption]|].
    destruct (op_str op (B "from")) as [from|e|] eqn:Hf; try discriminate V1.
    exists from. split; [reflexivity|]. cbn [str_or_empty] in D3, S2.
    destruct (proj1 (pointer_dom_iff from (op_tsb_str op (B "from") from TS Hf))) as [E|E]; auto. rewrite D3, S2. reflexivity.
  - (* copy *)
    apply andb_prop in D2 as [D3 D4]. apply pd_is_empty_false in D4.
    split; [destruct P; [congruence | assumption]|].
    destruct (op_str op (B "from")) as [from|e|] eqn:Hf; try discriminate V1.
    exists from. split; [reflexivity|]. cbn [str_or_empty] in D3, S2.
    destruct (proj1 (pointer_dom_iff from (op_tsb_str op (B "from") from TS Hf))) as [E|E]; auto. rewrite D3, S2. reflexivity.
  - (* test *)
    destruct P; auto.
  - discriminate D2.
Qed.

(* ---- what DecodePatch guarantees ---- *)
Definition pd_opt_lit (v : option tjson) : Prop := match v with Some t => tlit t = true | None => True end.

Lemma pd_operation_of_lit ms :
  forallb (fun kv => tlit (snd kv)) ms = true ->
  Forall (fun kv : bytes * option tjson => pd_opt_lit (snd kv)) (operation_of ms).
Proof.
  unfold operation_of. intro H.
  assert (G : Forall (fun kv : bytes * option tjson => pd_opt_lit (snd kv)) []) by constructor.
  revert G. generalize (@nil (bytes * option tjson)).
  induction ms as [|[k v] ms IH]; intros acc G; [exact G|].
  cbn [forallb snd] in H. apply andb_prop in H as [H1 H2].
  apply (IH H2). apply Forall_aset; [exact G|]. intro k'. cbn [snd]. destruct v; simpl; auto.
Qed.

Lemma pd_operation_of_value_lit ms :
  forallb (fun kv => tlit (snd kv)) ms = true -> value_lit (operation_of ms) = true.
Proof.
  intro H. apply pd_operation_of_lit in H. unfold value_lit.
  destruct (aget (B "value") (operation_of ms)) as [[t|]|] eqn:E; auto.
  apply aget_In in E. rewrite Forall_forall in H. apply (H _ E).
Qed.

Lemma pd_decode_patch_t t p :
  tlit t = true -> decode_patch_t t = Some p ->
  forallb validate_operation p = true /\ forallb value_lit p = true.
Proof.
  destruct t as [| | |lit|body|els|ms]; cbn [decode_patch_t]; try discriminate.
  - intros _ H. inversion H. split; reflexivity.
  - intros L. destruct (forallb _ els); [|discriminate].
    destruct (forallb validate_operation _) eqn:V; [|discriminate]. intro H. inversion H; subst. clear H.
    split; [exact V|]. clear V. cbn [tlit] in L.
    induction els as [|e els IH]; [reflexivity|]. cbn [forallb map] in *. apply andb_prop in L as [L1 L2].
    rewrite (IH L2), andb_true_r.
    destruct e; try reflexivity. apply pd_operation_of_value_lit. exact L1.
Qed.

Theorem api_decode_valid bs p :
  api_decode bs = Some p -> forallb validate_operation p = true /\ forallb value_lit p = true.
Proof.
  unfold api_decode. destruct (parse bs) as [t|] eqn:P; [|discriminate].
  apply pd_decode_patch_t. eapply parse_tlit; eauto.
Qed.

(* every decoded patch satisfies op_tsb *)
Lemma pd_operation_of_tsb ms : tsb (TObj ms) -> op_tsb (operation_of ms).
Proof.
  unfold operation_of, op_tsb. intro H. apply tsb_obj_vals in H.
  assert (G : Forall (fun kv : bytes * option tjson => match snd kv with Some t => tsb t | None => True end) []) by constructor.
  revert G. generalize (@nil (bytes * option tjson)).
  induction ms as [|[k v] ms IH]; intros acc G; [exact G|].
  inversion H as [|? ? H1 H2]; subst. cbn [snd] in H1.
  apply (IH H2). apply Forall_aset; [exact G|]. intro k'. cbn [snd]. destruct v; simpl; auto.
Qed.

Theorem api_decode_tsb bs p : api_decode bs = Some p -> Forall op_tsb p.
Proof.
  unfold api_decode. destruct (parse bs) as [t|] eqn:P; [|discriminate].
  apply parse_tsb in P. destruct t as [| | |lit|body|els|ms]; cbn [decode_patch_t]; try discriminate.
  - intro H. inversion H. constructor.
  - destruct (forallb _ els); [|discriminate].
    destruct (forallb validate_operation _); [|discriminate]. intro H. inversion H; subst. clear H.
    apply tsb_arr in P. rewrite Forall_map. rewrite Forall_forall in *. intros e He. specialize (P e He).
    destruct e; try (unfold op_tsb; constructor). apply pd_operation_of_tsb. exact P.
Qed.

(* ---- the bridge on a decoded patch ---- *)
Theorem decoded_in_domain_op_dom bs p :
  api_decode bs = Some p -> in_domain_C01 p = true -> forallb op_small p = true -> Forall op_dom p.
Proof.
  intros Dc D S. pose proof (api_decode_tsb _ _ Dc) as TS.
  apply api_decode_valid in Dc as [V L]. unfold in_domain_C01 in D. apply andb_prop in D as [D N].
  rewrite forallb_forall in V, L, D, N, S. rewrite Forall_forall in TS. apply Forall_forall. intros op Hin.
  apply op_in_domain_op_dom; auto.
Qed.

(* C01's main theorem with its domain stated by the boolean predicates the harness evaluates *)
Theorem C01_on_boolean_domain o indent patch p doc t :
  plain_opts o ->
  api_decode patch = Some p -> in_domain_C01 p = true -> forallb op_small p = true ->
  parse doc = Some t -> root_container t = true -> tnodup t = true ->
  copies_fit (dia o) (den t) (map den_op p) = true ->
  match rfc_apply (dia o) (den t) (map den_op p) with
  | Done j => exists n, api_apply o indent p doc = ROut (output o indent (render (o_esc o) n)) /\ aval n = j /\ ngood n
  | Failed i cz => exists e, api_apply o indent p doc = RErr (Some i) e /\ cause_rel cz e
  end.
Proof.
  intros PO Dc D S P R N F. apply api_apply_sim with (t := t); auto.
  eapply decoded_in_domain_op_dom; eauto.
Qed.

(* and when a copy the reference run reaches is too deep for deepCopy: an error, at an operation *)
Theorem C01_on_boolean_domain_too_deep o indent patch p doc t :
  plain_opts o ->
  api_decode patch = Some p -> in_domain_C01 p = true -> forallb op_small p = true ->
  parse doc = Some t -> root_container t = true -> tnodup t = true ->
  copies_fit (dia o) (den t) (map den_op p) = false ->
  match rfc_apply (dia o) (den t) (map den_op p) with
  | Done _ => exists j, api_apply o indent p doc = RErr (Some j) EInvalid
  | Failed k cz => exists j e, api_apply o indent p doc = RErr (Some j) e /\ (e = EInvalid \/ (j = k /\ cause_rel cz e))
  end.
Proof.
  intros PO Dc D S P R N F. apply api_apply_copy_too_deep with (t := t); auto.
  eapply decoded_in_domain_op_dom; eauto.
Qed.

(* ---- COUNTEREXAMPLES at the level of operations ---- *)
(* a decoded (hence validated) patch that the harness's boolean domain in_domain_C01 admits but
   that is outside op_dom: the token is a canonical spelling that does not fit int64.  (On this
   input the model and the reference still agree - both report an index error - so the gap is in
   the stated hypothesis tok_small of the simulation, not an observed divergence.) *)
Example in_domain_C01_not_op_dom :
  match api_decode (B "[{""op"":""remove"",""path"":""/a/99999999999999999999""}]") with
  | Some p => in_domain_C01 p = true /\ forallb op_small p = false /\ ~ Forall op_dom p
  | None => False
  end.
Proof.
  destruct (api_decode _) as [p|] eqn:E; vm_compute in E; [|discriminate E].
  inversion E; subst p. clear E.
  split; [vm_compute; reflexivity|]. split; [vm_compute; reflexivity|].
  intro H. inversion H as [|? ? Hop _]; subst. clear H.
  destruct Hop as [_ [path [Hp K]]].
  vm_compute in Hp. inversion Hp; subst path. clear Hp.
  match type of K with match ?k with _ => _ end => assert (Ek : k = KRemove) by (vm_compute; reflexivity); rewrite Ek in K end.
  destruct K as [r [Er F]]. inversion Er; subst r. clear Er.
  apply pd_tokens_iff in F as [F _]. vm_compute in F. discriminate F.
Qed.

(* without DecodePatch's validation the boolean domain reads a missing path as the empty pointer *)
Example op_in_domain_needs_validation :
  let op : operation := [(B "op", Some (TStr (B "add"))); (B "value", Some (TNum (B "1")))] in
  op_in_domain op = true /\ values_nodup op = true /\ op_small op = true /\
  validate_operation op = false /\ ~ op_dom op.
Proof.
  repeat (split; [vm_compute; reflexivity|]).
  intros [_ [path [Hp _]]]. vm_compute in Hp. discriminate Hp.
Qed.

(* non-vacuity of the bridge: a patch with escapes, a negative index and '-' is in the boolean
   domain, and the bridge gives op_dom for it *)
Example bridge_nonvacuous :
  match api_decode (B "[{""op"":""add"",""path"":""/x~1y/-"",""value"":null},{""op"":""test"",""path"":""/a~01/-1"",""value"":1},{""op"":""move"",""from"":""/a/0"",""path"":""/b/10""}]") with
  | Some p => in_domain_C01 p = true /\ forallb op_small p = true /\ Forall op_dom p
  | None => False
  end.
Proof.
  destruct (api_decode _) as [p|] eqn:E; [|vm_compute in E; discriminate E].
  assert (D : in_domain_C01 p = true /\ forallb op_small p = true).
  { pose proof E as E'. vm_compute in E'. inversion E'; subst p. split; vm_compute; reflexivity. }
  destruct D as [D S]. split; auto. split; auto. eapply decoded_in_domain_op_dom; eauto.
Qed.

(* ---- why tok_small cannot simply be dropped from tok_dom ---- *)
(* On canonical numbers that do not fit 64 bits, model and reference agree on every slice that can
   exist in Go (shorter than 2^63): strconv.Atoi fails or the index is out of bounds, and the
   reference's index is out of bounds too.  The three index lemmas of ImplFacts.v hold with the
   length bound IN PLACE OF tok_small: *)
Theorem resolve_idx_get_ref_len o {A} (l : list A) t :
  Z.of_nat (length l) <= int64_max -> tok_canonical t ->
  match idx_existing (dia o) (Rfc6902.zlen l) t with
  | Some i => resolve_idx_get o (ImplV5.zlen l) t = Ok i /\ (i < length l)%nat
  | None => exists e, resolve_idx_get o (ImplV5.zlen l) t = Err e /\ (e = EInvalidIndex \/ e = EAtoi)
  end.
Proof.
  intros Hl [[n Hn]|[k Hk]]; unfold idx_existing, resolve_idx_get, Rfc6902.zlen, ImplV5.zlen, dia in *; simpl.
  - rewrite Hn. pose proof (canonical_nat_digits _ _ Hn) as [_ [N0 _]].
    destruct (n <? Z.of_nat (length l)) eqn:E.
    + apply Z.ltb_lt in E. rewrite (atoi_canonical_nat _ _ Hn) by lia.
      replace (n <? 0) with false by (symmetry; apply Z.ltb_ge; lia).
      replace (Z.of_nat (length l) <=? n) with false by (symmetry; apply Z.leb_gt; lia).
      split; auto. lia.
    + apply Z.ltb_ge in E. destruct (Z_le_gt_dec n int64_max).
      * rewrite (atoi_canonical_nat _ _ Hn) by lia.
        replace (n <? 0) with false by (symmetry; apply Z.ltb_ge; lia).
        replace (Z.of_nat (length l) <=? n) with true by (symmetry; apply Z.leb_le; lia). eauto.
      * rewrite (atoi_canonical_nat_big _ _ Hn) by lia. eauto.
  - destruct (canonical_nat t) eqn:Hn; [exfalso; eapply canonical_nat_not_neg; eauto|]. rewrite Hk.
    destruct (Z_le_gt_dec k int64_max).
    + destruct (atoi_canonical_neg _ _ Hk) as [At Kp]; auto. rewrite At.
      replace (- k <? 0) with true by (symmetry; apply Z.ltb_lt; lia).
      destruct (o_neg o); simpl; [|eauto].
      destruct (k <=? Z.of_nat (length l)) eqn:E.
      * apply Z.leb_le in E.
        replace (- k <? - Z.of_nat (length l)) with false by (symmetry; apply Z.ltb_ge; lia).
        replace (Z.of_nat (length l) <=? - k + Z.of_nat (length l)) with false by (symmetry; apply Z.leb_gt; lia).
        split; [f_equal; f_equal; lia | lia].
      * apply Z.leb_gt in E.
        replace (- k <? - Z.of_nat (length l)) with true by (symmetry; apply Z.ltb_lt; lia). eauto.
    + assert ((k <=? Z.of_nat (length l)) = false) by (apply Z.leb_gt; lia). rewrite H, andb_false_r.
      destruct (atoi_canonical_neg_big _ _ Hk) as [At|At]; [lia| |]; rewrite At; [eauto|].
      replace (- k <? 0) with true by (symmetry; apply Z.ltb_lt; lia).
      destruct (o_neg o); simpl; [|eauto].
      replace (- k <? - Z.of_nat (length l)) with true by (symmetry; apply Z.ltb_lt; lia). eauto.
Qed.

Theorem ary_add_ref_len o (ns : list node) t v :
  Z.of_nat (length ns) < int64_max -> add_tok t ->
  match idx_insert (dia o) (Rfc6902.zlen ns) t with
  | Some i => ary_add o ns t v = Ok (insert_at i v ns) /\ (i <= length ns)%nat
  | None => exists e, ary_add o ns t v = Err e /\ (e = EInvalidIndex \/ e = EAtoi)
  end.
Proof.
  intros Hl [->|[[n Hn]|[k Hk]]]; unfold idx_insert, ary_add, Rfc6902.zlen, ImplV5.zlen, dia, insert_at in *; simpl.
  - split; [|lia]. rewrite Nat2Z.id. now rewrite firstn_all, skipn_all.
  - rewrite (canonical_not_dash _ _ Hn), Hn. pose proof (canonical_nat_digits _ _ Hn) as [_ [N0 _]].
    destruct (n <=? Z.of_nat (length ns)) eqn:E.
    + apply Z.leb_le in E. rewrite (atoi_canonical_nat _ _ Hn) by lia.
      replace (Z.of_nat (length ns) + 1 <=? n) with false by (symmetry; apply Z.leb_gt; lia).
      replace (n <? 0) with false by (symmetry; apply Z.ltb_ge; lia).
      split; auto. lia.
    + apply Z.leb_gt in E. destruct (Z_le_gt_dec n int64_max).
      * rewrite (atoi_canonical_nat _ _ Hn) by lia.
        replace (Z.of_nat (length ns) + 1 <=? n) with true by (symmetry; apply Z.leb_le; lia). eauto.
      * rewrite (atoi_canonical_nat_big _ _ Hn) by lia. eauto.
  - rewrite (canonical_neg_not_dash _ _ Hk).
    destruct (canonical_nat t) eqn:Hn; [exfalso; eapply canonical_nat_not_neg; eauto|]. rewrite Hk.
    destruct (Z_le_gt_dec k int64_max).
    + destruct (atoi_canonical_neg _ _ Hk) as [At Kp]; auto. rewrite At.
      replace (Z.of_nat (length ns) + 1 <=? - k) with false by (symmetry; apply Z.leb_gt; lia).
      replace (- k <? 0) with true by (symmetry; apply Z.ltb_lt; lia).
      destruct (o_neg o); simpl; [|eauto].
      destruct (k <=? Z.of_nat (length ns) + 1) eqn:E.
      * apply Z.leb_le in E.
        replace (- k <? - (Z.of_nat (length ns) + 1)) with false by (symmetry; apply Z.ltb_ge; lia).
        replace (Z.of_nat (length ns) <? - k + (Z.of_nat (length ns) + 1)) with false by (symmetry; apply Z.ltb_ge; lia).
        replace (Z.to_nat (- k + (Z.of_nat (length ns) + 1))) with (Z.to_nat (Z.of_nat (length ns) + 1 - k)) by (f_equal; lia).
        split; auto. lia.
      * apply Z.leb_gt in E.
        replace (- k <? - (Z.of_nat (length ns) + 1)) with true by (symmetry; apply Z.ltb_lt; lia). eauto.
    + assert ((k <=? Z.of_nat (length ns) + 1) = false) by (apply Z.leb_gt; lia).
      rewrite H, andb_false_r.
      destruct (atoi_canonical_neg_big _ _ Hk) as [At|At]; [lia| |]; rewrite At; [eauto|].
      replace (Z.of_nat (length ns) + 1 <=? - k) with false by (symmetry; apply Z.leb_gt; lia).
      replace (- k <? 0) with true by (symmetry; apply Z.ltb_lt; lia).
      destruct (o_neg o); simpl; [|eauto].
      replace (- k <? - (Z.of_nat (length ns) + 1)) with true by (symmetry; apply Z.ltb_lt; lia). eauto.
Qed.

Theorem ary_remove_ref_len o (ns : list node) t :
  o_allow o = false -> Z.of_nat (length ns) <= int64_max -> tok_canonical t ->
  match idx_existing (dia o) (Rfc6902.zlen ns) t with
  | Some i => ary_remove o ns t = Ok (remove_at i ns) /\ (i < length ns)%nat
  | None => exists e, ary_remove o ns t = Err e /\ (e = EInvalidIndex \/ e = EAtoi)
  end.
Proof.
  intros Al Hl [[n Hn]|[k Hk]]; unfold idx_existing, ary_remove, Rfc6902.zlen, ImplV5.zlen, dia, remove_at in *; simpl; rewrite Al.
  - rewrite Hn. pose proof (canonical_nat_digits _ _ Hn) as [_ [N0 _]].
    destruct (n <? Z.of_nat (length ns)) eqn:E.
    + apply Z.ltb_lt in E. rewrite (atoi_canonical_nat _ _ Hn) by lia.
      replace (Z.of_nat (length ns) <=? n) with false by (symmetry; apply Z.leb_gt; lia).
      replace (n <? 0) with false by (symmetry; apply Z.ltb_ge; lia).
      split; auto. lia.
    + apply Z.ltb_ge in E. destruct (Z_le_gt_dec n int64_max).
      * rewrite (atoi_canonical_nat _ _ Hn) by lia.
        replace (Z.of_nat (length ns) <=? n) with true by (symmetry; apply Z.leb_le; lia). eauto.
      * rewrite (atoi_canonical_nat_big _ _ Hn) by lia. eauto.
  - destruct (canonical_nat t) eqn:Hn; [exfalso; eapply canonical_nat_not_neg; eauto|]. rewrite Hk.
    destruct (Z_le_gt_dec k int64_max).
    + destruct (atoi_canonical_neg _ _ Hk) as [At Kp]; auto. rewrite At.
      replace (Z.of_nat (length ns) <=? - k) with false by (symmetry; apply Z.leb_gt; lia).
      replace (- k <? 0) with true by (symmetry; apply Z.ltb_lt; lia).
      destruct (o_neg o); simpl; [|eauto].
      destruct (k <=? Z.of_nat (length ns)) eqn:E.
      * apply Z.leb_le in E.
        replace (- k <? - Z.of_nat (length ns)) with false by (symmetry; apply Z.ltb_ge; lia).
        replace (Z.to_nat (- k + Z.of_nat (length ns))) with (Z.to_nat (Z.of_nat (length ns) - k)) by (f_equal; lia).
        split; auto. lia.
      * apply Z.leb_gt in E.
        replace (- k <? - Z.of_nat (length ns)) with true by (symmetry; apply Z.ltb_lt; lia). eauto.
    + assert ((k <=? Z.of_nat (length ns)) = false) by (apply Z.leb_gt; lia). rewrite H, andb_false_r.
      destruct (atoi_canonical_neg_big _ _ Hk) as [At|At]; [lia| |]; rewrite At; [eauto|].
      replace (Z.of_nat (length ns) <=? - k) with false by (symmetry; apply Z.leb_gt; lia).
      replace (- k <? 0) with true by (symmetry; apply Z.ltb_lt; lia).
      destruct (o_neg o); simpl; [|eauto].
      replace (- k <? - Z.of_nat (length ns)) with true by (symmetry; apply Z.ltb_lt; lia). eauto.
Qed.

(* ... but WITHOUT a bound on the length they are false in Coq, where lists of 2^63 and more elements
   exist: the canonical index 2^63 is in range for such a list (the reference resolves it), while
   strconv.Atoi rejects its spelling.  So tok_small can be traded for a length bound, not dropped;
   and the length bound is not an invariant of the run (add lengthens an array, ensurePathExists
   pads one up to the index asked for), so it would have to be carried as a budget
   (length + remaining operations <= 2^63-1) through every statement of the simulation.  The
   simulation therefore keeps tok_small, a condition on the patch alone. *)
Theorem big_index_needs_length_bound o {A} (l : list A) :
  let t := B "9223372036854775808" in
  tok_canonical t /\ ~ tok_small t /\
  (int64_max + 1 < Z.of_nat (length l) ->
   idx_existing (dia o) (Rfc6902.zlen l) t = Some (Z.to_nat (int64_max + 1)) /\
   resolve_idx_get o (ImplV5.zlen l) t = Err EAtoi).
Proof.
  intro t.
  assert (C : canonical_nat t = Some (int64_max + 1)) by (vm_compute; reflexivity).
  assert (At : atoi t = None) by (vm_compute; reflexivity).
  split; [left; eauto|]. split.
  - intros [S _]. specialize (S _ C). lia.
  - intro Hl. unfold idx_existing, resolve_idx_get, Rfc6902.zlen. rewrite C, At.
    replace (int64_max + 1 <? Z.of_nat (length l)) with true by (symmetry; apply Z.ltb_lt; lia). split; reflexivity.
Qed.

Print Assumptions utf8_pointer_tokens.
Print Assumptions resolve_idx_get_ref_len.
Print Assumptions ary_add_ref_len.
Print Assumptions ary_remove_ref_len.
Print Assumptions big_index_needs_length_bound.
Print Assumptions api_decode_tsb.
Print Assumptions decode_token_atoi.
Print Assumptions decode_token_no_new_canonical.
Print Assumptions token_dom_iff.
Print Assumptions pointer_dom_iff.
Print Assumptions op_in_domain_op_dom.
Print Assumptions api_decode_valid.
Print Assumptions decoded_in_domain_op_dom.
Print Assumptions C01_on_boolean_domain.
Print Assumptions token_ok_not_tok_dom_big.
Print Assumptions token_ok_not_tok_dom_min64.
Print Assumptions in_domain_C01_not_op_dom.
Print Assumptions op_in_domain_needs_validation.
Print Assumptions bridge_nonvacuous.
