(* ApplySim.v — the simulation: the model of v5/patch.go (ImplV5: lazily parsed nodes, ordered key
   lists, in-place index arithmetic, the pointer walk of findObject) refines the ORDERED RFC 6902
   reference (Rfc6902.v) on the values the nodes denote (Abs.aval), for every document, every
   operation sequence in the stated domain and both SupportNegativeIndices settings.
   One side condition follows the reference run (Depth.copies_fit): deepCopy refuses a source value
   nested deeper than the decoder's limit; where it holds the refinement is as before (step_sim,
   apply_sim, api_apply_sim), where it fails the copy is an error (step_copy_too_deep,
   apply_copy_too_deep, api_apply_copy_too_deep). *)
From Coq Require Import Lia.
From JP Require Import Bytes Json Text Strings Den Pointer Rfc6902 ImplV5 DecodeFacts JsonFacts Abs EqualFacts
                       ImplFacts RefFacts ApplyFacts Codec StrInv Depth.

(* ---- good nodes and containers ---- *)
(* nwf: no duplicate names, key list and map agree; nlit: number literals are number literals;
   nstr (StrInv.v): raw messages spell their strings with bodies the scanner accepts, the member
   names of parsed objects are valid UTF-8 (what deepCopy's re-encoding needs to be a round trip) *)
Definition ngood (n : node) : Prop := nwf n /\ nlit n /\ nstr n.
Definition cval (c : con) : ojson := aval (node_of_con c).
Definition cgood (c : con) : Prop :=
  ngood (node_of_con c) /\ match c with KDocNil _ _ => False | _ => True end.

Lemma ngood_nil : ngood NNil. Proof. repeat split. Qed.

Lemma Forall_ngood_split (l : list node) : Forall ngood l <-> Forall nwf l /\ Forall nlit l /\ Forall nstr l.
Proof.
  unfold ngood. rewrite !Forall_forall. split.
  - intro H. repeat split; intros x Hx; apply (H x Hx).
  - intros [H1 [H2 H3]] x Hx. repeat split; auto.
Qed.

Lemma ngood_ary ns : ngood (NAry ns) <-> Forall ngood ns.
Proof. unfold ngood at 1. rewrite nwf_ary, nlit_ary, nstr_ary, Forall_ngood_split. reflexivity. Qed.

(* the names in the map are those of the key list (keys_agree): only the key list is mentioned *)
Lemma ngood_doc keys obj :
  ngood (NDoc keys obj) <-> keys_agree keys obj /\ Forall utf8 keys /\ Forall (fun kv => ngood (snd kv)) obj.
Proof.
  unfold ngood. rewrite nwf_doc, nlit_doc, nstr_doc, !Forall_forall. split.
  - intros [[A W] [L [U S]]]. split; [exact A|]. split; [exact U|].
    intros kv H. split; [apply (W kv H) | split; [apply (L kv H) | apply (S kv H)]].
  - intros [A [U G]]. split; [split; [exact A|]; intros kv H; apply (G kv H)|].
    split; [intros kv H; apply (G kv H)|]. split; [exact U|].
    intros kv H. split; [|apply (G kv H)]. apply U. destruct A as [_ [_ A]]. apply A. apply in_map. exact H.
Qed.

Lemma ngood_raw t : ngood (NRaw t) <-> tnodup t = true /\ tlit t = true /\ tsb t.
Proof. reflexivity. Qed.

Lemma Forall_utf8_doc_set keys (obj : list (bytes * node)) k v :
  Forall utf8 keys -> utf8 k -> Forall utf8 (fst (doc_set keys obj k v)).
Proof.
  intros U Uk. unfold doc_set. cbn [fst]. destruct (kmem k keys); [exact U|].
  apply Forall_app. split; [exact U | constructor; [exact Uk | constructor]].
Qed.

Lemma Forall_kdel1 (P : bytes -> Prop) k keys : Forall P keys -> Forall P (kdel1 k keys).
Proof.
  induction 1 as [|x l Hx Hl IH]; simpl; [constructor|]. destruct (bseq k x); [assumption | constructor; assumption].
Qed.

(* the token domain, on decoded reference tokens: non-empty; numeric spellings are canonical
   (0, a nonzero digit followed by digits, or '-' followed by such a positive number) and fit 64 bits
   (tok_small cannot be dropped without bounding array lengths: PointerDomain.v,
   big_index_needs_length_bound); the token is valid UTF-8 (add makes it a member name, which copy
   re-encodes; true of every token of a decoded patch: PointerDomain.v, utf8_pointer_tokens) *)
Definition tok_dom (t : bytes) : Prop :=
  t <> [] /\ tok_small t /\ (forall z, atoi t = Some z -> tok_canonical t) /\ utf8 t.

Lemma tok_dom_utf8 t : tok_dom t -> utf8 t.
Proof. intros [_ [_ [_ U]]]. exact U. Qed.

Lemma tok_dom_cases t : tok_dom t ->
  tok_canonical t \/ (atoi t = None /\ canonical_nat t = None /\ canonical_neg t = None).
Proof.
  intros [NE [[S1 S2] [C _]]]. destruct (atoi t) as [z|] eqn:A; [left; eauto|]. right. split; auto. split.
  - destruct (canonical_nat t) as [n|] eqn:E; auto. rewrite (atoi_canonical_nat _ _ E (S1 _ eq_refl)) in A. discriminate.
  - destruct (canonical_neg t) as [k|] eqn:E; auto. destruct (atoi_canonical_neg _ _ E (S2 _ eq_refl)) as [A' _]. congruence.
Qed.

Lemma nth_map_aval ns i : nth i (map aval ns) ONull = aval (nth i ns NNil).
Proof. change ONull with (aval NNil). apply map_nth. Qed.

Lemma map_set_at {A B} (f : A -> B) i v l : map f (set_at i v l) = set_at i (f v) (map f l).
Proof. unfold set_at. rewrite map_app, map_cons, firstn_map, skipn_map. reflexivity. Qed.
Lemma map_insert_at {A B} (f : A -> B) i v l : map f (insert_at i v l) = insert_at i (f v) (map f l).
Proof. unfold insert_at. rewrite map_app, map_cons, firstn_map, skipn_map. reflexivity. Qed.
Lemma map_remove_at {A B} (f : A -> B) i l : map f (remove_at i l) = remove_at i (map f l).
Proof. unfold remove_at. rewrite map_app, firstn_map, skipn_map. reflexivity. Qed.

Lemma Forall_firstn_skipn {A} (P : A -> Prop) n l : Forall P l -> Forall P (firstn n l) /\ Forall P (skipn n l).
Proof. intro H. rewrite <- (firstn_skipn n l) in H. apply Forall_app in H. exact H. Qed.
Lemma Forall_firstn {A} (P : A -> Prop) n l : Forall P l -> Forall P (firstn n l).
Proof. intro H. apply (Forall_firstn_skipn P n l H). Qed.
Lemma Forall_skipn {A} (P : A -> Prop) n l : Forall P l -> Forall P (skipn n l).
Proof. intro H. apply (Forall_firstn_skipn P n l H). Qed.
Lemma Forall_set_at {A} (P : A -> Prop) i v l : Forall P l -> P v -> Forall P (set_at i v l).
Proof. intros. unfold set_at. apply Forall_app. split; [apply Forall_firstn; auto | constructor; auto; apply Forall_skipn; auto]. Qed.
Lemma Forall_insert_at {A} (P : A -> Prop) i v l : Forall P l -> P v -> Forall P (insert_at i v l).
Proof. intros. unfold insert_at. apply Forall_app. split; [apply Forall_firstn; auto | constructor; auto; apply Forall_skipn; auto]. Qed.
Lemma Forall_remove_at {A} (P : A -> Prop) i l : Forall P l -> Forall P (remove_at i l).
Proof. intros. unfold remove_at. apply Forall_app. split; [apply Forall_firstn; auto | apply Forall_skipn; auto]. Qed.

Lemma Forall_nth {A} (P : A -> Prop) l i d : Forall P l -> (i < length l)%nat -> P (nth i l d).
Proof. rewrite Forall_forall. intros H L. apply H. apply nth_In. exact L. Qed.

(* ---- get ---- *)
Lemma con_get_sim o c key :
  cgood c -> tok_dom key ->
  match child_at (dia o) (cval c) key with
  | Some j => exists v, con_get o c key = Ok v /\ aval v = j /\ ngood v
  | None => exists e, con_get o c key = Err e /\
            match c with KDoc _ _ _ => e = EMissing | _ => e = EInvalidIndex \/ e = EAtoi end
  end.
Proof.
  intros [G NK] D. destruct c as [self keys obj|self|self ns]; [| contradiction |].
  - apply ngood_doc in G as [Ag [Uk Gv]]. unfold cval. cbn [node_of_con]. rewrite aval_doc. cbn [child_at con_get].
    destruct key as [|b key]; [destruct D as [NE _]; congruence|].
    rewrite (aget_abs_members_agree keys obj (b :: key) Ag).
    destruct (aget (b :: key) obj) as [v|] eqn:E; cbn [option_map]; [|eauto].
    exists v. repeat split; auto; apply aget_In in E; rewrite Forall_forall in Gv; apply (Gv _ E).
  - apply ngood_ary in G. unfold cval. cbn [node_of_con aval child_at con_get].
    destruct key as [|b key]; [destruct D as [NE _]; congruence|].
    unfold Rfc6902.zlen. rewrite map_length.
    destruct (tok_dom_cases _ D) as [Can|[A [C1 C2]]].
    + pose proof (resolve_idx_get_ref o ns (b :: key) (proj1 (proj2 D)) Can) as R.
      unfold Rfc6902.zlen in R.
      destruct (idx_existing (dia o) (Z.of_nat (length ns)) (b :: key)) as [i|].
      * destruct R as [R L]. rewrite R. exists (nth i ns NNil). split; auto. split; [symmetry; apply nth_map_aval|].
        apply Forall_nth; auto.
      * destruct R as [e [R Re]]. rewrite R. eauto.
    + unfold idx_existing. rewrite C1, C2. unfold resolve_idx_get. rewrite A. eauto.
Qed.

(* ---- lazy parsing of the child the walk steps into ---- *)
Lemma tlit_members ms : tlit (TObj ms) = true -> Forall (fun kv => tlit (snd kv) = true) ms.
Proof. simpl. rewrite forallb_forall, Forall_forall. auto. Qed.

Lemma into_con_sim v :
  ngood v ->
  if is_container (aval v)
  then exists ch, into_con v = Some ch /\ cval ch = aval v /\ cgood ch
  else into_con v = None.
Proof.
  intros [W [L S]]. destruct v as [|t|keys obj|ns]; cbn [aval into_con].
  - reflexivity.
  - apply nwf_raw in W. unfold nlit in L. apply nstr_raw in S. destruct t; try reflexivity.
    + (* array *) simpl is_container. pose proof (parsed_arr l W) as [P1 P2].
      exists (KAry NNil (map child l)). split; auto. split; [exact P1|]. split; [|exact I]. split; [exact P2|].
      split; [|apply nstr_parsed_arr; exact S].
      apply nlit_ary. rewrite Forall_map. simpl in L. rewrite forallb_forall in L. apply Forall_forall.
      intros t Ht. apply nlit_child. auto.
    + (* object *) pose proof (den_obj_nodup ms W) as D. rewrite D. simpl is_container.
      pose proof (parsed_obj ms W) as P. pose proof W as W'. apply tnodup_obj in W' as [N F].
      rewrite doc_of_nodup in * by exact N. destruct P as [P1 P2].
      eexists. split; [reflexivity|]. split; [unfold cval; cbn [node_of_con]; rewrite P1; exact D|].
      split; [|exact I]. split; [exact P2|]. cbn [node_of_con]. split; [|apply nstr_parsed_obj; exact S].
      apply nlit_doc. rewrite Forall_map.
      apply tlit_members in L. rewrite Forall_forall in *. intros kv Hk. apply nlit_child. auto.
  - cbn [is_container]. exists (KDoc NNil keys obj). split; auto. split; [reflexivity|].
    split; [split; auto | exact I].
  - simpl is_container. exists (KAry NNil ns). split; auto. split; [reflexivity|]. split; [split; auto | exact I].
Qed.

(* ---- putting a child back ---- *)
Lemma set_at_same {A} i (l : list A) d : (i < length l)%nat -> set_at i (nth i l d) l = l.
Proof.
  unfold set_at. revert l. induction i as [|i IH]; intros [|x l] H; simpl in *; try lia; auto.
  f_equal. apply IH. lia.
Qed.

Lemma idx_existing_lt d {A} (l : list A) t i : idx_existing d (Rfc6902.zlen l) t = Some i -> (i < length l)%nat.
Proof.
  unfold idx_existing, Rfc6902.zlen. destruct (canonical_nat t) as [n|] eqn:E.
  - pose proof (canonical_nat_digits _ _ E) as [_ [N0 _]].
    destruct (n <? Z.of_nat (length l))%Z eqn:L; try discriminate. apply Z.ltb_lt in L. intro H; inversion H. lia.
  - destruct (canonical_neg t) as [k|] eqn:E2; try discriminate.
    pose proof (canonical_neg_inv _ _ E2) as [P _].
    destruct (neg_idx d && (k <=? Z.of_nat (length l))%Z) eqn:L; try discriminate.
    apply andb_prop in L as [_ L]. apply Z.leb_le in L. intro H; inversion H. lia.
Qed.

Lemma put_child_same d j t x : child_at d j t = Some x -> put_child d j t x = j.
Proof.
  destruct j; simpl; try discriminate.
  - destruct (idx_existing d (Rfc6902.zlen l) t) as [i|] eqn:E; try discriminate. intro H; inversion H; subst.
    f_equal. apply set_at_same. eapply idx_existing_lt; eauto.
  - intro H. f_equal. apply aset_same. exact H.
Qed.

Lemma resolve_idx_agrees o (ns : list node) key i :
  tok_dom key -> resolve_idx_get o (ImplV5.zlen ns) key = Ok i ->
  idx_existing (dia o) (Rfc6902.zlen (map aval ns)) key = Some i.
Proof.
  intros D R. unfold Rfc6902.zlen. rewrite map_length.
  destruct (tok_dom_cases _ D) as [Can|[A _]].
  - pose proof (resolve_idx_get_ref o ns key (proj1 (proj2 D)) Can) as Q. unfold Rfc6902.zlen in Q.
    destruct (idx_existing (dia o) (Z.of_nat (length ns)) key) as [i'|].
    + destruct Q as [Q _]. rewrite Q in R. inversion R. reflexivity.
    + destruct Q as [e [Q _]]. rewrite Q in R. discriminate.
  - unfold resolve_idx_get in R. rewrite A in R. discriminate.
Qed.

Lemma con_put_sim o c key ch v :
  cgood c -> tok_dom key -> con_get o c key = Ok v -> ngood ch ->
  cval (con_put o c key ch) = put_child (dia o) (cval c) key (aval ch) /\ cgood (con_put o c key ch).
Proof.
  intros [G NK] D Hg Gc. destruct c as [self keys obj|self|self ns]; [| contradiction |].
  - apply ngood_doc in G as [Ag [Uk Gv]]. destruct key as [|b key]; [destruct D as [NE _]; congruence|].
    cbn [con_get] in Hg. destruct (aget (b :: key) obj) as [v'|] eqn:E; try discriminate.
    assert (Kin : kmem (b :: key) keys = true).
    { apply kmem_In. destruct Ag as [_ [_ Ag']]. apply Ag'. eapply aget_In_fst; eauto. }
    pose proof (abs_doc_set keys obj (b :: key) ch Ag) as DS. unfold doc_set in DS. rewrite Kin in DS.
    destruct DS as [D1 D2]. cbn [con_put]. unfold cval. cbn [node_of_con]. rewrite !aval_doc. cbn [put_child].
    split; [now rewrite D1|]. split; [|exact I]. cbn [node_of_con]. apply ngood_doc. split; auto. split; auto.
    apply Forall_aset; auto.
  - apply ngood_ary in G. destruct key as [|b key]; [destruct D as [NE _]; congruence|].
    cbn [con_get] in Hg. destruct (resolve_idx_get o (ImplV5.zlen ns) (b :: key)) as [i| |] eqn:R; try discriminate.
    cbn [con_put]. rewrite R. unfold cval. cbn [node_of_con aval put_child].
    rewrite (resolve_idx_agrees o ns (b :: key) i D R).
    change (firstn i ns ++ ch :: skipn (S i) ns) with (set_at i ch ns).
    split; [now rewrite map_set_at|]. split; [|exact I]. cbn [node_of_con]. apply ngood_ary.
    apply Forall_set_at; auto.
Qed.

(* ---- the pointer walk of findObject ---- *)
Lemma walk_spec o parts : forall c,
  cgood c -> Forall tok_dom (map decode_token parts) ->
  match descend (dia o) (map decode_token parts) (cval c) with
  | Some p =>
      if is_container p then
        exists cp (back : con -> con), cval cp = p /\ cgood cp /\
          (forall A (f : con -> A * con), walk o parts c f = (Some (fst (f cp)), back (snd (f cp)))) /\
          (forall cp', cgood cp' ->
             cval (back cp') = rebuild (dia o) (map decode_token parts) (cval c) (cval cp') /\ cgood (back cp'))
      else exists c', (forall A (f : con -> A * con), walk o parts c f = (None, c')) /\ cval c' = cval c /\ cgood c'
  | None => exists c', (forall A (f : con -> A * con), walk o parts c f = (None, c')) /\ cval c' = cval c /\ cgood c'
  end.
Proof.
  induction parts as [|p parts IH]; intros c G D.
  - cbn [map descend].
    assert (Cc : is_container (cval c) = true).
    { destruct G as [_ NK]. destruct c; try contradiction; unfold cval; cbn [node_of_con]; [rewrite aval_doc|]; reflexivity. }
    rewrite Cc. exists c, (fun x => x). split; [reflexivity|]. split; [exact G|]. split.
    + intros A f. cbn [walk]. destruct (f c); reflexivity.
    + intros cp' Gcp'. split; [reflexivity | exact Gcp'].
  - cbn [map descend]. inversion D as [|? ? Dk Dr]; subst.
    pose proof (con_get_sim o c (decode_token p) G Dk) as CG.
    destruct (child_at (dia o) (cval c) (decode_token p)) as [j|] eqn:Ech.
    + destruct CG as [next [Hg [Ev Gn]]].
      pose proof (into_con_sim next Gn) as IC. rewrite Ev in IC.
      assert (Fail_case : forall ch', cval ch' = j -> cgood ch' ->
                cval (con_put o c (decode_token p) (node_of_con ch')) = cval c /\
                cgood (con_put o c (decode_token p) (node_of_con ch'))).
      { intros ch' Ev' Gc'. destruct (con_put_sim o c (decode_token p) (node_of_con ch') next G Dk Hg (proj1 Gc')) as [Q1 Q2].
        split; auto. rewrite Q1. fold (cval ch'). rewrite Ev'. apply put_child_same. exact Ech. }
      destruct (is_container j) eqn:Cj.
      * destruct IC as [ch [Hic [Evc Gch]]]. specialize (IH ch Gch Dr). rewrite Evc in IH.
        destruct (descend (dia o) (map decode_token parts) j) as [p'|] eqn:Ed.
        -- destruct (is_container p') eqn:Cp.
           ++ destruct IH as [cp [back [E1 [E2 [E3 E4]]]]].
              exists cp, (fun x => con_put o c (decode_token p) (node_of_con (back x))).
              split; auto. split; auto. split.
              ** intros A f. cbn [walk]. rewrite Hg, Hic, (E3 A f). reflexivity.
              ** intros cp' Gcp'. destruct (E4 cp' Gcp') as [F1 F2].
                 destruct (con_put_sim o c (decode_token p) (node_of_con (back cp')) next G Dk Hg (proj1 F2)) as [Q1 Q2].
                 split; auto. rewrite Q1. cbn [rebuild]. rewrite Ech. fold (cval (back cp')). rewrite F1. reflexivity.
           ++ destruct IH as [ch' [W1 [W2 W3]]].
              exists (con_put o c (decode_token p) (node_of_con ch')). split.
              ** intros A f. cbn [walk]. rewrite Hg, Hic, (W1 A f). reflexivity.
              ** apply Fail_case; auto; congruence.
        -- destruct IH as [ch' [W1 [W2 W3]]].
           exists (con_put o c (decode_token p) (node_of_con ch')). split.
           ++ intros A f. cbn [walk]. rewrite Hg, Hic, (W1 A f). reflexivity.
           ++ apply Fail_case; auto; congruence.
      * (* the child is not a container: the walk stops; so does the reference *)
        assert (W : forall A (f : con -> A * con), walk o (p :: parts) c f = (None, c)).
        { intros A f. cbn [walk]. rewrite Hg, IC. reflexivity. }
        destruct parts as [|p2 parts].
        -- cbn [map descend]. rewrite Cj. exists c. auto.
        -- cbn [map descend]. replace (child_at (dia o) j (decode_token p2)) with (@None ojson)
             by (destruct j; try reflexivity; discriminate).
           exists c. auto.
    + destruct CG as [e [Hg _]]. exists c. split; auto. intros A f. cbn [walk]. rewrite Hg. reflexivity.
Qed.

(* ---- findObject on a pointer "/tok/.../tok" ---- *)
Lemma split_slash_nonempty s : split_slash s <> [].
Proof.
  induction s as [|c s IH]; simpl; [discriminate|].
  destruct (Byte.eqb c x2f); [discriminate|]. destruct (split_slash s); [congruence | discriminate].
Qed.

Definition path_parts (r : bytes) : list bytes := removelast (split_slash r).
Definition path_key (r : bytes) : bytes := decode_token (last (split_slash r) []).

Lemma ptr_tokens_slash r :
  ptr_tokens (x2f :: r) = Some (map decode_token (path_parts r) ++ [path_key r]).
Proof. simpl. f_equal. apply tokens_split. apply split_slash_nonempty. Qed.

Lemma split_path_slash r : split_path (x2f :: r) = Some (path_parts r, path_key r).
Proof.
  unfold split_path. simpl. pose proof (split_slash_nonempty r) as NE.
  destruct (split_slash r) as [|p ps] eqn:E; [congruence|]. unfold path_parts, path_key. rewrite E. reflexivity.
Qed.

Lemma dom_split r :
  Forall tok_dom (map decode_token (split_slash r)) ->
  Forall tok_dom (map decode_token (path_parts r)) /\ tok_dom (path_key r).
Proof.
  intro H. rewrite (tokens_split _ (split_slash_nonempty r)) in H. apply Forall_app in H as [H1 H2].
  split; auto. inversion H2; auto.
Qed.

Lemma find_spec {A} o c r (f : con -> bytes -> A * con) :
  cgood c -> Forall tok_dom (map decode_token (split_slash r)) ->
  match descend (dia o) (map decode_token (path_parts r)) (cval c) with
  | Some p =>
      if is_container p then
        exists cp (back : con -> con), cval cp = p /\ cgood cp /\
          find o c (x2f :: r) f = (FoundAt (fst (f cp (path_key r))), back (snd (f cp (path_key r)))) /\
          (forall cp', cgood cp' ->
             cval (back cp') = rebuild (dia o) (map decode_token (path_parts r)) (cval c) (cval cp') /\ cgood (back cp'))
      else exists c', find o c (x2f :: r) f = (FoundNil, c') /\ cval c' = cval c /\ cgood c'
  | None => exists c', find o c (x2f :: r) f = (FoundNil, c') /\ cval c' = cval c /\ cgood c'
  end.
Proof.
  intros G D. apply dom_split in D as [D1 D2].
  pose proof (walk_spec o (path_parts r) c G D1) as W.
  unfold find. rewrite split_path_slash.
  destruct (descend (dia o) (map decode_token (path_parts r)) (cval c)) as [p|].
  - destruct (is_container p).
    + destruct W as [cp [back [E1 [E2 [E3 E4]]]]]. exists cp, back. split; auto. split; auto. split; auto.
      rewrite (E3 A (fun c' => f c' (path_key r))). reflexivity.
    + destruct W as [c' [W1 W2]]. exists c'. split; auto. rewrite (W1 A (fun c' => f c' (path_key r))). reflexivity.
  - destruct W as [c' [W1 W2]]. exists c'. split; auto. rewrite (W1 A (fun c' => f c' (path_key r))). reflexivity.
Qed.

Notation ROk := Rfc6902.Ok.
Notation RFail := Rfc6902.Fail.

(* ---- the leaf operations on the container reached ---- *)
Lemma cgood_container c : cgood c -> is_container (cval c) = true.
Proof.
  intros [_ NK]. destruct c; try contradiction; unfold cval; cbn [node_of_con]; [rewrite aval_doc|]; reflexivity.
Qed.

Lemma con_add_sim o cp key v :
  cgood cp -> tok_dom key -> ngood v ->
  match add_leaf (dia o) (aval v) (cval cp) key with
  | ROk j' => exists cp', con_add o cp key v = Ok cp' /\ cval cp' = j' /\ cgood cp'
  | RFail cz => cz = FIndex /\ exists e, con_add o cp key v = Err e /\ (e = EInvalidIndex \/ e = EAtoi)
  end.
Proof.
  intros [G NK] D Gv. destruct cp as [self keys obj|self|self ns]; [| contradiction |].
  - apply ngood_doc in G as [Ag [Uk Gs]]. unfold cval. cbn [node_of_con]. rewrite aval_doc. cbn [add_leaf con_add].
    pose proof (abs_doc_set keys obj key v Ag) as DS. destruct (doc_set keys obj key v) as [k' o'] eqn:E.
    destruct DS as [D1 D2]. eexists. split; [reflexivity|]. unfold cval. cbn [node_of_con]. rewrite aval_doc, D1.
    split; auto. split; [|exact I]. cbn [node_of_con]. apply ngood_doc. split; auto.
    pose proof (Forall_utf8_doc_set keys obj key v Uk (tok_dom_utf8 _ D)) as Uk'. rewrite E in Uk'. split; [exact Uk'|].
    unfold doc_set in E. inversion E; subst. apply Forall_aset; auto.
  - apply ngood_ary in G. unfold cval. cbn [node_of_con aval add_leaf con_add].
    assert (AT : add_tok key \/ (bseq key [x2d] = false /\ atoi key = None /\ canonical_nat key = None /\ canonical_neg key = None)).
    { destruct (bseq key [x2d]) eqn:B; [left; left; apply bseq_eq; auto|].
      destruct (tok_dom_cases _ D) as [Can|[A1 [A2 A3]]]; [left; right; auto | right; auto]. }
    unfold Rfc6902.zlen. rewrite map_length.
    destruct AT as [AT|[B [A1 [A2 A3]]]].
    + pose proof (ary_add_ref o ns key v (proj1 (proj2 D)) AT) as R. unfold Rfc6902.zlen in R.
      destruct (idx_insert (dia o) (Z.of_nat (length ns)) key) as [i|].
      * destruct R as [R L]. rewrite R. eexists. split; [reflexivity|]. unfold cval. cbn [node_of_con aval].
        split; [f_equal; apply map_insert_at|]. split; [|exact I]. cbn [node_of_con]. apply ngood_ary. apply Forall_insert_at; auto.
      * destruct R as [e [R Re]]. rewrite R. split; auto. eauto.
    + unfold idx_insert. rewrite B, A2, A3. split; auto. unfold ary_add. rewrite B, A1. eauto.
Qed.

Lemma con_remove_sim o cp key :
  o_allow o = false -> cgood cp -> tok_dom key ->
  match remove_leaf (dia o) (cval cp) key with
  | ROk j' => exists cp', con_remove o cp key = Ok cp' /\ cval cp' = j' /\ cgood cp'
  | RFail cz => exists e, con_remove o cp key = Err e /\
               ((cz = FMissingMember /\ e = EMissing) \/ (cz = FIndex /\ (e = EInvalidIndex \/ e = EAtoi)))
  end.
Proof.
  intros Al [G NK] D. destruct cp as [self keys obj|self|self ns]; [| contradiction |].
  - apply ngood_doc in G as [Ag [Uk Gs]]. unfold cval. cbn [node_of_con]. rewrite aval_doc. cbn [remove_leaf con_remove].
    assert (Am : amem key (abs_members keys obj) = amem key obj).
    { unfold amem. rewrite (aget_abs_members_agree keys obj key Ag). destruct (aget key obj); reflexivity. }
    rewrite Am. destruct (amem key obj) eqn:M.
    + assert (Kin : kmem key keys = true).
      { apply kmem_In. destruct Ag as [_ [_ Ag']]. apply Ag'. apply amem_In. exact M. }
      rewrite Kin. destruct (abs_del keys obj key Ag) as [A1 A2].
      eexists. split; [reflexivity|]. unfold cval. cbn [node_of_con]. rewrite aval_doc, A1. split; auto.
      split; [|exact I]. cbn [node_of_con]. apply ngood_doc. split; auto.
      split; [apply Forall_kdel1; exact Uk | apply Forall_adel; auto].
    + rewrite Al. exists EMissing. split; auto.
  - apply ngood_ary in G. unfold cval. cbn [node_of_con aval remove_leaf con_remove].
    unfold Rfc6902.zlen. rewrite map_length.
    destruct (tok_dom_cases _ D) as [Can|[A1 [A2 A3]]].
    + pose proof (ary_remove_ref o ns key Al (proj1 (proj2 D)) Can) as R. unfold Rfc6902.zlen in R.
      destruct (idx_existing (dia o) (Z.of_nat (length ns)) key) as [i|].
      * destruct R as [R L]. rewrite R. eexists. split; [reflexivity|]. unfold cval. cbn [node_of_con aval].
        split; [f_equal; apply map_remove_at|]. split; [|exact I]. cbn [node_of_con]. apply ngood_ary. apply Forall_remove_at; auto.
      * destruct R as [e [R Re]]. rewrite R. exists e. split; auto.
    + unfold idx_existing. rewrite A2, A3. unfold ary_remove. rewrite A1. exists EAtoi. split; auto.
Qed.

Lemma con_set_sim o cp key v old :
  cgood cp -> tok_dom key -> ngood v -> con_get o cp key = Ok old ->
  exists cp', con_set o cp key v = Ok cp' /\ replace_leaf (dia o) (aval v) (cval cp) key = ROk (cval cp') /\ cgood cp'.
Proof.
  intros [G NK] D Gv Hg. destruct cp as [self keys obj|self|self ns]; [| contradiction |].
  - apply ngood_doc in G as [Ag [Uk Gs]]. destruct key as [|b key]; [destruct D as [NE _]; congruence|].
    cbn [con_get] in Hg. destruct (aget (b :: key) obj) as [v'|] eqn:E; try discriminate.
    unfold cval. cbn [node_of_con]. rewrite aval_doc. cbn [replace_leaf con_set].
    assert (Am : amem (b :: key) (abs_members keys obj) = true).
    { unfold amem. rewrite (aget_abs_members_agree keys obj (b :: key) Ag), E. reflexivity. }
    rewrite Am. pose proof (abs_doc_set keys obj (b :: key) v Ag) as DS.
    destruct (doc_set keys obj (b :: key) v) as [k' o'] eqn:Eds. destruct DS as [D1 D2].
    eexists. split; [reflexivity|]. unfold cval. cbn [node_of_con]. rewrite aval_doc, D1. split; auto.
    split; [|exact I]. cbn [node_of_con]. apply ngood_doc. split; auto.
    pose proof (Forall_utf8_doc_set keys obj (b :: key) v Uk (tok_dom_utf8 _ D)) as Uk'. rewrite Eds in Uk'. split; [exact Uk'|].
    unfold doc_set in Eds. inversion Eds; subst. apply Forall_aset; auto.
  - apply ngood_ary in G. destruct key as [|b key]; [destruct D as [NE _]; congruence|].
    cbn [con_get] in Hg. destruct (resolve_idx_get o (ImplV5.zlen ns) (b :: key)) as [i| |] eqn:R; try discriminate.
    cbn [con_set]. rewrite (ary_set_after_get o ns (b :: key) v i R).
    eexists. split; [reflexivity|]. unfold cval. cbn [node_of_con aval replace_leaf].
    rewrite (resolve_idx_agrees o ns (b :: key) i D R). split; [now rewrite map_set_at|].
    split; [|exact I]. cbn [node_of_con]. apply ngood_ary. apply Forall_set_at; auto.
Qed.

(* ---- causes ---- *)
Definition cause_rel (c : cause) (e : errclass) : Prop :=
  match c with
  | FTest => e = ETestFailed
  | FMissingMember | FUnreachable => e = EMissing
  | FIndex => e = EInvalidIndex \/ e = EAtoi \/ e = EMissing   (* replace reports ErrMissing for a bad index *)
  | _ => plain_err e = true
  end.

Lemma rebuild_same d : forall ps j p, descend d ps j = Some p -> rebuild d ps j p = j.
Proof.
  induction ps as [|t ps IH]; intros j p; simpl.
  - intro H; inversion H; reflexivity.
  - destruct (child_at d j t) as [c|] eqn:E; try discriminate. intro H. rewrite (IH _ _ H).
    apply put_child_same. exact E.
Qed.

(* find + leaf action against at_parent + leaf function *)
Lemma find_at_parent {A} o c r (f : con -> bytes -> res A * con) (g : ojson -> bytes -> Rfc6902.res ojson) (Q : A -> Prop) :
  cgood c -> Forall tok_dom (map decode_token (split_slash r)) ->
  (forall p t, is_container p = false -> g p t = RFail FUnreachable) ->
  (forall cp, cgood cp -> descend (dia o) (map decode_token (path_parts r)) (cval c) = Some (cval cp) ->
     match g (cval cp) (path_key r) with
     | ROk j' => exists a cp', f cp (path_key r) = (Ok a, cp') /\ cval cp' = j' /\ cgood cp' /\ Q a
     | RFail cz => exists e cp', f cp (path_key r) = (Err e, cp') /\ cause_rel cz e
     end) ->
  match at_parent (dia o) (map decode_token (path_parts r) ++ [path_key r]) (cval c) g with
  | ROk j' => exists a c2, find o c (x2f :: r) f = (FoundAt (Ok a), c2) /\ cval c2 = j' /\ cgood c2 /\ Q a
  | RFail cz => exists e c2, (find o c (x2f :: r) f = (FoundAt (Err e), c2) \/
                              (find o c (x2f :: r) f = (FoundNil, c2) /\ e = EMissing)) /\ cause_rel cz e
  end.
Proof.
  intros G D NC L. rewrite at_parent_snoc. pose proof (find_spec o c r f G D) as FS.
  destruct (descend (dia o) (map decode_token (path_parts r)) (cval c)) as [p|].
  - destruct (is_container p) eqn:Cp.
    + destruct FS as [cp [back [E1 [E2 [E3 E4]]]]]. specialize (L cp E2). rewrite E1 in L. specialize (L eq_refl).
      destruct (g p (path_key r)) as [j'|cz]; simpl.
      * destruct L as [a [cp' [L1 [L2 [L3 L4]]]]]. rewrite L1 in E3. simpl in E3.
        destruct (E4 cp' L3) as [F1 F2]. exists a, (back cp'). split; [exact E3|]. split; [now rewrite F1, L2|]. split; [exact F2 | exact L4].
      * destruct L as [e [cp' [L1 L2]]]. rewrite L1 in E3. simpl in E3. exists e, (back cp'). split; auto.
    + destruct FS as [c' [F1 [F2 F3]]]. rewrite (NC p (path_key r) Cp). simpl. exists EMissing, c'. split; [right; auto | reflexivity].
  - destruct FS as [c' [F1 [F2 F3]]]. exists EMissing, c'. split; [right; auto | reflexivity].
Qed.

Lemma find_get_sim o c r :
  cgood c -> Forall tok_dom (map decode_token (split_slash r)) ->
  match get_at (dia o) (map decode_token (path_parts r) ++ [path_key r]) (cval c) with
  | ROk j => exists v c2, find o c (x2f :: r) (fun c' key => (con_get o c' key, c')) = (FoundAt (Ok v), c2) /\
                          aval v = j /\ ngood v /\ cval c2 = cval c /\ cgood c2
  | RFail cz => exists e c2, (find o c (x2f :: r) (fun c' key => (con_get o c' key, c')) = (FoundAt (Err e), c2) \/
                              (find o c (x2f :: r) (fun c' key => (con_get o c' key, c')) = (FoundNil, c2) /\ e = EMissing)) /\
                             cause_rel cz e /\ cval c2 = cval c /\ cgood c2
  end.
Proof.
  intros G D. rewrite get_at_snoc.
  pose proof (find_spec o c r (fun c' key => (con_get o c' key, c')) G D) as FS.
  pose proof (proj2 (dom_split r D)) as Dk.
  destruct (descend (dia o) (map decode_token (path_parts r)) (cval c)) as [p|] eqn:Ed.
  - destruct (is_container p) eqn:Cp.
    + destruct FS as [cp [back [E1 [E2 [E3 E4]]]]]. simpl in E3.
      destruct (E4 cp E2) as [F1 F2]. rewrite E1, (rebuild_same _ _ _ _ Ed) in F1.
      pose proof (con_get_sim o cp (path_key r) E2 Dk) as CG. rewrite E1 in CG.
      unfold get_leaf. destruct p; try discriminate; cbn [child_at] in CG.
      * destruct (idx_existing (dia o) (Rfc6902.zlen l) (path_key r)) as [i|].
        -- destruct CG as [v [H1 [H2 H3]]]. rewrite H1 in E3. exists v, (back cp). split; [exact E3|]. split; [exact H2|]. split; [exact H3|]. split; [exact F1 | exact F2].
        -- destruct CG as [e [H1 H2]]. rewrite H1 in E3. exists e, (back cp). split; auto. split; auto.
           destruct cp; try (destruct H2 as [-> | ->]; simpl; auto; fail); try (destruct E2 as [_ []]). subst e. unfold cval in E1. cbn [node_of_con] in E1. rewrite aval_doc in E1. discriminate.
      * destruct (aget (path_key r) ms) as [x|].
        -- destruct CG as [v [H1 [H2 H3]]]. rewrite H1 in E3. exists v, (back cp). split; [exact E3|]. split; [exact H2|]. split; [exact H3|]. split; [exact F1 | exact F2].
        -- destruct CG as [e [H1 H2]]. rewrite H1 in E3. exists e, (back cp). split; auto. split; auto.
           destruct cp; auto; unfold cval in E1; cbn [node_of_con aval] in E1; discriminate.
    + destruct FS as [c' [F1 [F2 F3]]].
      rewrite (proj2 (proj2 (proj2 (proj2 (leaf_noncontainer (dia o) p (path_key r) Cp))))).
      exists EMissing, c'. split; [right; auto|]. split; [reflexivity|]. split; auto.
  - destruct FS as [c' [F1 [F2 F3]]]. exists EMissing, c'. split; [right; auto|]. split; [reflexivity|]. split; auto.
Qed.

(* ---- states, operation values ---- *)
Definition sgood (st : state) : Prop := exists c, s_root st = RCon c /\ cgood c.
Definition sval (st : state) : ojson := match s_root st with RCon c => cval c | RNull => ONull end.
Definition opv (op : operation) : node := match op_value op with Some v => v | None => NNil end.

Definition val_good (op : operation) : Prop :=
  match aget (B "value") op with Some (Some t) => tnodup t = true /\ tlit t = true /\ tsb t | _ => True end.

Definition ref_value (op : operation) : ojson :=
  match aget (B "value") op with Some (Some t) => den t | _ => ONull end.

Lemma opv_aval op : aval (opv op) = ref_value op.
Proof. unfold opv, op_value, ref_value. destruct (aget (B "value") op) as [[t|]|]; reflexivity. Qed.

Lemma opv_good op : val_good op -> ngood (opv op).
Proof.
  unfold val_good, opv, op_value. destruct (aget (B "value") op) as [[t|]|].
  - intros G. apply ngood_raw. exact G.
  - intros _. apply ngood_raw. repeat split.
  - intros _. apply ngood_nil.
Qed.

Definition ptr_dom (p : bytes) (r : bytes) : Prop :=
  p = x2f :: r /\ Forall tok_dom (map decode_token (split_slash r)).

Definition ptoks (r : bytes) : list bytes := map decode_token (path_parts r) ++ [path_key r].

Lemma ptoks_nonempty r : ptoks r <> [].
Proof. unfold ptoks. destruct (map decode_token (path_parts r)); discriminate. Qed.

(* ---- add (EnsurePathExistsOnAdd off), path not "" ---- *)
Lemma op_add_sim o st op r c :
  s_root st = RCon c -> cgood c -> o_ensure o = false ->
  op_str op (B "path") = Ok (x2f :: r) -> Forall tok_dom (map decode_token (split_slash r)) -> val_good op ->
  match at_parent (dia o) (ptoks r) (cval c) (add_leaf (dia o) (ref_value op)) with
  | ROk j' => exists st', op_add o st op = Ok st' /\ sval st' = j' /\ sgood st' /\ s_acc st' = s_acc st
  | RFail cz => exists e, op_add o st op = Err e /\ cause_rel cz e
  end.
Proof.
  intros Hr G En Hp D Vg. pose proof (opv_good op Vg) as Gv.
  set (f := fun (c' : con) (key : bytes) =>
              (con_add o c' key (opv op), match con_add o c' key (opv op) with Ok c'' => c'' | _ => c' end)).
  assert (NC : forall p t, is_container p = false -> add_leaf (dia o) (ref_value op) p t = RFail FUnreachable).
  { intros p t Cp. apply (proj1 (leaf_noncontainer (dia o) p t Cp)). }
  assert (LF : forall cp, cgood cp -> descend (dia o) (map decode_token (path_parts r)) (cval c) = Some (cval cp) ->
     match add_leaf (dia o) (ref_value op) (cval cp) (path_key r) with
     | ROk j' => exists a cp', f cp (path_key r) = (Ok a, cp') /\ cval cp' = j' /\ cgood cp' /\ True
     | RFail cz => exists e cp', f cp (path_key r) = (Err e, cp') /\ cause_rel cz e
     end).
  { intros cp Gcp _. pose proof (con_add_sim o cp (path_key r) (opv op) Gcp (proj2 (dom_split r D)) Gv) as CA.
    rewrite opv_aval in CA. unfold f. destruct (add_leaf (dia o) (ref_value op) (cval cp) (path_key r)) as [j'|cz].
    + destruct CA as [cp' [C1 [C2 C3]]]. exists cp', cp'. rewrite C1. auto.
    + destruct CA as [-> [e [C1 C2]]]. exists e, cp. rewrite C1. split; auto. destruct C2 as [-> | ->]; simpl; auto. }
  pose proof (find_at_parent o c r f (add_leaf (dia o) (ref_value op)) (fun _ => True) G D NC LF) as F.
  unfold op_add. rewrite Hp, Hr, En. fold (opv op). fold f.
  unfold ptoks. destruct (at_parent _ _ _ _) as [j'|cz].
  - destruct F as [a [c2 [F1 [F2 [F3 _]]]]]. rewrite F1. eexists. split; [reflexivity|].
    unfold sval, sgood. cbn [s_root s_acc]. split; auto. split; eauto.
  - destruct F as [e [c2 [[F1|[F1 ->]] F2]]]; rewrite F1; eauto.
Qed.

(* ---- remove (AllowMissingPathOnRemove off), path not "" ---- *)
Lemma op_remove_sim o st op r c :
  s_root st = RCon c -> cgood c -> o_allow o = false ->
  op_str op (B "path") = Ok (x2f :: r) -> Forall tok_dom (map decode_token (split_slash r)) ->
  match at_parent (dia o) (ptoks r) (cval c) (remove_leaf (dia o)) with
  | ROk j' => exists st', op_remove o st op = Ok st' /\ sval st' = j' /\ sgood st' /\ s_acc st' = s_acc st
  | RFail cz => exists e, op_remove o st op = Err e /\ cause_rel cz e
  end.
Proof.
  intros Hr G Al Hp D.
  set (f := fun (c' : con) (key : bytes) =>
              (con_remove o c' key, match con_remove o c' key with Ok c'' => c'' | _ => c' end)).
  assert (NC : forall p t, is_container p = false -> remove_leaf (dia o) p t = RFail FUnreachable).
  { intros p t Cp. apply (proj1 (proj2 (leaf_noncontainer (dia o) p t Cp))). }
  assert (LF : forall cp, cgood cp -> descend (dia o) (map decode_token (path_parts r)) (cval c) = Some (cval cp) ->
     match remove_leaf (dia o) (cval cp) (path_key r) with
     | ROk j' => exists a cp', f cp (path_key r) = (Ok a, cp') /\ cval cp' = j' /\ cgood cp' /\ True
     | RFail cz => exists e cp', f cp (path_key r) = (Err e, cp') /\ cause_rel cz e
     end).
  { intros cp Gcp _. pose proof (con_remove_sim o cp (path_key r) Al Gcp (proj2 (dom_split r D))) as CA.
    unfold f. destruct (remove_leaf (dia o) (cval cp) (path_key r)) as [j'|cz].
    + destruct CA as [cp' [C1 [C2 C3]]]. exists cp', cp'. rewrite C1. auto.
    + destruct CA as [e [C1 C2]]. exists e, cp. rewrite C1. split; auto.
      destruct C2 as [[-> ->]|[-> [C2|C2]]]; simpl; auto. }
  pose proof (find_at_parent o c r f (remove_leaf (dia o)) (fun _ => True) G D NC LF) as F.
  unfold op_remove. rewrite Hp, Hr, Al. fold f.
  unfold ptoks. destruct (at_parent _ _ _ _) as [j'|cz].
  - destruct F as [a [c2 [F1 [F2 [F3 _]]]]]. rewrite F1. eexists. split; [reflexivity|].
    unfold sval, sgood. cbn [s_root s_acc]. split; auto. split; eauto.
  - destruct F as [e [c2 [[F1|[F1 ->]] F2]]]; rewrite F1; eauto.
Qed.

(* ---- replace, path not "" ---- *)
Lemma op_replace_sim o st op r c :
  s_root st = RCon c -> cgood c ->
  op_str op (B "path") = Ok (x2f :: r) -> Forall tok_dom (map decode_token (split_slash r)) -> val_good op ->
  match at_parent (dia o) (ptoks r) (cval c) (replace_leaf (dia o) (ref_value op)) with
  | ROk j' => exists st', op_replace o st op = Ok st' /\ sval st' = j' /\ sgood st' /\ s_acc st' = s_acc st
  | RFail cz => exists e, op_replace o st op = Err e /\ cause_rel cz e
  end.
Proof.
  intros Hr G Hp D Vg. pose proof (opv_good op Vg) as Gv. pose proof (proj2 (dom_split r D)) as Dk.
  set (f := fun (c' : con) (key : bytes) =>
              match con_get o c' key with
              | Ok _ => (con_set o c' key (opv op), match con_set o c' key (opv op) with Ok c'' => c'' | _ => c' end)
              | Err _ => (Err EMissing, c')
              | Panic => (Panic, c')
              end).
  assert (NC : forall p t, is_container p = false -> replace_leaf (dia o) (ref_value op) p t = RFail FUnreachable).
  { intros p t Cp. apply (proj1 (proj2 (proj2 (leaf_noncontainer (dia o) p t Cp)))). }
  assert (LF : forall cp, cgood cp -> descend (dia o) (map decode_token (path_parts r)) (cval c) = Some (cval cp) ->
     match replace_leaf (dia o) (ref_value op) (cval cp) (path_key r) with
     | ROk j' => exists a cp', f cp (path_key r) = (Ok a, cp') /\ cval cp' = j' /\ cgood cp' /\ True
     | RFail cz => exists e cp', f cp (path_key r) = (Err e, cp') /\ cause_rel cz e
     end).
  { intros cp Gcp _. pose proof (con_get_sim o cp (path_key r) Gcp Dk) as CG. unfold f.
    destruct (child_at (dia o) (cval cp) (path_key r)) as [j|] eqn:Ech.
    + destruct CG as [old [H1 _]]. rewrite H1.
      destruct (con_set_sim o cp (path_key r) (opv op) old Gcp Dk Gv H1) as [cp' [S1 [S2 S3]]].
      rewrite opv_aval in S2. rewrite S2, S1. exists cp', cp'. auto.
    + destruct CG as [e [H1 H2]]. rewrite H1.
      assert (R : replace_leaf (dia o) (ref_value op) (cval cp) (path_key r) = RFail FMissingMember \/
                  replace_leaf (dia o) (ref_value op) (cval cp) (path_key r) = RFail FIndex).
      { pose proof (cgood_container cp Gcp) as Cc. destruct (cval cp); try discriminate; cbn [child_at replace_leaf] in *.
        - destruct (idx_existing (dia o) (Rfc6902.zlen l) (path_key r)); [discriminate | auto].
        - unfold amem. rewrite Ech. auto. }
      destruct R as [-> | ->]; exists EMissing, cp; split; auto; simpl; auto. }
  pose proof (find_at_parent o c r f (replace_leaf (dia o) (ref_value op)) (fun _ => True) G D NC LF) as F.
  unfold op_replace. rewrite Hp, Hr. fold (opv op). fold f.
  unfold ptoks. destruct (at_parent _ _ _ _) as [j'|cz].
  - destruct F as [a [c2 [F1 [F2 [F3 _]]]]]. rewrite F1. eexists. split; [reflexivity|].
    unfold sval, sgood. cbn [s_root s_acc]. split; auto. split; eauto.
  - destruct F as [e [c2 [[F1|[F1 ->]] F2]]]; rewrite F1; eauto.
Qed.

(* ---- what a passing test leaves behind: every container below parsed, same value ---- *)
Lemma deep_t_obj ms :
  deep_t (TObj ms) = NDoc (map (fun kv => unquote (fst kv)) ms) (build_with deep_t ms []).
Proof.
  cbn [deep_t]. f_equal.
  assert (E : forall ms acc,
             (fix go (ms : list (bytes * tjson)) (acc : list (bytes * node)) :=
                match ms with [] => acc | (k, v) :: r => go r (aset (unquote k) (deep_t v) acc) end) ms acc
             = build_with deep_t ms acc).
  { clear. induction ms as [|[k v] ms IH]; intro acc; simpl; auto. }
  apply E.
Qed.

Lemma deep_t_sim t : tnodup t = true -> tlit t = true -> tsb t -> aval (deep_t t) = den t /\ ngood (deep_t t).
Proof.
  induction t using tjson_rect'; intros T L B; try (split; [reflexivity | split; [exact T | split; [exact L | exact B]]]).
  - split; [reflexivity | apply ngood_nil].
  - (* array *)
    apply tnodup_arr in T. simpl in L. rewrite forallb_forall in L. apply tsb_arr in B. rewrite Forall_forall in H, T, B.
    cbn [deep_t]. split.
    + cbn [aval den]. f_equal. rewrite map_map. apply map_ext_in. intros x Hx. apply (H x Hx); auto.
    + apply ngood_ary. rewrite Forall_map. apply Forall_forall. intros x Hx. apply (H x Hx); auto.
  - (* object *)
    pose proof (den_obj_nodup ms T) as D. apply tnodup_obj in T as [N F]. apply tlit_members in L.
    pose proof (tsb_obj_keys ms B) as Bk. apply tsb_obj_vals in B.
    rewrite deep_t_obj, build_with_nodup by exact N. simpl app.
    set (obj := map (fun kv => (unquote (fst kv), deep_t (snd kv))) ms).
    assert (K : map fst obj = map (fun kv => unquote (fst kv)) ms) by (unfold obj; rewrite map_map; reflexivity).
    rewrite <- K. rewrite <- K in Bk. assert (No : NoDup (map fst obj)) by (rewrite K; exact N).
    rewrite Forall_forall in H, F, L, B. split.
    + rewrite aval_doc, abs_members_self, D by exact No. f_equal. unfold obj, den_members. rewrite map_map.
      apply map_ext_in. intros kv Hk. simpl. f_equal. apply (H kv Hk); auto.
    + apply ngood_doc. split; [apply keys_agree_self; exact No|]. split; [exact Bk|]. unfold obj. rewrite Forall_map.
      apply Forall_forall. intros kv Hk. simpl. apply (H kv Hk); auto.
Qed.

Lemma deep_sim n : ngood n -> aval (deep n) = aval n /\ ngood (deep n).
Proof.
  induction n using node_rect'; intro G.
  - split; [reflexivity | exact G].
  - destruct G as [W [L S]]. destruct t; try (apply deep_t_sim; auto); split; try reflexivity; split; auto.
  - apply ngood_doc in G as [Ag [Uk Gs]]. cbn [deep].
    set (obj' := map (fun kv => (fst kv, deep (snd kv))) obj).
    assert (K : map fst obj' = map fst obj) by (unfold obj'; rewrite map_map; reflexivity).
    assert (Lk : forall k, aget k obj' = option_map deep (aget k obj)).
    { intro k. unfold obj'. clear. induction obj as [|[k' v] obj IH]; simpl; auto. destruct (bseq k k'); auto. }
    rewrite Forall_forall in H, Gs. split.
    + rewrite !aval_doc. f_equal. unfold abs_members. apply map_ext_in. intros k Hk. f_equal. rewrite Lk.
      destruct (aget k obj) as [v|] eqn:E; auto. simpl. apply aget_In in E. apply (H _ E). apply (Gs _ E).
    + apply ngood_doc. split.
      * destruct Ag as [A1 [A2 A3]]. split; auto. split; rewrite K; auto.
      * split; [exact Uk|]. unfold obj'. rewrite Forall_map. apply Forall_forall. intros kv Hk. simpl. apply (H _ Hk). apply (Gs _ Hk).
  - apply ngood_ary in G. rewrite Forall_forall in H, G. cbn [deep]. split.
    + cbn [aval]. f_equal. rewrite map_map. apply map_ext_in. intros x Hx. apply (H x Hx). auto.
    + apply ngood_ary. rewrite Forall_map. apply Forall_forall. intros x Hx. apply (H x Hx). auto.
Qed.

(* ---- test, path not "" ---- *)
Definition test_fn (o : opts) (ov : node) (c' : con) (key : bytes) : res unit * con :=
  match con_get o c' key with
  | Ok v =>
      if is_null v then ((if is_null ov then Ok tt else Err ETestFailed), c')
      else if is_null ov then (Err ETestFailed, c')
      else if node_equal v ov then (Ok tt, con_put o c' key (deep v))
      else (Err ETestFailed, c')
  | Err EMissing => ((if is_null ov then Ok tt else Err ETestFailed), c')
  | Err e => (Err e, c')
  | Panic => (Panic, c')
  end.

Lemma test_value_rel v ov : ngood v -> ngood ov ->
  jeq (aval v) (aval ov) =
  if is_null v then is_null ov else if is_null ov then false else node_equal v ov.
Proof.
  intros [Wv [Lv _]] [Wo [Lo _]]. rewrite (is_null_onull v), (is_null_onull ov).
  destruct (onull (aval v)) eqn:N1.
  - destruct (aval v); try discriminate. apply jeq_null_l.
  - destruct (onull (aval ov)) eqn:N2.
    + destruct (aval ov); try discriminate. rewrite jeq_null_r. exact N1.
    + symmetry. apply node_equal_spec; auto.
Qed.

Lemma test_leaf_sim o cp key ov :
  cgood cp -> tok_dom key -> ngood ov ->
  match test_leaf (dia o) (aval ov) (cval cp) key with
  | ROk j' => exists cp', test_fn o ov cp key = (Ok tt, cp') /\ cval cp' = j' /\ cgood cp'
  | RFail cz => exists e cp', test_fn o ov cp key = (Err e, cp') /\ cause_rel cz e
  end.
Proof.
  intros G D Go. pose proof (con_get_sim o cp key G D) as CG. pose proof (cgood_container cp G) as Cc.
  unfold test_fn.
  assert (Null_case : forall x, x = ONull ->
            (if jeq x (aval ov) then ROk (cval cp) else RFail FTest) =
            (if is_null ov then ROk (cval cp) else RFail FTest)).
  { intros x ->. rewrite jeq_null_l, <- is_null_onull. reflexivity. }
  destruct (child_at (dia o) (cval cp) key) as [j|] eqn:Ech.
  - destruct CG as [v [H1 [H2 H3]]]. rewrite H1.
    assert (TL : test_leaf (dia o) (aval ov) (cval cp) key = if jeq (aval v) (aval ov) then ROk (cval cp) else RFail FTest).
    { destruct (cval cp); try discriminate; cbn [child_at test_leaf] in *.
      - destruct (idx_existing (dia o) (Rfc6902.zlen l) key) as [n|]; try discriminate.
        assert (E0 : nth n l ONull = aval v) by congruence. rewrite E0. reflexivity.
      - rewrite Ech, H2. reflexivity. }
    rewrite TL, (test_value_rel v ov H3 Go).
    destruct (is_null v).
    + destruct (is_null ov); [exists cp; split; [reflexivity | split; [reflexivity | exact G]] | exists ETestFailed, cp; split; reflexivity].
    + destruct (is_null ov); [exists ETestFailed, cp; split; reflexivity|].
      destruct (node_equal v ov); [|exists ETestFailed, cp; split; reflexivity].
      destruct (deep_sim v H3) as [Dv Dg].
      destruct (con_put_sim o cp key (deep v) v G D H1 Dg) as [Q1 Q2].
      exists (con_put o cp key (deep v)). split; auto. split; auto.
      rewrite Q1, Dv, H2. apply put_child_same. exact Ech.
  - destruct CG as [e [H1 H2]]. rewrite H1. destruct cp as [s ks ob| |s ns]; [| destruct G as [_ []] |].
    + subst e. unfold cval in *. cbn [node_of_con] in *. rewrite aval_doc in *. cbn [child_at test_leaf] in *.
      rewrite Ech. rewrite (Null_case ONull eq_refl).
      destruct (is_null ov); [exists (KDoc s ks ob); split; [reflexivity | split; [apply aval_doc | exact G]] | exists ETestFailed, (KDoc s ks ob); split; reflexivity].
    + unfold cval in *. cbn [node_of_con aval child_at test_leaf] in *.
      destruct (idx_existing (dia o) (Rfc6902.zlen (map aval ns)) key); try discriminate.
      destruct H2 as [-> | ->]; eexists; eexists; split; try reflexivity; simpl; auto.
Qed.

Lemma op_test_sim o st op r c :
  s_root st = RCon c -> cgood c ->
  op_str op (B "path") = Ok (x2f :: r) -> Forall tok_dom (map decode_token (split_slash r)) -> val_good op ->
  match at_parent (dia o) (ptoks r) (cval c) (test_leaf (dia o) (ref_value op)) with
  | ROk j' => exists st', op_test o st op = Ok st' /\ sval st' = j' /\ sgood st' /\ s_acc st' = s_acc st
  | RFail cz => exists e, op_test o st op = Err e /\ cause_rel cz e
  end.
Proof.
  intros Hr G Hp D Vg. pose proof (opv_good op Vg) as Gv. pose proof (proj2 (dom_split r D)) as Dk.
  assert (NC : forall p t, is_container p = false -> test_leaf (dia o) (ref_value op) p t = RFail FUnreachable).
  { intros p t Cp. apply (proj1 (proj2 (proj2 (proj2 (leaf_noncontainer (dia o) p t Cp))))). }
  assert (LF : forall cp, cgood cp -> descend (dia o) (map decode_token (path_parts r)) (cval c) = Some (cval cp) ->
     match test_leaf (dia o) (ref_value op) (cval cp) (path_key r) with
     | ROk j' => exists a cp', test_fn o (opv op) cp (path_key r) = (Ok a, cp') /\ cval cp' = j' /\ cgood cp' /\ True
     | RFail cz => exists e cp', test_fn o (opv op) cp (path_key r) = (Err e, cp') /\ cause_rel cz e
     end).
  { intros cp Gcp _. pose proof (test_leaf_sim o cp (path_key r) (opv op) Gcp Dk Gv) as TS. rewrite opv_aval in TS.
    destruct (test_leaf (dia o) (ref_value op) (cval cp) (path_key r)).
    - destruct TS as [cp' [T1 [T2 T3]]]. exists tt, cp'. auto.
    - exact TS. }
  pose proof (find_at_parent o c r (test_fn o (opv op)) (test_leaf (dia o) (ref_value op)) (fun _ => True) G D NC LF) as F.
  unfold op_test. rewrite Hp, Hr. fold (opv op).
  change (find o c (x2f :: r) _) with (find o c (x2f :: r) (test_fn o (opv op))).
  unfold ptoks. destruct (at_parent _ _ _ _) as [j'|cz].
  - destruct F as [a [c2 [F1 [F2 [F3 _]]]]]. rewrite F1. eexists. split; [reflexivity|].
    unfold sval, sgood. cbn [s_root s_acc]. split; auto. split; eauto.
  - destruct F as [e [c2 [[F1|[F1 ->]] F2]]]; rewrite F1; eauto.
Qed.

(* ---- the add phase shared by add, move and copy ---- *)
Definition add_fn (o : opts) (v : node) (c' : con) (key : bytes) : res con * con :=
  (con_add o c' key v, match con_add o c' key v with Ok c'' => c'' | _ => c' end).

Lemma add_find_sim o c r v :
  cgood c -> Forall tok_dom (map decode_token (split_slash r)) -> ngood v ->
  match at_parent (dia o) (ptoks r) (cval c) (add_leaf (dia o) (aval v)) with
  | ROk j' => exists a c2, find o c (x2f :: r) (add_fn o v) = (FoundAt (Ok a), c2) /\ cval c2 = j' /\ cgood c2
  | RFail cz => exists e c2, (find o c (x2f :: r) (add_fn o v) = (FoundAt (Err e), c2) \/
                              (find o c (x2f :: r) (add_fn o v) = (FoundNil, c2) /\ e = EMissing)) /\ cause_rel cz e
  end.
Proof.
  intros G D Gv.
  assert (NC : forall p t, is_container p = false -> add_leaf (dia o) (aval v) p t = RFail FUnreachable).
  { intros p t Cp. apply (proj1 (leaf_noncontainer (dia o) p t Cp)). }
  assert (LF : forall cp, cgood cp -> descend (dia o) (map decode_token (path_parts r)) (cval c) = Some (cval cp) ->
     match add_leaf (dia o) (aval v) (cval cp) (path_key r) with
     | ROk j' => exists a cp', add_fn o v cp (path_key r) = (Ok a, cp') /\ cval cp' = j' /\ cgood cp' /\ True
     | RFail cz => exists e cp', add_fn o v cp (path_key r) = (Err e, cp') /\ cause_rel cz e
     end).
  { intros cp Gcp _. pose proof (con_add_sim o cp (path_key r) v Gcp (proj2 (dom_split r D)) Gv) as CA.
    unfold add_fn. destruct (add_leaf (dia o) (aval v) (cval cp) (path_key r)) as [j'|cz].
    + destruct CA as [cp' [C1 [C2 C3]]]. exists cp', cp'. rewrite C1. auto.
    + destruct CA as [-> [e [C1 C2]]]. exists e, cp. rewrite C1. split; auto. destruct C2 as [-> | ->]; simpl; auto. }
  pose proof (find_at_parent o c r (add_fn o v) (add_leaf (dia o) (aval v)) (fun _ => True) G D NC LF) as F.
  unfold ptoks. destruct (at_parent _ _ _ _) as [j'|cz].
  - destruct F as [a [c2 [F1 [F2 [F3 _]]]]]. exists a, c2. auto.
  - exact F.
Qed.

(* ---- move, from and path not "" ---- *)
Definition move_src_fn (o : opts) (c' : con) (key : bytes) : res node * con :=
  match con_get o c' key with
  | Ok v => match con_remove o c' key with Ok c'' => (Ok v, c'') | Err e => (Err e, c') | Panic => (Panic, c') end
  | Err e => (Err e, c')
  | Panic => (Panic, c')
  end.

Definition take_leaf (d : dialect) (p : ojson) (t : bytes) : Rfc6902.res ojson :=
  match get_leaf d p t with ROk _ => remove_leaf d p t | RFail c => RFail c end.

Lemma move_ref d ps t j (K : ojson -> ojson -> Rfc6902.res ojson) :
  (v <- get_at d (ps ++ [t]) j ;; doc1 <- at_parent d (ps ++ [t]) j (remove_leaf d) ;; K v doc1) =
  match descend d ps j with
  | Some p => match get_leaf d p t with
              | ROk v => match remove_leaf d p t with ROk p' => K v (rebuild d ps j p') | RFail c => RFail c end
              | RFail c => RFail c
              end
  | None => RFail FUnreachable
  end.
Proof.
  rewrite get_at_snoc, at_parent_snoc. destruct (descend d ps j) as [p|]; auto.
  destruct (get_leaf d p t); auto. simpl. destruct (remove_leaf d p t); auto.
Qed.

Lemma op_move_sim o st op rf r c :
  s_root st = RCon c -> cgood c -> o_allow o = false ->
  op_str op (B "from") = Ok (x2f :: rf) -> Forall tok_dom (map decode_token (split_slash rf)) ->
  op_str op (B "path") = Ok (x2f :: r) -> Forall tok_dom (map decode_token (split_slash r)) ->
  match (v <- get_at (dia o) (ptoks rf) (cval c) ;;
         doc1 <- at_parent (dia o) (ptoks rf) (cval c) (remove_leaf (dia o)) ;;
         at_parent (dia o) (ptoks r) doc1 (add_leaf (dia o) v)) with
  | ROk j' => exists st', op_move o st op = Ok st' /\ sval st' = j' /\ sgood st' /\ s_acc st' = s_acc st
  | RFail cz => exists e, op_move o st op = Err e /\ cause_rel cz e
  end.
Proof.
  intros Hr G Al Hf Df Hp Dp. pose proof (proj2 (dom_split rf Df)) as Dk.
  pose proof (find_spec o c rf (move_src_fn o) G Df) as FS.
  unfold ptoks at 1 2. rewrite move_ref.
  unfold op_move. rewrite Hf, Hr.
  change (find o c (x2f :: rf) _) with (find o c (x2f :: rf) (move_src_fn o)).
  destruct (descend (dia o) (map decode_token (path_parts rf)) (cval c)) as [p|] eqn:Ed.
  2: { destruct FS as [c' [F1 _]]. rewrite F1. exists EMissing. split; reflexivity. }
  destruct (is_container p) eqn:Cp.
  2: { destruct FS as [c' [F1 _]]. rewrite F1.
       rewrite (proj2 (proj2 (proj2 (proj2 (leaf_noncontainer (dia o) p (path_key rf) Cp))))).
       exists EMissing. split; reflexivity. }
  destruct FS as [cp [back [E1 [E2 [E3 E4]]]]]. rewrite E3. clear E3.
  pose proof (con_get_sim o cp (path_key rf) E2 Dk) as CG. rewrite E1 in CG.
  pose proof (con_remove_sim o cp (path_key rf) Al E2 Dk) as CR. rewrite E1 in CR.
  unfold move_src_fn.
  assert (GL : get_leaf (dia o) p (path_key rf) =
               match child_at (dia o) p (path_key rf) with
               | Some j => ROk j
               | None => match p with OObj _ => RFail FMissingMember | _ => RFail FIndex end
               end).
  { destruct p; try discriminate; cbn [get_leaf child_at].
    - destruct (idx_existing (dia o) (Rfc6902.zlen l) (path_key rf)); reflexivity.
    - destruct (aget (path_key rf) ms); reflexivity. }
  rewrite GL. destruct (child_at (dia o) p (path_key rf)) as [j|] eqn:Ech.
  - destruct CG as [v [H1 [H2 H3]]]. rewrite H1.
    assert (RL : exists p', remove_leaf (dia o) p (path_key rf) = ROk p').
    { destruct p; try discriminate; cbn [child_at remove_leaf] in *.
      - destruct (idx_existing (dia o) (Rfc6902.zlen l) (path_key rf)); [eauto | discriminate].
      - unfold amem. rewrite Ech. eauto. }
    destruct RL as [p' RL]. rewrite RL in *. destruct CR as [cp' [R1 [R2 R3]]]. rewrite R1. cbn [fst snd].
    destruct (E4 cp' R3) as [F1 F2]. rewrite R2 in F1.
    rewrite Hp.
    pose proof (add_find_sim o (back cp') r v F2 Dp H3) as AF. rewrite F1, H2 in AF.
    change (find o (back cp') (x2f :: r) _) with (find o (back cp') (x2f :: r) (add_fn o v)).
    destruct (at_parent (dia o) (ptoks r) (rebuild (dia o) (map decode_token (path_parts rf)) (cval c) p') (add_leaf (dia o) j)) as [j'|cz].
    + destruct AF as [a [c2 [A1 [A2 A3]]]]. rewrite A1. eexists. split; [reflexivity|].
      unfold sval, sgood. cbn [s_root s_acc]. split; auto. split; eauto.
    + destruct AF as [e [c2 [[A1|[A1 ->]] A2]]]; rewrite A1; eauto.
  - destruct CG as [e [H1 H2]]. rewrite H1. cbn [fst snd]. cbv iota beta.
    destruct cp as [? ? ?| |? ?]; [| exfalso; exact (proj2 E2) |].
    + subst e. unfold cval in E1. cbn [node_of_con] in E1. rewrite aval_doc in E1. subst p.
      exists EMissing. split; reflexivity.
    + unfold cval in E1. cbn [node_of_con aval] in E1. subst p. exists e. split; [reflexivity|].
      destruct H2 as [-> | ->]; simpl; auto.
Qed.

(* ---- values have no duplicate names ---- *)
Lemma nwf_onodup n : nwf n -> onodup (aval n) = true.
Proof.
  induction n using node_rect'; intro W.
  - reflexivity.
  - exact W.
  - apply nwf_doc in W as [[Nk [No Ag]] Ws]. rewrite aval_doc. apply onodup_obj. split.
    + unfold abs_members. rewrite map_map. simpl. rewrite map_id. exact Nk.
    + unfold abs_members. rewrite Forall_map. apply Forall_forall. intros k Hk. simpl.
      destruct (aget k obj) as [v|] eqn:E; [|reflexivity]. simpl. apply aget_In in E.
      rewrite Forall_forall in H, Ws. apply (H _ E). apply (Ws _ E).
  - apply nwf_ary in W. cbn [aval]. apply onodup_arr. rewrite Forall_map. rewrite Forall_forall in *.
    intros x Hx. apply (H x Hx). apply (W x Hx).
Qed.

(* ---- operations on the whole document (path "") ---- *)
Lemma root_value_sim t (self : node) :
  tnodup t = true -> tlit t = true -> tsb t ->
  match t with
  | TObj ms => let (k, ob) := doc_of ms in cgood (KDoc self k ob) /\ cval (KDoc self k ob) = den t
  | TArr l => cgood (KAry self (map child l)) /\ cval (KAry self (map child l)) = den t
  | _ => is_container (den t) = false
  end.
Proof.
  intros T L B. pose proof (into_con_sim (NRaw t) (conj T (conj L B))) as IC. cbn [aval] in IC.
  destruct t; try reflexivity.
  - simpl is_container in IC. destruct IC as [ch [H1 [H2 H3]]]. cbn [into_con] in H1. inversion H1; subst ch.
    split; [split; [exact (proj1 H3) | exact I] | exact H2].
  - rewrite (den_obj_nodup ms T) in IC. simpl is_container in IC. destruct IC as [ch [H1 [H2 H3]]].
    cbn [into_con] in H1. destruct (doc_of ms) as [k ob]. inversion H1; subst ch.
    split; [split; [exact (proj1 H3) | exact I] | unfold cval in *; cbn [node_of_con] in *; rewrite H2; symmetry; apply den_obj_nodup; exact T].
Qed.

Lemma op_add_root_sim o st op t :
  op_str op (B "path") = Ok [] -> aget (B "value") op = Some (Some t) -> t <> TNull ->
  tnodup t = true -> tlit t = true -> tsb t ->
  if is_container (den t)
  then exists st', op_add o st op = Ok st' /\ sval st' = den t /\ sgood st' /\ s_acc st' = s_acc st
  else exists e, op_add o st op = Err e /\ plain_err e = true.
Proof.
  intros Hp Hv NN T L B. unfold op_add, op_value. rewrite Hp, Hv. unfold root_of_value.
  pose proof (root_value_sim t (NRaw t) T L B) as RV.
  destruct t; try congruence; try (simpl; eexists; split; reflexivity).
  - destruct RV as [R1 R2]. rewrite <- R2. simpl is_container.
    replace (is_container (cval (KAry (NRaw (TArr l)) (map child l)))) with true by reflexivity.
    eexists. split; [reflexivity|]. unfold sval, sgood. cbn [s_root s_acc]. split; auto. split; eauto.
  - destruct (doc_of ms) as [k ob]. destruct RV as [R1 R2]. rewrite <- R2.
    replace (is_container (cval (KDoc (NRaw (TObj ms)) k ob))) with true
      by (unfold cval; cbn [node_of_con]; rewrite aval_doc; reflexivity).
    eexists. split; [reflexivity|]. unfold sval, sgood. cbn [s_root s_acc]. split; auto. split; eauto.
Qed.

Lemma op_replace_root_sim o st op t :
  op_str op (B "path") = Ok [] -> aget (B "value") op = Some (Some t) -> t <> TNull ->
  tnodup t = true -> tlit t = true -> tsb t ->
  if is_container (den t)
  then exists st', op_replace o st op = Ok st' /\ sval st' = den t /\ sgood st' /\ s_acc st' = s_acc st
  else exists e, op_replace o st op = Err e /\ plain_err e = true.
Proof.
  intros Hp Hv NN T L B. unfold op_replace, op_value. rewrite Hp, Hv.
  pose proof (root_value_sim t NNil T L B) as RV.
  destruct t; try congruence; try (simpl; eexists; split; reflexivity).
  - destruct RV as [R1 R2]. rewrite <- R2.
    replace (is_container (cval (KAry NNil (map child l)))) with true by reflexivity.
    eexists. split; [reflexivity|]. unfold sval, sgood. cbn [s_root s_acc]. split; auto. split; eauto.
  - destruct (doc_of ms) as [k ob]. destruct RV as [R1 R2]. rewrite <- R2.
    replace (is_container (cval (KDoc NNil k ob))) with true
      by (unfold cval; cbn [node_of_con]; rewrite aval_doc; reflexivity).
    eexists. split; [reflexivity|]. unfold sval, sgood. cbn [s_root s_acc]. split; auto. split; eauto.
Qed.

Lemma op_test_root_sim o st op c :
  s_root st = RCon c -> cgood c -> op_str op (B "path") = Ok [] -> val_good op ->
  if jeq (cval c) (ref_value op)
  then exists st', op_test o st op = Ok st' /\ sval st' = cval c /\ sgood st' /\ s_acc st' = s_acc st
  else op_test o st op = Err ETestFailed.
Proof.
  intros Hr G Hp Vg. pose proof (opv_good op Vg) as Gv. unfold op_test. rewrite Hp, Hr. fold (opv op).
  rewrite <- opv_aval.
  assert (EQ : node_equal (node_of_con c) (opv op) = jeq (cval c) (aval (opv op))).
  { destruct G as [[W [L _]] _]. destruct Gv as [Wv [Lv _]]. apply node_equal_spec; auto. }
  destruct c as [s k ob| |s ns]; [| exfalso; exact (proj2 G) |]; cbn [root_node]; rewrite EQ;
    destruct (jeq _ _); auto.
  - destruct (deep_sim (NDoc k ob) (proj1 G)) as [D1 D2]. cbn [deep] in *.
    eexists. split; [reflexivity|]. unfold sval, sgood. cbn [s_root s_acc]. unfold cval. cbn [node_of_con].
    split; [exact D1|]. split; auto. eexists. split; [reflexivity|]. split; [exact D2 | exact I].
  - destruct (deep_sim (NAry ns) (proj1 G)) as [D1 D2]. cbn [deep] in *.
    eexists. split; [reflexivity|]. unfold sval, sgood. cbn [s_root s_acc]. unfold cval. cbn [node_of_con].
    split; [exact D1|]. split; auto. eexists. split; [reflexivity|]. split; [exact D2 | exact I].
Qed.

(* ---- copy ---- *)
(* deepCopy re-encodes the value (MarshalEscaped) and stores the bytes as a fresh raw node.  That the
   re-encoded text denotes the same value and satisfies the invariant again is the codec round trip
   (StrInv.codec_node: quote/unquote on valid UTF-8 names, HTML escaping of scanner-accepted bodies). *)
Lemma nnil_or (c : node) : c = NNil \/ c <> NNil.
Proof. destruct c; auto; right; discriminate. Qed.

Lemma deep_copy_sim o v : ngood v ->
  aval (fst (deep_copy o v)) = aval v /\ ngood (fst (deep_copy o v)).
Proof.
  intros [W [L S]]. unfold deep_copy. destruct (nnil_or v) as [->|NN]; [split; [reflexivity | apply ngood_nil]|].
  pose proof (codec_node (o_esc o) v W L S) as C. unfold enc in C.
  destruct v; try congruence; cbn [fst]; exact C.
Qed.

Definition unit_fn (c' : con) (_ : bytes) : unit * con := (tt, c').

Lemma find_unit_sim o c r :
  cgood c -> Forall tok_dom (map decode_token (split_slash r)) ->
  match descend (dia o) (map decode_token (path_parts r)) (cval c) with
  | Some p => if is_container p
              then exists c2, find o c (x2f :: r) unit_fn = (FoundAt tt, c2) /\ cval c2 = cval c /\ cgood c2
              else exists c2, find o c (x2f :: r) unit_fn = (FoundNil, c2)
  | None => exists c2, find o c (x2f :: r) unit_fn = (FoundNil, c2)
  end.
Proof.
  intros G D. pose proof (find_spec o c r unit_fn G D) as FS.
  destruct (descend (dia o) (map decode_token (path_parts r)) (cval c)) as [p|] eqn:Ed.
  - destruct (is_container p).
    + destruct FS as [cp [back [E1 [E2 [E3 E4]]]]]. cbn [unit_fn fst snd] in E3.
      destruct (E4 cp E2) as [F1 F2]. exists (back cp). split; auto. split; auto.
      rewrite F1, E1. apply rebuild_same. exact Ed.
    + destruct FS as [c' [F1 _]]. eauto.
  - destruct FS as [c' [F1 _]]. eauto.
Qed.

Lemma at_parent_unreachable d ps t j g :
  (forall p t, is_container p = false -> g p t = RFail FUnreachable) ->
  match descend d ps j with Some p => is_container p = false | None => True end ->
  at_parent d (ps ++ [t]) j g = RFail FUnreachable.
Proof.
  intros NC H. rewrite at_parent_snoc. destruct (descend d ps j) as [p|]; auto. rewrite (NC p t H). reflexivity.
Qed.

Definition get_fn (o : opts) (c' : con) (key : bytes) : res node * con := (con_get o c' key, c').

(* the depth check of deepCopy, on a good node: a statement about the value *)
Lemma copy_check_fits o v : ngood v -> (odepth (aval v) <= max_depth)%N -> copy_too_deep o v = false.
Proof. intros [W _] B. rewrite (copy_too_deep_val o v W). apply N.ltb_ge. exact B. Qed.

Lemma copy_check_deep o v : ngood v -> (max_depth < odepth (aval v))%N -> copy_too_deep o v = true.
Proof. intros [W _] B. rewrite (copy_too_deep_val o v W). apply N.ltb_lt. exact B. Qed.

(* from not "", path not "", no limit; the value copied (as the reference resolves it) is within
   the nesting limit of the decoder *)
Lemma op_copy_sim o st op rf r c :
  s_root st = RCon c -> cgood c -> o_limit o = 0%Z ->
  op_str op (B "from") = Ok (x2f :: rf) -> Forall tok_dom (map decode_token (split_slash rf)) ->
  op_str op (B "path") = Ok (x2f :: r) -> Forall tok_dom (map decode_token (split_slash r)) ->
  (forall v, get_at (dia o) (ptoks rf) (cval c) = ROk v -> (odepth v <= max_depth)%N) ->
  match (v <- get_at (dia o) (ptoks rf) (cval c) ;; at_parent (dia o) (ptoks r) (cval c) (add_leaf (dia o) v)) with
  | ROk j' => exists st', op_copy o st op = Ok st' /\ sval st' = j' /\ sgood st'
  | RFail cz => exists e, op_copy o st op = Err e /\ cause_rel cz e
  end.
Proof.
  intros Hr G Lim Hf Df Hp Dp Fit. unfold op_copy. rewrite Hf, Hr.
  change (find o c (x2f :: rf) _) with (find o c (x2f :: rf) (get_fn o)).
  pose proof (find_get_sim o c rf G Df) as FG. fold (get_fn o) in FG. unfold ptoks at 1.
  destruct (get_at (dia o) (map decode_token (path_parts rf) ++ [path_key rf]) (cval c)) as [j|cz] eqn:Eg; simpl.
  2: { destruct FG as [e [c2 [[F1|[F1 ->]] [F2 _]]]]; rewrite F1; eauto. }
  destruct FG as [v0 [c1 [F1 [F2 [F3 [F4 F5]]]]]]. rewrite F1, Hp.
  change (find o c1 (x2f :: r) _) with (find o c1 (x2f :: r) unit_fn).
  pose proof (find_unit_sim o c1 r F5 Dp) as FU. rewrite F4 in FU.
  assert (NC : forall p t, is_container p = false -> add_leaf (dia o) j p t = RFail FUnreachable).
  { intros p t Cp. apply (proj1 (leaf_noncontainer (dia o) p t Cp)). }
  destruct (descend (dia o) (map decode_token (path_parts r)) (cval c)) as [p|] eqn:Ed.
  2: { destruct FU as [c2 U1]. rewrite U1. unfold ptoks. rewrite at_parent_unreachable; auto; [|rewrite Ed; exact I].
       exists EMissing. split; reflexivity. }
  destruct (is_container p) eqn:Cp.
  2: { destruct FU as [c2 U1]. rewrite U1. unfold ptoks. rewrite at_parent_unreachable; auto; [|rewrite Ed; exact Cp].
       exists EMissing. split; reflexivity. }
  destruct FU as [c2 [U1 [U2 U3]]]. rewrite U1.
  change (find o c2 (x2f :: rf) _) with (find o c2 (x2f :: rf) (get_fn o)).
  pose proof (find_get_sim o c2 rf U3 Df) as FG2. fold (get_fn o) in FG2. rewrite U2 in FG2.
  unfold ptoks in Eg, Fit. rewrite Eg in FG2. destruct FG2 as [v [c3 [G1 [G2 [G3 _]]]]]. rewrite G1.
  rewrite (copy_check_fits o v G3) by (rewrite G2; apply Fit; exact Eg).
  destruct (deep_copy_sim o v G3) as [DC1 DC2]. destruct (deep_copy o v) as [cp sz]. cbn [fst] in *.
  rewrite Lim. change ((0 <? 0)%Z) with false. cbn [andb].
  change (find o c2 (x2f :: r) _) with (find o c2 (x2f :: r) (add_fn o cp)).
  pose proof (add_find_sim o c2 r cp U3 Dp DC2) as AF. rewrite U2, DC1, G2 in AF.
  destruct (at_parent (dia o) (ptoks r) (cval c) (add_leaf (dia o) j)) as [j'|cz].
  - destruct AF as [a [c4 [A1 [A2 A3]]]]. rewrite A1. eexists. split; [reflexivity|].
    unfold sval, sgood. cbn [s_root]. split; auto. eauto.
  - destruct AF as [e [c4 [[A1|[A1 ->]] A2]]]; rewrite A1; eauto.
Qed.

(* the complementary case: the source resolves to a value nested deeper than the decoder accepts.
   Order of the checks in copy(): source, path, destination parent, THEN the depth (deepCopy), then
   the size limit, then the add: so an unreachable destination parent is still reported as such
   (ErrMissing, as the reference's FUnreachable), and otherwise the error is deepCopy's, whatever
   the limit is and whether or not the add itself could succeed *)
Definition dest_reachable (d : dialect) (doc : ojson) (r : bytes) : bool :=
  match descend d (map decode_token (path_parts r)) doc with
  | Some p => is_container p
  | None => false
  end.

Lemma dest_unreachable_ref d doc r g :
  (forall p t, is_container p = false -> g p t = RFail FUnreachable) ->
  dest_reachable d doc r = false -> at_parent d (ptoks r) doc g = RFail FUnreachable.
Proof.
  intros NC H. unfold ptoks. apply at_parent_unreachable; [exact NC|]. unfold dest_reachable in H.
  destruct (descend d (map decode_token (path_parts r)) doc); [exact H | exact I].
Qed.

Lemma op_copy_too_deep o st op rf r c j :
  s_root st = RCon c -> cgood c ->
  op_str op (B "from") = Ok (x2f :: rf) -> Forall tok_dom (map decode_token (split_slash rf)) ->
  op_str op (B "path") = Ok (x2f :: r) -> Forall tok_dom (map decode_token (split_slash r)) ->
  get_at (dia o) (ptoks rf) (cval c) = ROk j -> (max_depth < odepth j)%N ->
  op_copy o st op = if dest_reachable (dia o) (cval c) r then Err EInvalid else Err EMissing.
Proof.
  intros Hr G Hf Df Hp Dp Eg Deep. unfold op_copy. rewrite Hf, Hr.
  change (find o c (x2f :: rf) _) with (find o c (x2f :: rf) (get_fn o)).
  pose proof (find_get_sim o c rf G Df) as FG. fold (get_fn o) in FG. unfold ptoks in Eg. rewrite Eg in FG.
  destruct FG as [v0 [c1 [F1 [F2 [F3 [F4 F5]]]]]]. rewrite F1, Hp.
  change (find o c1 (x2f :: r) _) with (find o c1 (x2f :: r) unit_fn).
  pose proof (find_unit_sim o c1 r F5 Dp) as FU. rewrite F4 in FU. unfold dest_reachable.
  destruct (descend (dia o) (map decode_token (path_parts r)) (cval c)) as [p|] eqn:Ed.
  2: { destruct FU as [c2 U1]. rewrite U1. reflexivity. }
  destruct (is_container p) eqn:Cp.
  2: { destruct FU as [c2 U1]. rewrite U1. reflexivity. }
  destruct FU as [c2 [U1 [U2 U3]]]. rewrite U1.
  change (find o c2 (x2f :: rf) _) with (find o c2 (x2f :: rf) (get_fn o)).
  pose proof (find_get_sim o c2 rf U3 Df) as FG2. fold (get_fn o) in FG2. rewrite U2 in FG2.
  rewrite Eg in FG2. destruct FG2 as [v [c3 [G1 [G2 [G3 _]]]]]. rewrite G1.
  rewrite (copy_check_deep o v G3) by (rewrite G2; exact Deep). reflexivity.
Qed.

(* copy from "" (the whole document, as it is now) *)
Lemma op_copy_root_sim o st op r c :
  s_root st = RCon c -> cgood c -> o_limit o = 0%Z ->
  op_str op (B "from") = Ok [] ->
  op_str op (B "path") = Ok (x2f :: r) -> Forall tok_dom (map decode_token (split_slash r)) ->
  (odepth (cval c) <= max_depth)%N ->
  match at_parent (dia o) (ptoks r) (cval c) (add_leaf (dia o) (cval c)) with
  | ROk j' => exists st', op_copy o st op = Ok st' /\ sval st' = j' /\ sgood st'
  | RFail cz => exists e, op_copy o st op = Err e /\ cause_rel cz e
  end.
Proof.
  intros Hr G Lim Hf Hp Dp Fit. unfold op_copy. rewrite Hf, Hr.
  assert (F0 : find o c [] (fun c' key => (con_get o c' key, c')) = (FoundAt (con_get o c []), c)) by reflexivity.
  rewrite F0.
  assert (G0 : exists self, con_get o c [] = Ok self).
  { destruct c as [s k ob| |s ns]; [| exfalso; exact (proj2 G) |]; simpl; eauto. }
  destruct G0 as [self G0]. rewrite G0, Hp.
  change (find o c (x2f :: r) _) with (find o c (x2f :: r) unit_fn).
  pose proof (find_unit_sim o c r G Dp) as FU.
  assert (NC : forall p t, is_container p = false -> add_leaf (dia o) (cval c) p t = RFail FUnreachable).
  { intros p t Cp. apply (proj1 (leaf_noncontainer (dia o) p t Cp)). }
  destruct (descend (dia o) (map decode_token (path_parts r)) (cval c)) as [p|] eqn:Ed.
  2: { destruct FU as [c2 U1]. rewrite U1. unfold ptoks. rewrite at_parent_unreachable; auto; [|rewrite Ed; exact I].
       exists EMissing. split; reflexivity. }
  destruct (is_container p) eqn:Cp.
  2: { destruct FU as [c2 U1]. rewrite U1. unfold ptoks. rewrite at_parent_unreachable; auto; [|rewrite Ed; exact Cp].
       exists EMissing. split; reflexivity. }
  destruct FU as [c2 [U1 [U2 U3]]]. rewrite U1.
  rewrite (copy_check_fits o (node_of_con c2) (proj1 U3)) by (fold (cval c2); rewrite U2; exact Fit).
  destruct (deep_copy_sim o (node_of_con c2) (proj1 U3)) as [DC1 DC2].
  destruct (deep_copy o (node_of_con c2)) as [cp sz]. cbn [fst] in *.
  rewrite Lim. change ((0 <? 0)%Z) with false. cbn [andb].
  change (find o c2 (x2f :: r) _) with (find o c2 (x2f :: r) (add_fn o cp)).
  pose proof (add_find_sim o c2 r cp U3 Dp DC2) as AF. fold (cval c2) in DC1. rewrite DC1, U2 in AF.
  destruct (at_parent (dia o) (ptoks r) (cval c) (add_leaf (dia o) (cval c))) as [j'|cz].
  - destruct AF as [a [c4 [A1 [A2 A3]]]]. rewrite A1. eexists. split; [reflexivity|].
    unfold sval, sgood. cbn [s_root]. split; auto. eauto.
  - destruct AF as [e [c4 [[A1|[A1 ->]] A2]]]; rewrite A1; eauto.
Qed.

Lemma op_copy_root_too_deep o st op r c :
  s_root st = RCon c -> cgood c ->
  op_str op (B "from") = Ok [] ->
  op_str op (B "path") = Ok (x2f :: r) -> Forall tok_dom (map decode_token (split_slash r)) ->
  (max_depth < odepth (cval c))%N ->
  op_copy o st op = if dest_reachable (dia o) (cval c) r then Err EInvalid else Err EMissing.
Proof.
  intros Hr G Hf Hp Dp Deep. unfold op_copy. rewrite Hf, Hr.
  assert (F0 : find o c [] (fun c' key => (con_get o c' key, c')) = (FoundAt (con_get o c []), c)) by reflexivity.
  rewrite F0.
  assert (G0 : exists self, con_get o c [] = Ok self).
  { destruct c as [s k ob| |s ns]; [| exfalso; exact (proj2 G) |]; simpl; eauto. }
  destruct G0 as [self G0]. rewrite G0, Hp.
  change (find o c (x2f :: r) _) with (find o c (x2f :: r) unit_fn).
  pose proof (find_unit_sim o c r G Dp) as FU. unfold dest_reachable.
  destruct (descend (dia o) (map decode_token (path_parts r)) (cval c)) as [p|] eqn:Ed.
  2: { destruct FU as [c2 U1]. rewrite U1. reflexivity. }
  destruct (is_container p) eqn:Cp.
  2: { destruct FU as [c2 U1]. rewrite U1. reflexivity. }
  destruct FU as [c2 [U1 [U2 U3]]]. rewrite U1.
  rewrite (copy_check_deep o (node_of_con c2) (proj1 U3)) by (fold (cval c2); rewrite U2; exact Deep). reflexivity.
Qed.

(* ---- one operation ---- *)
From JP Require Import Domain.

Definition plain_opts (o : opts) : Prop := o_allow o = false /\ o_ensure o = false /\ o_limit o = 0%Z.

Definition ptr_ok (p : bytes) : Prop := exists r, p = x2f :: r /\ Forall tok_dom (map decode_token (split_slash r)).

(* the stated domain of C01, on a decoded operation *)
Definition op_dom (op : operation) : Prop :=
  val_good op /\
  exists path, op_str op (B "path") = Ok path /\
    match op_kind op with
    | KAdd | KReplace =>
        ptr_ok path \/ (path = [] /\ exists t, aget (B "value") op = Some (Some t) /\ t <> TNull)
    | KRemove => ptr_ok path
    | KTest => ptr_ok path \/ path = []
    | KMove | KCopy =>
        ptr_ok path /\ exists from, op_str op (B "from") = Ok from /\ (ptr_ok from \/ from = [])
    | KUnknown => False
    end.

Lemma ref_value_den_op op : value_or_null (rvalue (den_op op)) = ref_value op.
Proof. unfold den_op, ref_value. simpl. destruct (aget (B "value") op) as [[t|]|]; reflexivity. Qed.

Lemma match_nonempty {A B} (l : list A) (a b : B) : l <> [] -> match l with [] => a | _ :: _ => b end = b.
Proof. destruct l; congruence. Qed.

(* copy_fits (Depth.v): the operation is not a copy whose source value nests deeper than the decoder's
   limit; for every other kind of operation the hypothesis is trivially true (copy_fits_not_copy) *)
Theorem step_sim o st op :
  sgood st -> plain_opts o -> op_dom op ->
  copy_fits (dia o) (sval st) (den_op op) = true ->
  match rfc_step (dia o) (sval st) (den_op op) with
  | ROk j' => exists st', step o st op = Ok st' /\ sval st' = j' /\ sgood st'
  | RFail cz => exists e, step o st op = Err e /\ cause_rel cz e
  end.
Proof.
  intros [c [Hr G]] [Al [En Lim]] [Vg [path [Hp K]]] Fit.
  assert (SV : sval st = cval c) by (unfold sval; rewrite Hr; reflexivity).
  unfold rfc_step, step. rewrite ref_value_den_op.
  assert (RP : rpath (den_op op) = path) by (unfold den_op; simpl; rewrite Hp; reflexivity).
  assert (RK : rkind (den_op op) = ref_kind (op_kind op)) by reflexivity.
  rewrite RP, RK, SV.
  destruct (op_kind op) eqn:Ek; cbn [ref_kind]; try contradiction.
  - (* add *)
    destruct K as [[r [-> D]]|[-> [t [Hv NN]]]].
    + rewrite ptr_tokens_slash. fold (ptoks r). unfold rfc_add. rewrite (match_nonempty _ _ _ (ptoks_nonempty r)).
      pose proof (op_add_sim o st op r c Hr G En Hp D Vg) as S.
      destruct (at_parent _ _ _ _); [destruct S as [st' [S1 [S2 [S3 _]]]]; eauto | exact S].
    + cbn [ptr_tokens rfc_add]. unfold ref_value. rewrite Hv.
      unfold val_good in Vg. rewrite Hv in Vg. destruct Vg as [T [L B]].
      pose proof (op_add_root_sim o st op t Hp Hv NN T L B) as S.
      destruct (is_container (den t)); [destruct S as [st' [S1 [S2 [S3 _]]]]; eauto | exact S].
  - (* remove *)
    destruct K as [r [-> D]]. rewrite ptr_tokens_slash. fold (ptoks r). rewrite (match_nonempty _ _ _ (ptoks_nonempty r)).
    pose proof (op_remove_sim o st op r c Hr G Al Hp D) as S.
    destruct (at_parent _ _ _ _); [destruct S as [st' [S1 [S2 [S3 _]]]]; eauto | exact S].
  - (* replace *)
    destruct K as [[r [-> D]]|[-> [t [Hv NN]]]].
    + rewrite ptr_tokens_slash. fold (ptoks r). rewrite (match_nonempty _ _ _ (ptoks_nonempty r)).
      pose proof (op_replace_sim o st op r c Hr G Hp D Vg) as S.
      destruct (at_parent _ _ _ _); [destruct S as [st' [S1 [S2 [S3 _]]]]; eauto | exact S].
    + cbn [ptr_tokens]. unfold ref_value. rewrite Hv.
      unfold val_good in Vg. rewrite Hv in Vg. destruct Vg as [T [L B]].
      pose proof (op_replace_root_sim o st op t Hp Hv NN T L B) as S.
      destruct (is_container (den t)); [destruct S as [st' [S1 [S2 [S3 _]]]]; eauto | exact S].
  - (* move *)
    destruct K as [[r [-> D]] [from [Hf Kf]]].
    assert (RF : rfrom (den_op op) = from) by (unfold den_op; simpl; rewrite Hf; reflexivity). rewrite RF.
    destruct Kf as [[rf [-> Df]]| ->].
    + rewrite !ptr_tokens_slash. fold (ptoks r) (ptoks rf). rewrite (match_nonempty _ _ _ (ptoks_nonempty rf)).
      pose proof (op_move_sim o st op rf r c Hr G Al Hf Df Hp D) as S.
      assert (E : (v <- get_at (dia o) (ptoks rf) (cval c);;
                   doc1 <- at_parent (dia o) (ptoks rf) (cval c) (remove_leaf (dia o));;
                   match ptoks r with [] => RFail FRoot | _ :: _ => at_parent (dia o) (ptoks r) doc1 (add_leaf (dia o) v) end) =
                  (v <- get_at (dia o) (ptoks rf) (cval c);;
                   doc1 <- at_parent (dia o) (ptoks rf) (cval c) (remove_leaf (dia o));;
                   at_parent (dia o) (ptoks r) doc1 (add_leaf (dia o) v))).
      { destruct (get_at _ _ _); auto. simpl. destruct (at_parent _ _ _ (remove_leaf _)); auto. simpl.
        apply match_nonempty. apply ptoks_nonempty. }
      rewrite E. destruct (bind _ _); [destruct S as [st' [S1 [S2 [S3 _]]]]; eauto | exact S].
    + rewrite ptr_tokens_slash. cbn [ptr_tokens]. unfold op_move. rewrite Hf. exists EInvalid. split; reflexivity.
  - (* copy *)
    destruct K as [[r [-> D]] [from [Hf Kf]]].
    assert (RF : rfrom (den_op op) = from) by (unfold den_op; simpl; rewrite Hf; reflexivity). rewrite RF.
    destruct Kf as [[rf [-> Df]]| ->].
    + rewrite !ptr_tokens_slash. fold (ptoks r) (ptoks rf).
      assert (Fit' : forall v, get_at (dia o) (ptoks rf) (cval c) = ROk v -> (odepth v <= max_depth)%N).
      { intros v Ev. unfold copy_fits in Fit. rewrite RK, RF, ptr_tokens_slash, SV in Fit. cbn [ref_kind] in Fit.
        fold (ptoks rf) in Fit. rewrite Ev in Fit. apply N.leb_le. exact Fit. }
      pose proof (op_copy_sim o st op rf r c Hr G Lim Hf Df Hp D Fit') as S.
      assert (E : (v <- get_at (dia o) (ptoks rf) (cval c);;
                   match ptoks r with [] => RFail FRoot | _ :: _ => at_parent (dia o) (ptoks r) (cval c) (add_leaf (dia o) v) end) =
                  (v <- get_at (dia o) (ptoks rf) (cval c);; at_parent (dia o) (ptoks r) (cval c) (add_leaf (dia o) v))).
      { destruct (get_at _ _ _); auto. simpl. apply match_nonempty. apply ptoks_nonempty. }
      rewrite E. exact S.
    + rewrite ptr_tokens_slash. cbn [ptr_tokens get_at bind]. fold (ptoks r).
      rewrite (match_nonempty _ _ _ (ptoks_nonempty r)).
      assert (Fit' : (odepth (cval c) <= max_depth)%N).
      { unfold copy_fits in Fit. rewrite RK, RF, SV in Fit. cbn [ref_kind ptr_tokens get_at] in Fit. apply N.leb_le. exact Fit. }
      exact (op_copy_root_sim o st op r c Hr G Lim Hf Hp D Fit').
  - (* test *)
    destruct K as [[r [-> D]]| ->].
    + rewrite ptr_tokens_slash. fold (ptoks r). rewrite (match_nonempty _ _ _ (ptoks_nonempty r)).
      pose proof (op_test_sim o st op r c Hr G Hp D Vg) as S.
      destruct (at_parent _ _ _ _); [destruct S as [st' [S1 [S2 [S3 _]]]]; eauto | exact S].
    + cbn [ptr_tokens]. pose proof (op_test_root_sim o st op c Hr G Hp Vg) as S.
      destruct (jeq (cval c) (ref_value op)).
      * destruct S as [st' [S1 [S2 [S3 _]]]]. eauto.
      * exists ETestFailed. split; [exact S | reflexivity].
Qed.

(* the complementary statement: a copy whose source (in the reference) nests deeper than the decoder's
   limit is an error of the model, never a success and never a panic: deepCopy's error, unless the
   destination parent is unreachable (that check comes first; the reference fails there too).
   No condition on the options: the depth check precedes the size limit. *)
Theorem step_copy_too_deep o st op :
  sgood st -> op_dom op ->
  copy_fits (dia o) (sval st) (den_op op) = false ->
  step o st op = Err EInvalid \/
  (step o st op = Err EMissing /\ rfc_step (dia o) (sval st) (den_op op) = RFail FUnreachable).
Proof.
  intros [c [Hr G]] [Vg [path [Hp K]]] Fit.
  assert (SV : sval st = cval c) by (unfold sval; rewrite Hr; reflexivity).
  assert (RP : rpath (den_op op) = path) by (unfold den_op; simpl; rewrite Hp; reflexivity).
  assert (RK : rkind (den_op op) = ref_kind (op_kind op)) by reflexivity.
  unfold copy_fits in Fit. rewrite RK in Fit. unfold rfc_step, step. rewrite RP, RK.
  destruct (op_kind op) eqn:Ek; cbn [ref_kind] in *; try discriminate.
  destruct K as [[r [-> D]] [from [Hf Kf]]].
  assert (RF : rfrom (den_op op) = from) by (unfold den_op; simpl; rewrite Hf; reflexivity). rewrite RF in *.
  assert (NC : forall v p t, is_container p = false -> add_leaf (dia o) v p t = RFail FUnreachable).
  { intros v p t Cp. apply (proj1 (leaf_noncontainer (dia o) p t Cp)). }
  rewrite SV in *. destruct Kf as [[rf [-> Df]]| ->].
  - rewrite ptr_tokens_slash in Fit. rewrite !ptr_tokens_slash. fold (ptoks rf) in *. fold (ptoks r).
    destruct (get_at (dia o) (ptoks rf) (cval c)) as [j|] eqn:Eg; [|discriminate]. apply N.leb_gt in Fit.
    rewrite (op_copy_too_deep o st op rf r c j Hr G Hf Df Hp D Eg Fit).
    destruct (dest_reachable (dia o) (cval c) r) eqn:R; [left; reflexivity | right; split; [reflexivity|]].
    cbn [bind]. rewrite (match_nonempty _ _ _ (ptoks_nonempty r)). apply dest_unreachable_ref; [apply NC | exact R].
  - cbn [ptr_tokens get_at] in Fit. apply N.leb_gt in Fit.
    rewrite (op_copy_root_too_deep o st op r c Hr G Hf Hp D Fit).
    destruct (dest_reachable (dia o) (cval c) r) eqn:R; [left; reflexivity | right; split; [reflexivity|]].
    rewrite ptr_tokens_slash. cbn [ptr_tokens get_at bind]. fold (ptoks r).
    rewrite (match_nonempty _ _ _ (ptoks_nonempty r)). apply dest_unreachable_ref; [apply NC | exact R].
Qed.

(* in particular: where RFC 6902 succeeds and the copied value is too deep, the library reports
   deepCopy's error *)
Corollary step_copy_too_deep_ok o st op j' :
  sgood st -> op_dom op ->
  copy_fits (dia o) (sval st) (den_op op) = false ->
  rfc_step (dia o) (sval st) (den_op op) = ROk j' ->
  step o st op = Err EInvalid.
Proof.
  intros G D Fit R. destruct (step_copy_too_deep o st op G D Fit) as [E|[_ E]]; [exact E | congruence].
Qed.

(* ---- whole patches ---- *)
Definition has_copy (p : list operation) : Prop := exists op, In op p /\ op_kind op = KCopy.

(* copies_fit (Depth.v): copy_fits at every operation the reference run reaches *)
Theorem apply_sim o : plain_opts o -> forall p i st,
  sgood st -> Forall op_dom p ->
  copies_fit (dia o) (sval st) (map den_op p) = true ->
  match rfc_apply_from (dia o) i (sval st) (map den_op p) with
  | Done doc => exists st', apply_from o i st p = AOk st' /\ sval st' = doc /\ sgood st'
  | Failed j cz => exists e, apply_from o i st p = AErr j e /\ cause_rel cz e
  end.
Proof.
  intros PO. induction p as [|op p IH]; intros i st G D F; cbn [map rfc_apply_from apply_from copies_fit] in *.
  - exists st. auto.
  - inversion D as [|? ? Dop Dp]; subst. apply andb_prop in F as [F1 F2].
    pose proof (step_sim o st op G PO Dop F1) as S.
    destruct (rfc_step (dia o) (sval st) (den_op op)) as [j'|cz].
    + destruct S as [st' [S1 [S2 S3]]]. rewrite S1. rewrite <- S2 in F2.
      specialize (IH (S i) st' S3 Dp F2). rewrite S2 in IH. exact IH.
    + destruct S as [e [S1 S2]]. rewrite S1. eauto.
Qed.

(* when the condition fails the patch is rejected: at the first copy that does not fit (deepCopy's
   error), or at that same operation for the reason the reference gives (its destination parent is
   unreachable); operations before it behave as in the reference *)
Theorem apply_copy_too_deep o : plain_opts o -> forall p i st,
  sgood st -> Forall op_dom p ->
  copies_fit (dia o) (sval st) (map den_op p) = false ->
  match rfc_apply_from (dia o) i (sval st) (map den_op p) with
  | Done _ => exists j, apply_from o i st p = AErr j EInvalid
  | Failed k cz => exists j e, apply_from o i st p = AErr j e /\ (e = EInvalid \/ (j = k /\ cause_rel cz e))
  end.
Proof.
  intros PO. induction p as [|op p IH]; intros i st G D F; cbn [map rfc_apply_from apply_from copies_fit] in *.
  - discriminate.
  - inversion D as [|? ? Dop Dp]; subst.
    destruct (copy_fits (dia o) (sval st) (den_op op)) eqn:F1; cbn [andb] in F.
    + pose proof (step_sim o st op G PO Dop F1) as S.
      destruct (rfc_step (dia o) (sval st) (den_op op)) as [j'|cz]; [|discriminate].
      destruct S as [st' [S1 [S2 S3]]]. rewrite S1. rewrite <- S2 in F.
      specialize (IH (S i) st' S3 Dp F). rewrite S2 in IH. exact IH.
    + destruct (step_copy_too_deep o st op G Dop F1) as [E|[E R]]; rewrite E.
      * destruct (rfc_step (dia o) (sval st) (den_op op)) as [j'|cz].
        -- destruct (rfc_apply_from (dia o) (S i) j' (map den_op p)); eauto.
        -- eauto.
      * rewrite R. exists i, EMissing. split; [reflexivity|]. right. split; reflexivity.
Qed.

Lemma parse_nil : parse [] = None.
Proof. reflexivity. Qed.

From JP Require Import ParseFacts.

(* Apply on bytes: for a document whose root is an object or array (no duplicate names) and a
   patch in the stated domain, the model of Apply succeeds exactly when the ORDERED reference
   does, and then its output is the encoding of a node whose value IS the reference's result
   (member order and number literals included); when the reference fails, Apply fails at the same
   operation with an error of the corresponding class *)
Lemma load_doc_good o doc t :
  parse doc = Some t -> root_container t = true -> tnodup t = true ->
  exists c, load_doc o t = Ok (RCon c) /\ cgood c /\ cval c = den t.
Proof.
  intros P RC T. unfold load_doc. pose proof (parse_tlit _ _ P) as L.
  pose proof (root_value_sim t (NRaw t) T L (parse_tsb _ _ P)) as RV.
  destruct t; try discriminate.
  - destruct RV as [R1 R2]. eexists. split; [reflexivity|]. split; auto.
  - destruct (doc_of ms) as [k ob]. destruct RV as [R1 R2]. eexists. split; [reflexivity|]. split; auto.
Qed.

Theorem api_apply_sim o indent p doc t :
  plain_opts o -> parse doc = Some t -> root_container t = true -> tnodup t = true ->
  Forall op_dom p ->
  copies_fit (dia o) (den t) (map den_op p) = true ->
  match rfc_apply (dia o) (den t) (map den_op p) with
  | Done j => exists n, api_apply o indent p doc = ROut (output o indent (render (o_esc o) n)) /\ aval n = j /\ ngood n
  | Failed i cz => exists e, api_apply o indent p doc = RErr (Some i) e /\ cause_rel cz e
  end.
Proof.
  intros PO P RC T D F. unfold api_apply. destruct doc as [|b doc]; [rewrite parse_nil in P; discriminate|].
  rewrite P. unfold apply_tree.
  destruct (load_doc_good o _ t P RC T) as [c [S1 [S2 S3]]]. rewrite S1.
  assert (F' : copies_fit (dia o) (sval (mkState (RCon c) 0)) (map den_op p) = true).
  { unfold sval. cbn [s_root]. rewrite S3. exact F. }
  pose proof (apply_sim o PO p 0%nat (mkState (RCon c) 0) (ex_intro _ c (conj eq_refl S2)) D F') as AS.
  unfold sval in AS at 1. cbn [s_root] in AS. rewrite S3 in AS. unfold rfc_apply.
  destruct (rfc_apply_from (dia o) 0 (den t) (map den_op p)) as [j|i cz].
  - destruct AS as [st' [A1 [A2 [c' [A3 A4]]]]]. rewrite A1. unfold marshal_root. rewrite A3.
    exists (node_of_con c'). unfold sval in A2. rewrite A3 in A2.
    destruct c' as [s k ob| |s ns]; [| exfalso; exact (proj2 A4) |]; (split; [reflexivity | split; [exact A2 | exact (proj1 A4)]]).
  - destruct AS as [e [A1 A2]]. rewrite A1. eauto.
Qed.

(* Apply on bytes when some copy the reference run reaches does not fit: an error at an operation *)
Theorem api_apply_copy_too_deep o indent p doc t :
  plain_opts o -> parse doc = Some t -> root_container t = true -> tnodup t = true ->
  Forall op_dom p ->
  copies_fit (dia o) (den t) (map den_op p) = false ->
  match rfc_apply (dia o) (den t) (map den_op p) with
  | Done _ => exists j, api_apply o indent p doc = RErr (Some j) EInvalid
  | Failed k cz => exists j e, api_apply o indent p doc = RErr (Some j) e /\ (e = EInvalid \/ (j = k /\ cause_rel cz e))
  end.
Proof.
  intros PO P RC T D F. unfold api_apply. destruct doc as [|b doc]; [rewrite parse_nil in P; discriminate|].
  rewrite P. unfold apply_tree.
  destruct (load_doc_good o _ t P RC T) as [c [S1 [S2 S3]]]. rewrite S1.
  assert (F' : copies_fit (dia o) (sval (mkState (RCon c) 0)) (map den_op p) = false).
  { unfold sval. cbn [s_root]. rewrite S3. exact F. }
  pose proof (apply_copy_too_deep o PO p 0%nat (mkState (RCon c) 0) (ex_intro _ c (conj eq_refl S2)) D F') as AS.
  unfold sval in AS at 1. cbn [s_root] in AS. rewrite S3 in AS. unfold rfc_apply.
  destruct (rfc_apply_from (dia o) 0 (den t) (map den_op p)) as [j|k cz].
  - destruct AS as [j0 A1]. rewrite A1. eauto.
  - destruct AS as [j0 [e [A1 A2]]]. rewrite A1. eauto.
Qed.

(* the condition holds in particular for a patch without copy operations ... *)
Lemma den_op_not_copy op : op_kind op <> KCopy -> rkind (den_op op) <> OpCopy.
Proof. unfold den_op. cbn [rkind]. destruct (op_kind op); cbn [ref_kind]; congruence. Qed.

Lemma copies_fit_no_copy_ops d p doc : Forall (fun op => op_kind op <> KCopy) p -> copies_fit d doc (map den_op p) = true.
Proof.
  intro H. apply copies_fit_no_copy. rewrite Forall_map. revert H. apply Forall_impl. exact den_op_not_copy.
Qed.

(* ---- consequences used by the property files ---- *)
Lemma cause_rel_test_iff cz e : cause_rel cz e -> (e = ETestFailed <-> cz = FTest).
Proof.
  destruct cz; simpl; intro H; split; intro E; subst; try reflexivity; try discriminate;
    try (destruct H as [H|[H|H]]; discriminate).
Qed.

Lemma cause_rel_missing cz e : cause_rel cz e -> cz = FMissingMember \/ cz = FUnreachable -> e = EMissing.
Proof. intros H [-> | ->]; exact H. Qed.

Lemma cause_rel_not_limit cz e : cause_rel cz e -> is_copy_limit e = false.
Proof.
  destruct cz; simpl; intro H; subst; try reflexivity; try (apply plain_nocl; exact H).
  destruct H as [->|[->| ->]]; reflexivity.
Qed.

(* ---- EnsurePathExistsOnAdd on a path whose parents all exist: nothing is created ---- *)
Lemma ensure_existing o : forall parts c,
  cgood c -> Forall tok_dom (map decode_token parts) ->
  (exists p, descend (dia o) (map decode_token (removelast parts)) (cval c) = Some p /\ is_container p = true) ->
  exists c', ensure o parts c = (None, c') /\ cval c' = cval c /\ cgood c'.
Proof.
  induction parts as [|part parts IH]; intros c G D H.
  - exists c. auto.
  - destruct parts as [|nextp rest]; [exists c; auto|].
    rewrite ensure_unfold. cbv zeta.
    inversion D as [|? ? Dk Dr]; subst.
    destruct H as [p [Hd Cp]]. change (removelast (part :: nextp :: rest)) with (part :: removelast (nextp :: rest)) in Hd.
    cbn [map descend] in Hd.
    pose proof (con_get_sim o c (decode_token part) G Dk) as CG.
    destruct (child_at (dia o) (cval c) (decode_token part)) as [j|] eqn:Ech; [|discriminate].
    destruct CG as [n [Hg [Ev Gn]]]. rewrite Hg.
    assert (Cj : is_container j = true).
    { destruct (removelast (nextp :: rest)) as [|t ts] eqn:Er.
      - cbn [map descend] in Hd. inversion Hd; subst. exact Cp.
      - cbn [map descend] in Hd. destruct j; try discriminate; reflexivity. }
    pose proof (into_con_sim n Gn) as IC. rewrite Ev, Cj in IC. destruct IC as [ch [Hic [Evc Gch]]].
    assert (Step : exists c', (let (e, ch') := ensure o (nextp :: rest) ch in (e, con_put o c (decode_token part) (node_of_con ch'))) = (None, c') /\
                              cval c' = cval c /\ cgood c').
    { destruct (IH ch Gch Dr) as [ch' [E1 [E2 E3]]].
      { exists p. rewrite Evc. split; [exact Hd | exact Cp]. }
      rewrite E1. eexists. split; [reflexivity|].
      destruct (con_put_sim o c (decode_token part) (node_of_con ch') n G Dk Hg (proj1 E3)) as [Q1 Q2].
      split; [|exact Q2]. rewrite Q1. fold (cval ch'). rewrite E2, Evc. apply put_child_same. exact Ech. }
    destruct n as [|t|ks ob|ns]; cbn [aval] in *.
    + rewrite <- Ev in Cj. discriminate.
    + destruct t; try (rewrite <- Ev in Cj; discriminate); rewrite Hic; [exact Step|].
      destruct ch; try exact Step; cbn [into_con] in Hic; destruct (doc_of ms); discriminate.
    + rewrite Hic. destruct ch; try exact Step; cbn [into_con] in Hic; discriminate.
    + rewrite Hic. exact Step.
Qed.

(* an add that succeeds without the option gives the same result with it *)
Theorem ensure_agrees o st op r c j' :
  s_root st = RCon c -> cgood c -> o_ensure o = true ->
  op_str op (B "path") = Ok (x2f :: r) -> Forall tok_dom (map decode_token (split_slash r)) -> val_good op ->
  at_parent (dia o) (ptoks r) (cval c) (add_leaf (dia o) (ref_value op)) = ROk j' ->
  exists st', op_add o st op = Ok st' /\ sval st' = j' /\ sgood st'.
Proof.
  intros Hr G En Hp D Vg AP.
  (* the parents exist: the reference descended through them *)
  assert (Par : exists p, descend (dia o) (map decode_token (path_parts r)) (cval c) = Some p /\ is_container p = true).
  { unfold ptoks in AP. rewrite at_parent_snoc in AP.
    destruct (descend (dia o) (map decode_token (path_parts r)) (cval c)) as [p|]; [|discriminate].
    exists p. split; auto. destruct (is_container p) eqn:Cp; auto.
    rewrite (proj1 (leaf_noncontainer (dia o) p (path_key r) Cp)) in AP. discriminate. }
  assert (SS : split_slash (x2f :: r) = [] :: split_slash r) by reflexivity.
  pose proof (split_slash_nonempty r) as NE.
  assert (EP : exists c1, ensure_path o c (x2f :: r) = (None, c1) /\ cval c1 = cval c /\ cgood c1).
  { unfold ensure_path. rewrite SS. destruct (split_slash r) as [|p0 ps] eqn:E; [congruence|].
    apply ensure_existing; [exact G | exact D | unfold path_parts in Par; rewrite E in Par; exact Par]. }
  destruct EP as [c1 [E1 [E2 E3]]].
  (* from here on: the add of op_add_sim on c1, whose value is that of c *)
  pose proof (opv_good op Vg) as Gv.
  pose proof (add_find_sim o c1 r (opv op) E3 D Gv) as AF. rewrite opv_aval, E2, AP in AF.
  destruct AF as [a [c2 [A1 [A2 A3]]]].
  unfold op_add. rewrite Hp, Hr, En, E1. fold (opv op).
  change (find o c1 (x2f :: r) _) with (find o c1 (x2f :: r) (add_fn o (opv op))). rewrite A1.
  eexists. split; [reflexivity|]. unfold sval, sgood. cbn [s_root]. split; auto. eauto.
Qed.
