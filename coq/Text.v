(* Text.v — bytes <-> tjson: an independent recursive-descent reader for RFC 8259 (nesting limited
   like the library: maxNestingDepth) and the compact printer.  No proofs here. *)
From JP Require Import Bytes Json.

Definition max_depth : N := 10000.

(* ---- strings: the bytes between the quotes, validated like RFC 8259 / the scanner ---- *)
(* returns (body, rest after the closing quote) *)
Fixpoint scan_string (s : bytes) : option (bytes * bytes) :=
  match s with
  | [] => None
  | c :: r =>
      match c with
      | x22 => Some ([], r)
      | x5c =>
          match r with
          | e :: r' =>
              match e with
              | x62 | x66 | x6e | x72 | x74 | x5c | x2f | x22 =>
                  match scan_string r' with
                  | Some (b, rest) => Some (c :: e :: b, rest)
                  | None => None
                  end
              | x75 =>
                  match r' with
                  | h1 :: h2 :: h3 :: h4 :: r'' =>
                      if is_hex h1 && is_hex h2 && is_hex h3 && is_hex h4 then
                        match scan_string r'' with
                        | Some (b, rest) => Some (c :: e :: h1 :: h2 :: h3 :: h4 :: b, rest)
                        | None => None
                        end
                      else None
                  | _ => None
                  end
              | _ => None
              end
          | [] => None
          end
      | _ =>
          if bn c <? 32 then None
          else match scan_string r with
               | Some (b, rest) => Some (c :: b, rest)
               | None => None
               end
      end
  end.

(* ---- numbers: RFC 8259 section 6: minus? int frac? exp? ---- *)
Fixpoint take_digits (s : bytes) : bytes * bytes :=
  match s with
  | c :: r => if is_digit c then let (d, rest) := take_digits r in (c :: d, rest) else ([], s)
  | [] => ([], [])
  end.

Definition scan_int (s : bytes) : option (bytes * bytes) :=
  match s with
  | c :: r =>
      if Byte.eqb c x30 then Some ([c], r)
      else if is_digit19 c then let (d, rest) := take_digits r in Some (c :: d, rest)
      else None
  | [] => None
  end.

Definition scan_frac (s : bytes) : option (bytes * bytes) :=
  match s with
  | x2e :: r =>
      match take_digits r with
      | ([], _) => None
      | (d, rest) => Some (x2e :: d, rest)
      end
  | _ => Some ([], s)
  end.

Definition scan_exp (s : bytes) : option (bytes * bytes) :=
  match s with
  | c :: r =>
      if Byte.eqb c x65 || Byte.eqb c x45 then
        let (sign, r') :=
          match r with
          | sg :: r'' => if Byte.eqb sg x2b || Byte.eqb sg x2d then ([sg], r'') else ([], r)
          | [] => ([], r)
          end in
        match take_digits r' with
        | ([], _) => None
        | (d, rest) => Some (c :: sign ++ d, rest)
        end
      else Some ([], s)
  | [] => Some ([], s)
  end.

Definition scan_number (s : bytes) : option (bytes * bytes) :=
  let (neg, s1) := match s with x2d :: r => ([x2d], r) | _ => ([], s) end in
  match scan_int s1 with
  | None => None
  | Some (i, s2) =>
      match scan_frac s2 with
      | None => None
      | Some (f, s3) =>
          match scan_exp s3 with
          | None => None
          | Some (e, s4) => Some (neg ++ i ++ f ++ e, s4)
          end
      end
  end.

Definition strip_prefix (p s : bytes) : option bytes :=
  (fix go (p s : bytes) : option bytes :=
     match p, s with
     | [], _ => Some s
     | x :: p', y :: s' => if Byte.eqb x y then go p' s' else None
     | _ :: _, [] => None
     end) p s.

(* ---- values ----
   d = how many more levels of nesting are allowed.  All three functions consume fuel on every
   call; fuel = 2 * length + 2 always suffices (see ParseFacts). *)
Fixpoint parse_value (fuel : nat) (d : N) (s : bytes) {struct fuel} : option (tjson * bytes) :=
  match fuel with
  | O => None
  | S f =>
      match skip_ws s with
      | [] => None
      | c :: r =>
          match c with
          | x7b (* { *) =>
              if d =? 0 then None else
              match skip_ws r with
              | x7d :: r' => Some (TObj [], r')
              | _ => match parse_members f (d - 1) r with
                     | Some (ms, rest) => Some (TObj ms, rest)
                     | None => None
                     end
              end
          | x5b (* [ *) =>
              if d =? 0 then None else
              match skip_ws r with
              | x5d :: r' => Some (TArr [], r')
              | _ => match parse_elems f (d - 1) r with
                     | Some (l, rest) => Some (TArr l, rest)
                     | None => None
                     end
              end
          | x22 (* quote *) =>
              match scan_string r with
              | Some (b, rest) => Some (TStr b, rest)
              | None => None
              end
          | x74 => match strip_prefix (B "rue") r with Some rest => Some (TTrue, rest) | None => None end
          | x66 => match strip_prefix (B "alse") r with Some rest => Some (TFalse, rest) | None => None end
          | x6e => match strip_prefix (B "ull") r with Some rest => Some (TNull, rest) | None => None end
          | _ =>
              match scan_number (c :: r) with
              | Some (lit, rest) => Some (TNum lit, rest)
              | None => None
              end
          end
      end
  end
(* one or more values separated by commas, then ']' *)
with parse_elems (fuel : nat) (d : N) (s : bytes) {struct fuel} : option (list tjson * bytes) :=
  match fuel with
  | O => None
  | S f =>
      match parse_value f d s with
      | None => None
      | Some (v, rest) =>
          match skip_ws rest with
          | x5d :: r' => Some ([v], r')
          | x2c :: r' =>
              match parse_elems f d r' with
              | Some (l, rest') => Some (v :: l, rest')
              | None => None
              end
          | _ => None
          end
      end
  end
(* one or more name : value separated by commas, then '}' *)
with parse_members (fuel : nat) (d : N) (s : bytes) {struct fuel} : option (list (bytes * tjson) * bytes) :=
  match fuel with
  | O => None
  | S f =>
      match skip_ws s with
      | x22 :: r =>
          match scan_string r with
          | None => None
          | Some (k, rest) =>
              match skip_ws rest with
              | x3a :: r' =>
                  match parse_value f d r' with
                  | None => None
                  | Some (v, rest') =>
                      match skip_ws rest' with
                      | x7d :: r'' => Some ([(k, v)], r'')
                      | x2c :: r'' =>
                          match parse_members f d r'' with
                          | Some (ms, rest'') => Some ((k, v) :: ms, rest'')
                          | None => None
                          end
                      | _ => None
                      end
                  end
              | _ => None
              end
          end
      | _ => None
      end
  end.

Definition parse_fuel (s : bytes) : nat := 2 * length s + 2.

(* nesting depth of a spelled tree: what the scanner's parse-state stack reaches while reading it *)
Fixpoint tdepth (t : tjson) : N :=
  match t with
  | TArr l => 1 + (fix go (l : list tjson) : N := match l with [] => 0 | x :: r => N.max (tdepth x) (go r) end) l
  | TObj ms => 1 + (fix go (m : list (bytes * tjson)) : N := match m with [] => 0 | kv :: r => N.max (tdepth (snd kv)) (go r) end) ms
  | _ => 0
  end.

(* a whole JSON text: ws value ws, nothing else *)
Definition parse (s : bytes) : option tjson :=
  match parse_value (parse_fuel s) max_depth s with
  | Some (t, rest) => match skip_ws rest with [] => Some t | _ => None end
  | None => None
  end.

(* ---- printing ---- *)

(* what compact(escape=true) does to the bytes of a text: < > & and U+2028/9 (E2 80 A8/A9) are
   replaced by \u escapes.  (In valid JSON these bytes occur only inside strings.) *)
Fixpoint html_escape (s : bytes) : bytes :=
  match s with
  | [] => []
  | c :: r =>
      match c with
      | x3c => B "\u003c" ++ html_escape r
      | x3e => B "\u003e" ++ html_escape r
      | x26 => B "\u0026" ++ html_escape r
      | xe2 =>
          match r with
          | x80 :: xa8 :: r' => B "\u2028" ++ html_escape r'
          | x80 :: xa9 :: r' => B "\u2029" ++ html_escape r'
          | _ => c :: html_escape r
          end
      | _ => c :: html_escape r
      end
  end.

Definition spell (esc : bool) (body : bytes) : bytes :=
  x22 :: (if esc then html_escape body else body) ++ [x22].

Fixpoint sep_concat (sep : bytes) (l : list bytes) : bytes :=
  match l with
  | [] => []
  | [x] => x
  | x :: r => x ++ sep ++ sep_concat sep r
  end.

(* compact text of a spelled tree, with (esc=true) or without HTML escaping *)
Fixpoint print (esc : bool) (t : tjson) : bytes :=
  match t with
  | TNull => B "null"
  | TTrue => B "true"
  | TFalse => B "false"
  | TNum lit => lit
  | TStr b => spell esc b
  | TArr l => x5b :: sep_concat [x2c] (map (print esc) l) ++ [x5d]
  | TObj ms =>
      x7b :: sep_concat [x2c] (map (fun kv => spell esc (fst kv) ++ x3a :: print esc (snd kv)) ms) ++ [x7d]
  end.

(* Indent(dst, src, "", indent) applied to a compact text, as a function of the tree *)
Fixpoint rep (n : nat) (s : bytes) : bytes :=
  match n with O => [] | S k => s ++ rep k s end.

Definition nl (ind : bytes) (depth : nat) : bytes := x0a :: rep depth ind.

Fixpoint pp (esc : bool) (ind : bytes) (depth : nat) (t : tjson) : bytes :=
  match t with
  | TArr [] => B "[]"
  | TObj [] => B "{}"
  | TArr l =>
      x5b :: nl ind (S depth)
          ++ sep_concat (x2c :: nl ind (S depth)) (map (pp esc ind (S depth)) l)
          ++ nl ind depth ++ [x5d]
  | TObj ms =>
      x7b :: nl ind (S depth)
          ++ sep_concat (x2c :: nl ind (S depth))
               (map (fun kv => spell esc (fst kv) ++ x3a :: x20 :: pp esc ind (S depth) (snd kv)) ms)
          ++ nl ind depth ++ [x7d]
  | _ => print esc t
  end.
