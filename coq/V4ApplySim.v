(* V4ApplySim.v — the legacy root package (ImplV4: bare Go maps, get of an absent member reads as
   nil, replace of an absent member adds it, Equal on string spellings) against the RFC 6902
   reference (Rfc6902.v), on the values the legacy nodes denote (aval4: members in the order of
   the association list that models the Go map).  Legacy counterpart of ApplySim.v. *)
From Coq Require Import Lia.
From Coq Require Import Permutation.
From JP Require Import Bytes Json Text Strings Den Pointer Rfc6902 ImplV5 ImplMerge ImplV4 DecodeFacts JsonFacts Abs
                       EqualFacts ImplFacts RefFacts ApplyFacts ApplySim Domain Codec.

(* ---- the dialect of the legacy package variables ---- *)
Definition d4 (g : opts4) : dialect := mkDialect (g_neg g).

Lemma d4_dia g : dia (o5 g) = d4 g.
Proof. reflexivity. Qed.

(* ---- 1. the value of a legacy node ---- *)
(* the key list of NDoc is not used by the legacy package (always []): the members are those of
   the map, in association-list order *)
Fixpoint aval4 (n : node) : ojson :=
  match n with
  | NNil => ONull
  | NRaw t => den t
  | NDoc _ obj => OObj (map (fun kv => (fst kv, aval4 (snd kv))) obj)
  | NAry ns => OArr (map aval4 ns)
  end.

Definition amap4 (obj : list (bytes * node)) : list (bytes * ojson) :=
  map (fun kv => (fst kv, aval4 (snd kv))) obj.

Lemma aval4_doc ks obj : aval4 (NDoc ks obj) = OObj (amap4 obj).
Proof. reflexivity. Qed.

(* string bodies the legacy Equal may compare by spelling: the spelling IS the content (no escapes,
   valid UTF-8), and the HTML-escaping encoder leaves it alone (no <, >, &, U+2028, U+2029) *)
Definition splain (b : bytes) : Prop := unquote b = b /\ html_escape b = b.

Fixpoint tplain (t : tjson) : Prop :=
  match t with
  | TStr b => splain b
  | TArr l => (fix all (l : list tjson) : Prop := match l with [] => True | x :: r => tplain x /\ all r end) l
  | TObj ms => (fix all (m : list (bytes * tjson)) : Prop :=
                  match m with [] => True | kv :: r => tplain (snd kv) /\ all r end) ms
  | _ => True
  end.

Lemma tplain_arr l : tplain (TArr l) <-> Forall tplain l.
Proof.
  cbn [tplain]. split; intro H.
  - induction l as [|x l IH]; constructor; destruct H; auto.
  - induction l as [|x l IH]; [exact I|]. inversion H as [|? ? Ha Hb]; subst. split; [exact Ha | apply IH; exact Hb].
Qed.

Lemma tplain_obj ms : tplain (TObj ms) <-> Forall (fun kv => tplain (snd kv)) ms.
Proof.
  cbn [tplain]. split; intro H.
  - induction ms as [|x l IH]; constructor; destruct H; auto.
  - induction ms as [|x l IH]; [exact I|]. inversion H as [|? ? Ha Hb]; subst. split; [exact Ha | apply IH; exact Hb].
Qed.
Arguments tplain : simpl never.

(* member names of a raw message: HTML escaping does not change what they decode to, and they
   decode to valid UTF-8 (both hold of every name the scanner accepts, see tsb_tkeys) *)
Definition kok (k : bytes) : Prop := unquote (html_escape k) = unquote k /\ utf8 (unquote k).

Fixpoint tkeys (t : tjson) : Prop :=
  match t with
  | TArr l => (fix all (l : list tjson) : Prop := match l with [] => True | x :: r => tkeys x /\ all r end) l
  | TObj ms => (fix all (m : list (bytes * tjson)) : Prop :=
                  match m with [] => True | kv :: r => (kok (fst kv) /\ tkeys (snd kv)) /\ all r end) ms
  | _ => True
  end.

Lemma tkeys_arr l : tkeys (TArr l) <-> Forall tkeys l.
Proof.
  cbn [tkeys]. split; intro H.
  - induction l as [|x l IH]; constructor; destruct H; auto.
  - induction l as [|x l IH]; [exact I|]. inversion H as [|? ? Ha Hb]; subst. split; [exact Ha | apply IH; exact Hb].
Qed.

Lemma tkeys_obj ms : tkeys (TObj ms) <-> Forall (fun kv => kok (fst kv) /\ tkeys (snd kv)) ms.
Proof.
  cbn [tkeys]. split; intro H.
  - induction ms as [|x l IH]; constructor; destruct H; auto.
  - induction ms as [|x l IH]; [exact I|]. inversion H as [|? ? Ha Hb]; subst. split; [exact Ha | apply IH; exact Hb].
Qed.
Arguments tkeys : simpl never.

Lemma sbody_kok k : sbody k -> kok k.
Proof. intro S. split; [apply (unquote_html_escape (length k)); auto | apply (unquote_utf8 (length k)); auto]. Qed.

Lemma tsb_tkeys t : tsb t -> tkeys t.
Proof.
  induction t using tjson_rect'; intro S; try exact I.
  - apply tkeys_arr. apply tsb_arr in S. rewrite Forall_forall in *. intros x Hx. apply (H x Hx). apply (S x Hx).
  - apply tkeys_obj. apply tsb_obj in S. rewrite Forall_forall in *. intros kv Hk. destruct (S kv Hk) as [S1 S2].
    split; [apply sbody_kok; exact S1 | apply (H kv Hk); exact S2].
Qed.

(* a raw message the legacy package may hold: no duplicate names, number literals well formed, strings
   plain.  raw4: moreover not null (a decoded null is the nil node); the node NRaw TNull is the
   operation value null (ImplV4.raw_nil4: a lazyNode with a nil raw message), which a state may hold *)
Definition rawok (t : tjson) : Prop := tnodup t = true /\ tlit t = true /\ tplain t /\ tkeys t.
Definition raw4 (t : tjson) : Prop := t <> TNull /\ rawok t.

(* ---- the representation invariant ---- *)
Fixpoint ngood4 (n : node) : Prop :=
  match n with
  | NNil => True
  | NRaw t => rawok t
  | NDoc ks obj =>
      (* a live map (key list []); the two tagged nodes raw_null4 / nil_doc4 (the raw text null a copy
         of a non-nil null stores, and what a walk through it leaves) are NOT in the invariant *)
      ks = [] /\ NoDup (map fst obj) /\ Forall utf8 (map fst obj) /\
      (fix all (m : list (bytes * node)) : Prop :=
         match m with [] => True | kv :: r => ngood4 (snd kv) /\ all r end) obj
  | NAry ns =>
      (fix all (l : list node) : Prop := match l with [] => True | x :: r => ngood4 x /\ all r end) ns
  end.

(* a good member map: distinct names, in valid UTF-8 (they are Go strings that came out of the
   decoder), good values *)
Definition ogood4 (obj : list (bytes * node)) : Prop :=
  NoDup (map fst obj) /\ Forall utf8 (map fst obj) /\ Forall (fun kv => ngood4 (snd kv)) obj.

Lemma ngood4_doc ks obj : ngood4 (NDoc ks obj) <-> ks = [] /\ ogood4 obj.
Proof.
  unfold ogood4. cbn [ngood4]. split; intros [Hk [H1 [H0 H2]]]; (split; [exact Hk|]; split; [exact H1|]; split; [exact H0|]); clear Hk H1 H0.
  - induction obj as [|kv obj IH]; constructor; destruct H2; auto.
  - induction obj as [|kv obj IH]; [exact I|]. inversion H2 as [|? ? Ha Hb]; subst. split; [exact Ha | apply IH; exact Hb].
Qed.

Lemma ngood4_ary ns : ngood4 (NAry ns) <-> Forall ngood4 ns.
Proof.
  cbn [ngood4]. split; intro H.
  - induction ns as [|x ns IH]; constructor; destruct H; auto.
  - induction ns as [|x ns IH]; [exact I|]. inversion H as [|? ? Ha Hb]; subst. split; [exact Ha | apply IH; exact Hb].
Qed.
Arguments ngood4 : simpl never.

Lemma ngood4_nil : ngood4 NNil. Proof. exact I. Qed.
Lemma ngood4_raw t : ngood4 (NRaw t) <-> rawok t. Proof. reflexivity. Qed.
Lemma ngood4_raw4 t : raw4 t -> ngood4 (NRaw t). Proof. intros [_ R]. exact R. Qed.
Lemma ngood4_raw_nn t : ngood4 (NRaw t) -> t <> TNull -> raw4 t. Proof. intros R N. split; [exact N | exact R]. Qed.
Lemma ngood4_raw_nil : ngood4 raw_nil4. Proof. repeat split. Qed.

Definition cval4 (c : con4) : ojson := aval4 (node_of_con4 c).
Definition cgood4 (c : con4) : Prop := ngood4 (node_of_con4 c) /\ c <> DDocNil.

Lemma cgood4_doc obj : cgood4 (DDoc obj) <-> ogood4 obj.
Proof.
  unfold cgood4. cbn [node_of_con4]. rewrite ngood4_doc. split; [tauto|]. intro H. split; [split; [reflexivity | exact H] | discriminate].
Qed.

Lemma cgood4_ary ns : cgood4 (DAry ns) <-> Forall ngood4 ns.
Proof.
  unfold cgood4. cbn [node_of_con4]. rewrite ngood4_ary. split; [tauto|]. intro H. split; [exact H | discriminate].
Qed.

Lemma cgood4_container c : cgood4 c -> is_container (cval4 c) = true.
Proof. intros _. destruct c; reflexivity. Qed.

(* ---- association lists under a map on the values ---- *)
Section MapSnd.
  Context {A B : Type} (f : A -> B).
  Definition msnd (m : list (bytes * A)) : list (bytes * B) := map (fun kv => (fst kv, f (snd kv))) m.

  Lemma msnd_keys m : map fst (msnd m) = map fst m.
  Proof. unfold msnd. rewrite map_map. reflexivity. Qed.

  Lemma aget_msnd k m : aget k (msnd m) = option_map f (aget k m).
  Proof. induction m as [|[k' v] m IH]; simpl; auto. destruct (bseq k k'); auto. Qed.

  Lemma amem_msnd k m : amem k (msnd m) = amem k m.
  Proof. unfold amem. rewrite aget_msnd. destruct (aget k m); reflexivity. Qed.

  Lemma aset_msnd k v m : aset k (f v) (msnd m) = msnd (aset k v m).
  Proof. induction m as [|[k' v'] m IH]; simpl; auto. destruct (bseq k k'); simpl; auto. f_equal. exact IH. Qed.

  Lemma adel_msnd k m : adel k (msnd m) = msnd (adel k m).
  Proof. induction m as [|[k' v'] m IH]; simpl; auto. destruct (bseq k k'); simpl; auto. f_equal. exact IH. Qed.
End MapSnd.

Lemma amap4_msnd obj : amap4 obj = msnd aval4 obj.
Proof. reflexivity. Qed.

(* ---- lazy parsing one level ---- *)
Lemma aval4_child t : aval4 (child t) = den t.
Proof. destruct t; reflexivity. Qed.

Lemma raw4_arr l : raw4 (TArr l) -> Forall (fun t => ngood4 (child t)) l.
Proof.
  intros [_ [T [L [P K]]]]. apply tnodup_arr in T. apply tplain_arr in P. apply tkeys_arr in K. simpl in L. rewrite forallb_forall in L.
  rewrite Forall_forall in *. intros t Ht. specialize (T _ Ht). specialize (P _ Ht). specialize (L _ Ht). specialize (K _ Ht).
  destruct t; try exact I; (split; [exact T|]; split; [exact L |]; split; [exact P | exact K]).
Qed.

Lemma raw4_obj ms : raw4 (TObj ms) ->
  NoDup (map (fun kv => unquote (fst kv)) ms) /\ Forall utf8 (map (fun kv => unquote (fst kv)) ms) /\
  Forall (fun kv => ngood4 (child (snd kv))) ms.
Proof.
  intros [_ [T [L [P K]]]]. apply tnodup_obj in T as [N T]. apply tplain_obj in P. apply tlit_members in L. apply tkeys_obj in K.
  split; [exact N|]. split.
  - rewrite Forall_map. rewrite Forall_forall in *. intros kv Hk. exact (proj2 (proj1 (K _ Hk))).
  - rewrite Forall_forall in *. intros kv Hk. specialize (T _ Hk). specialize (P _ Hk). specialize (L _ Hk).
    pose proof (proj2 (K _ Hk)) as K2.
    destruct (snd kv); try exact I; (split; [exact T|]; split; [exact L |]; split; [exact P | exact K2]).
Qed.

Lemma obj_of_nodup ms :
  NoDup (map (fun kv => unquote (fst kv)) ms) -> obj_of ms = map (fun kv => (unquote (fst kv), child (snd kv))) ms.
Proof. intro N. unfold obj_of. rewrite build_obj_nodup; auto. Qed.

Lemma parsed4_obj ms : raw4 (TObj ms) -> cval4 (DDoc (obj_of ms)) = den (TObj ms) /\ cgood4 (DDoc (obj_of ms)).
Proof.
  intro R. pose proof (raw4_obj ms R) as [N [U F]]. destruct R as [_ [T _]].
  rewrite (den_obj_nodup ms T), (obj_of_nodup ms N). split.
  - unfold cval4. cbn [node_of_con4 aval4]. f_equal. unfold den_members. rewrite map_map. apply map_ext.
    intro kv. cbn [fst snd]. now rewrite aval4_child.
  - apply cgood4_doc. split; [|split].
    + rewrite map_map. cbn [fst]. exact N.
    + rewrite map_map. cbn [fst]. exact U.
    + rewrite Forall_map. exact F.
Qed.

Lemma parsed4_arr l : raw4 (TArr l) -> cval4 (DAry (map child l)) = den (TArr l) /\ cgood4 (DAry (map child l)).
Proof.
  intro R. pose proof (raw4_arr l R) as F. split.
  - unfold cval4. cbn [node_of_con4 aval4 den]. f_equal. rewrite map_map. apply map_ext. intro t. apply aval4_child.
  - apply cgood4_ary. rewrite Forall_map. exact F.
Qed.

Lemma into_con4_sim v :
  ngood4 v ->
  if is_container (aval4 v)
  then exists ch, into_con4 v = Some ch /\ cval4 ch = aval4 v /\ cgood4 ch
  else into_con4 v = None.
Proof.
  intro G. destruct v as [|t|ks obj|ns]; cbn [aval4 into_con4].
  - reflexivity.
  - destruct t; try reflexivity.
    + apply ngood4_raw_nn in G; [|discriminate].
      simpl is_container. destruct (parsed4_arr l G) as [P1 P2]. exists (DAry (map child l)). auto.
    + apply ngood4_raw_nn in G; [|discriminate].
      destruct (parsed4_obj ms G) as [P1 P2]. rewrite <- P1. simpl is_container. exists (DDoc (obj_of ms)). auto.
  - pose proof (proj1 (proj1 (ngood4_doc ks obj) G)) as Ek. subst ks.
    simpl is_container. exists (DDoc obj). split; auto. split; [reflexivity|]. split; [exact G | discriminate].
  - simpl is_container. exists (DAry ns). split; auto. split; [reflexivity|]. split; [exact G | discriminate].
Qed.

(* ---- good member maps under the map operations ---- *)
Lemma ogood4_aset k v obj : ogood4 obj -> utf8 k -> ngood4 v -> ogood4 (aset k v obj).
Proof.
  intros [N [U Gs]] Uk Gv. split; [apply NoDup_keys_aset; exact N|]. split.
  - rewrite keys_aset. destruct (amem k obj); [exact U|]. apply Forall_app. split; [exact U|]. constructor; [exact Uk | constructor].
  - apply Forall_aset; auto.
Qed.

Lemma ogood4_adel k obj : ogood4 obj -> ogood4 (adel k obj).
Proof.
  intros [N [U Gs]]. split; [apply NoDup_keys_adel; exact N|]. split.
  - rewrite Forall_forall in *. intros x Hx. apply U. eapply keys_adel_incl; eauto.
  - apply Forall_adel; auto.
Qed.

(* reference tokens: the domain of ApplySim (non-empty, numeric spellings canonical and within 64
   bits), in valid UTF-8 (they are pieces of a decoded JSON string) *)
Definition tok_dom4 (t : bytes) : Prop := tok_dom t /\ utf8 t.

Lemma dom_split4 r :
  Forall tok_dom4 (map decode_token (split_slash r)) ->
  Forall tok_dom4 (map decode_token (path_parts r)) /\ tok_dom4 (path_key r).
Proof.
  intro H. rewrite (tokens_split _ (split_slash_nonempty r)) in H. apply Forall_app in H as [H1 H2].
  split; auto. inversion H2; auto.
Qed.

(* ---- 2. the container methods against the reference's leaf operations ---- *)
Lemma nth_map_aval4 ns i : nth i (map aval4 ns) ONull = aval4 (nth i ns NNil).
Proof. change ONull with (aval4 NNil). apply map_nth. Qed.

Lemma resolve_idx_agrees4 g (ns : list node) key i :
  tok_dom key -> resolve_idx_get (o5 g) (ImplV5.zlen ns) key = Ok i ->
  idx_existing (d4 g) (Rfc6902.zlen (map aval4 ns)) key = Some i.
Proof.
  intros D R. unfold Rfc6902.zlen. rewrite map_length.
  destruct (tok_dom_cases _ D) as [Can|[A _]].
  - pose proof (resolve_idx_get_ref (o5 g) ns key (proj1 (proj2 D)) Can) as Q. unfold Rfc6902.zlen in Q.
    rewrite d4_dia in Q.
    destruct (idx_existing (d4 g) (Z.of_nat (length ns)) key) as [i'|].
    + destruct Q as [Q _]. rewrite Q in R. inversion R. reflexivity.
    + destruct Q as [e [Q _]]. rewrite Q in R. discriminate.
  - unfold resolve_idx_get in R. rewrite A in R. discriminate.
Qed.

(* get: an absent member of an object reads as the nil node and never fails *)
Lemma con4_get_sim g c key :
  cgood4 c -> tok_dom4 key ->
  match child_at (d4 g) (cval4 c) key with
  | Some j => exists v, con4_get g c key = Ok v /\ aval4 v = j /\ ngood4 v
  | None => match c with
            | DAry _ => exists e, con4_get g c key = Err e /\ (e = EInvalidIndex \/ e = EAtoi)
            | _ => con4_get g c key = Ok NNil
            end
  end.
Proof.
  intros G [D Uk]. destruct c as [obj| |ns]; [| destruct G as [_ G]; congruence |].
  - apply cgood4_doc in G as [N [U Gv]]. unfold cval4. cbn [node_of_con4 aval4 child_at con4_get].
    fold (msnd aval4 obj). rewrite aget_msnd.
    destruct (aget key obj) as [v|] eqn:E; cbn [option_map]; [|reflexivity].
    exists v. split; auto. split; auto. apply aget_In in E. rewrite Forall_forall in Gv. apply (Gv _ E).
  - apply cgood4_ary in G. unfold cval4. cbn [node_of_con4 aval4 child_at con4_get].
    unfold Rfc6902.zlen. rewrite map_length.
    destruct (tok_dom_cases _ D) as [Can|[A [C1 C2]]].
    + pose proof (resolve_idx_get_ref (o5 g) ns key (proj1 (proj2 D)) Can) as R.
      unfold Rfc6902.zlen in R. rewrite d4_dia in R.
      destruct (idx_existing (d4 g) (Z.of_nat (length ns)) key) as [i|].
      * destruct R as [R L]. rewrite R. exists (nth i ns NNil). split; auto. split; [symmetry; apply nth_map_aval4|].
        apply Forall_nth; auto.
      * destruct R as [e [R Re]]. rewrite R. eauto.
    + unfold idx_existing. rewrite C1, C2. unfold resolve_idx_get. rewrite A. eauto.
Qed.

(* a successful get of a non-nil node is a get of an existing location *)
Lemma con4_get_ok_child g c key v :
  cgood4 c -> tok_dom4 key -> con4_get g c key = Ok v -> v <> NNil ->
  child_at (d4 g) (cval4 c) key = Some (aval4 v) /\ ngood4 v.
Proof.
  intros G D H NN. pose proof (con4_get_sim g c key G D) as S.
  destruct (child_at (d4 g) (cval4 c) key) as [j|].
  - destruct S as [v' [S1 [S2 S3]]]. rewrite S1 in H. inversion H; subst. auto.
  - destruct c; [rewrite S in H; inversion H; congruence | rewrite S in H; inversion H; congruence |].
    destruct S as [e [S _]]. rewrite S in H. discriminate.
Qed.

Lemma con4_add_sim g cp key v :
  cgood4 cp -> tok_dom4 key -> ngood4 v ->
  match add_leaf (d4 g) (aval4 v) (cval4 cp) key with
  | ROk j' => exists cp', con4_add g cp key v = Ok cp' /\ cval4 cp' = j' /\ cgood4 cp'
  | RFail cz => cz = FIndex /\ exists e, con4_add g cp key v = Err e /\ (e = EInvalidIndex \/ e = EAtoi)
  end.
Proof.
  intros G [D Uk] Gv. destruct cp as [obj| |ns]; [| destruct G as [_ G]; congruence |].
  - apply cgood4_doc in G. unfold cval4. cbn [node_of_con4 aval4 add_leaf con4_add].
    fold (msnd aval4 obj). rewrite aset_msnd.
    eexists. split; [reflexivity|]. split; [reflexivity|]. apply cgood4_doc. apply ogood4_aset; auto.
  - apply cgood4_ary in G. unfold cval4. cbn [node_of_con4 aval4 add_leaf con4_add].
    assert (AT : add_tok key \/ (bseq key [x2d] = false /\ atoi key = None /\ canonical_nat key = None /\ canonical_neg key = None)).
    { destruct (bseq key [x2d]) eqn:Bq; [left; left; apply bseq_eq; auto|].
      destruct (tok_dom_cases _ D) as [Can|[A1 [A2 A3]]]; [left; right; auto | right; auto]. }
    unfold Rfc6902.zlen. rewrite map_length.
    destruct AT as [AT|[Bq [A1 [A2 A3]]]].
    + pose proof (ary_add_ref (o5 g) ns key v (proj1 (proj2 D)) AT) as R. unfold Rfc6902.zlen in R. rewrite d4_dia in R.
      destruct (idx_insert (d4 g) (Z.of_nat (length ns)) key) as [i|].
      * destruct R as [R L]. rewrite R. eexists. split; [reflexivity|]. unfold cval4. cbn [node_of_con4 aval4].
        split; [f_equal; apply map_insert_at|]. apply cgood4_ary. apply Forall_insert_at; auto.
      * destruct R as [e [R Re]]. rewrite R. split; auto. eauto.
    + unfold idx_insert. rewrite Bq, A2, A3. split; auto. unfold ary_add. rewrite Bq, A1. eauto.
Qed.

Lemma con4_remove_sim g cp key :
  cgood4 cp -> tok_dom4 key ->
  match remove_leaf (d4 g) (cval4 cp) key with
  | ROk j' => exists cp', con4_remove g cp key = Ok cp' /\ cval4 cp' = j' /\ cgood4 cp'
  | RFail cz => exists e, con4_remove g cp key = Err e /\
               ((cz = FMissingMember /\ e = EMissing) \/ (cz = FIndex /\ (e = EInvalidIndex \/ e = EAtoi)))
  end.
Proof.
  intros G [D Uk]. destruct cp as [obj| |ns]; [| destruct G as [_ G]; congruence |].
  - apply cgood4_doc in G. unfold cval4. cbn [node_of_con4 aval4 remove_leaf con4_remove].
    fold (msnd aval4 obj). rewrite amem_msnd. destruct (amem key obj) eqn:M.
    + rewrite adel_msnd. eexists. split; [reflexivity|]. split; [reflexivity|]. apply cgood4_doc. apply ogood4_adel; auto.
    + exists EMissing. split; auto.
  - apply cgood4_ary in G. unfold cval4. cbn [node_of_con4 aval4 remove_leaf con4_remove].
    unfold Rfc6902.zlen. rewrite map_length.
    destruct (tok_dom_cases _ D) as [Can|[A1 [A2 A3]]].
    + pose proof (ary_remove_ref (o5 g) ns key eq_refl (proj1 (proj2 D)) Can) as R. unfold Rfc6902.zlen in R. rewrite d4_dia in R.
      destruct (idx_existing (d4 g) (Z.of_nat (length ns)) key) as [i|].
      * destruct R as [R L]. rewrite R. eexists. split; [reflexivity|]. unfold cval4. cbn [node_of_con4 aval4].
        split; [f_equal; apply map_remove_at|]. apply cgood4_ary. apply Forall_remove_at; auto.
      * destruct R as [e [R Re]]. rewrite R. exists e. split; auto.
    + unfold idx_existing. rewrite A2, A3. unfold ary_remove. rewrite A1. exists EAtoi. split; auto.
Qed.

(* set after a successful get (Patch.replace calls get first).  On an object the legacy set is the
   map assignment: the reference's ADD (which is its replace when the member exists) *)
Lemma con4_set_sim g cp key v old :
  cgood4 cp -> tok_dom4 key -> ngood4 v -> con4_get g cp key = Ok old ->
  exists cp', con4_set g cp key v = Ok cp' /\ cgood4 cp' /\
    match cp with
    | DAry _ => replace_leaf (d4 g) (aval4 v) (cval4 cp) key = ROk (cval4 cp')
    | _ => add_leaf (d4 g) (aval4 v) (cval4 cp) key = ROk (cval4 cp')
    end.
Proof.
  intros G [D Uk] Gv Hg. destruct cp as [obj| |ns]; [| destruct G as [_ G]; congruence |].
  - apply cgood4_doc in G. cbn [con4_set]. eexists. split; [reflexivity|]. split.
    + apply cgood4_doc. apply ogood4_aset; auto.
    + unfold cval4. cbn [node_of_con4 aval4 add_leaf]. fold (msnd aval4 obj). now rewrite aset_msnd.
  - apply cgood4_ary in G. cbn [con4_get] in Hg.
    destruct (resolve_idx_get (o5 g) (ImplV5.zlen ns) key) as [i| |] eqn:R; try discriminate.
    cbn [con4_set]. rewrite (ary_set_after_get (o5 g) ns key v i R).
    eexists. split; [reflexivity|]. split.
    + apply cgood4_ary. apply Forall_set_at; auto.
    + unfold cval4. cbn [node_of_con4 aval4 replace_leaf].
      rewrite (resolve_idx_agrees4 g ns key i D R). now rewrite map_set_at.
Qed.

(* replace of an existing member is the reference's replace *)
Lemma add_is_replace_present d v ms key :
  amem key ms = true -> replace_leaf d v (OObj ms) key = add_leaf d v (OObj ms) key.
Proof. intro M. cbn [replace_leaf add_leaf]. now rewrite M. Qed.

(* putting a (parsed) child back where get found it *)
Lemma con4_put_sim g c key ch v :
  cgood4 c -> tok_dom4 key -> con4_get g c key = Ok v -> ngood4 ch ->
  cval4 (con4_put g c key ch) = put_child (d4 g) (cval4 c) key (aval4 ch) /\ cgood4 (con4_put g c key ch).
Proof.
  intros G [D Uk] Hg Gc. destruct c as [obj| |ns]; [| destruct G as [_ G]; congruence |].
  - apply cgood4_doc in G. cbn [con4_put]. unfold cval4. cbn [node_of_con4 aval4 put_child].
    fold (msnd aval4 obj). rewrite aset_msnd. split; [reflexivity|]. apply cgood4_doc. apply ogood4_aset; auto.
  - apply cgood4_ary in G. cbn [con4_get] in Hg.
    destruct (resolve_idx_get (o5 g) (ImplV5.zlen ns) key) as [i| |] eqn:R; try discriminate.
    cbn [con4_put]. rewrite R. unfold cval4. cbn [node_of_con4 aval4 put_child].
    rewrite (resolve_idx_agrees4 g ns key i D R).
    change (firstn i ns ++ ch :: skipn (S i) ns) with (set_at i ch ns).
    split; [now rewrite map_set_at|]. apply cgood4_ary. apply Forall_set_at; auto.
Qed.

(* ---- 3. the pointer walk of the legacy findObject ---- *)
Lemma walk4_spec g parts : forall c,
  cgood4 c -> Forall tok_dom4 (map decode_token parts) ->
  match descend (d4 g) (map decode_token parts) (cval4 c) with
  | Some p =>
      if is_container p then
        exists cp (back : con4 -> con4), cval4 cp = p /\ cgood4 cp /\
          (forall A (f : con4 -> A * con4), walk4 g parts c f = (Some (fst (f cp)), back (snd (f cp)))) /\
          (forall cp', cgood4 cp' ->
             cval4 (back cp') = rebuild (d4 g) (map decode_token parts) (cval4 c) (cval4 cp') /\ cgood4 (back cp'))
      else exists c', (forall A (f : con4 -> A * con4), walk4 g parts c f = (None, c')) /\ cval4 c' = cval4 c /\ cgood4 c'
  | None => exists c', (forall A (f : con4 -> A * con4), walk4 g parts c f = (None, c')) /\ cval4 c' = cval4 c /\ cgood4 c'
  end.
Proof.
  induction parts as [|p parts IH]; intros c G D.
  - cbn [map descend]. rewrite (cgood4_container c G). exists c, (fun x => x). split; [reflexivity|]. split; [exact G|]. split.
    + intros A f. cbn [walk4]. destruct (f c); reflexivity.
    + intros cp' Gcp'. split; [reflexivity | exact Gcp'].
  - cbn [map descend]. inversion D as [|? ? Dk Dr]; subst.
    pose proof (con4_get_sim g c (decode_token p) G Dk) as CG.
    destruct (child_at (d4 g) (cval4 c) (decode_token p)) as [j|] eqn:Ech.
    + destruct CG as [next [Hg [Ev Gn]]].
      pose proof (into_con4_sim next Gn) as IC. rewrite Ev in IC.
      assert (Fail_case : forall ch', cval4 ch' = j -> cgood4 ch' ->
                cval4 (con4_put g c (decode_token p) (node_of_con4 ch')) = cval4 c /\
                cgood4 (con4_put g c (decode_token p) (node_of_con4 ch'))).
      { intros ch' Ev' Gc'. destruct (con4_put_sim g c (decode_token p) (node_of_con4 ch') next G Dk Hg (proj1 Gc')) as [Q1 Q2].
        split; auto. rewrite Q1. fold (cval4 ch'). rewrite Ev'. apply put_child_same. exact Ech. }
      destruct (is_container j) eqn:Cj.
      * destruct IC as [ch [Hic [Evc Gch]]]. specialize (IH ch Gch Dr). rewrite Evc in IH.
        destruct (descend (d4 g) (map decode_token parts) j) as [p'|] eqn:Ed.
        -- destruct (is_container p') eqn:Cp.
           ++ destruct IH as [cp [back [E1 [E2 [E3 E4]]]]].
              exists cp, (fun x => con4_put g c (decode_token p) (node_of_con4 (back x))).
              split; auto. split; auto. split.
              ** intros A f. cbn [walk4]. rewrite Hg, Hic, (E3 A f). reflexivity.
              ** intros cp' Gcp'. destruct (E4 cp' Gcp') as [F1 F2].
                 destruct (con4_put_sim g c (decode_token p) (node_of_con4 (back cp')) next G Dk Hg (proj1 F2)) as [Q1 Q2].
                 split; auto. rewrite Q1. cbn [rebuild]. rewrite Ech. fold (cval4 (back cp')). rewrite F1. reflexivity.
           ++ destruct IH as [ch' [W1 [W2 W3]]].
              exists (con4_put g c (decode_token p) (node_of_con4 ch')). split.
              ** intros A f. cbn [walk4]. rewrite Hg, Hic, (W1 A f). reflexivity.
              ** apply Fail_case; auto; congruence.
        -- destruct IH as [ch' [W1 [W2 W3]]].
           exists (con4_put g c (decode_token p) (node_of_con4 ch')). split.
           ++ intros A f. cbn [walk4]. rewrite Hg, Hic, (W1 A f). reflexivity.
           ++ apply Fail_case; auto; congruence.
      * assert (W : forall A (f : con4 -> A * con4), walk4 g (p :: parts) c f = (None, c)).
        { intros A f. cbn [walk4]. rewrite Hg, IC. reflexivity. }
        destruct parts as [|p2 parts].
        -- cbn [map descend]. rewrite Cj. exists c. auto.
        -- cbn [map descend]. replace (child_at (d4 g) j (decode_token p2)) with (@None ojson)
             by (destruct j; try reflexivity; discriminate).
           exists c. auto.
    + exists c. split; auto. intros A f. cbn [walk4].
      destruct c as [obj| |ns]; [rewrite CG; reflexivity | rewrite CG; reflexivity |].
      destruct CG as [e [Hg _]]. rewrite Hg. reflexivity.
Qed.

Lemma find4_spec {A} g c r (f : con4 -> bytes -> A * con4) :
  cgood4 c -> Forall tok_dom4 (map decode_token (split_slash r)) ->
  match descend (d4 g) (map decode_token (path_parts r)) (cval4 c) with
  | Some p =>
      if is_container p then
        exists cp (back : con4 -> con4), cval4 cp = p /\ cgood4 cp /\
          find4 g c (x2f :: r) f = (Some (fst (f cp (path_key r))), back (snd (f cp (path_key r)))) /\
          (forall cp', cgood4 cp' ->
             cval4 (back cp') = rebuild (d4 g) (map decode_token (path_parts r)) (cval4 c) (cval4 cp') /\ cgood4 (back cp'))
      else exists c', find4 g c (x2f :: r) f = (None, c') /\ cval4 c' = cval4 c /\ cgood4 c'
  | None => exists c', find4 g c (x2f :: r) f = (None, c') /\ cval4 c' = cval4 c /\ cgood4 c'
  end.
Proof.
  intros G D. apply dom_split4 in D as [D1 D2].
  pose proof (walk4_spec g (path_parts r) c G D1) as W.
  unfold find4. rewrite split_path_slash.
  destruct (descend (d4 g) (map decode_token (path_parts r)) (cval4 c)) as [p|].
  - destruct (is_container p).
    + destruct W as [cp [back [E1 [E2 [E3 E4]]]]]. exists cp, back. split; [exact E1|]. split; [exact E2|]. split; [|exact E4].
      rewrite (E3 A (fun c' => f c' (path_key r))). reflexivity.
    + destruct W as [c' [W1 W2]]. exists c'. split; [|exact W2]. rewrite (W1 A (fun c' => f c' (path_key r))). reflexivity.
  - destruct W as [c' [W1 W2]]. exists c'. split; [|exact W2]. rewrite (W1 A (fun c' => f c' (path_key r))). reflexivity.
Qed.

(* the legacy findObject returns nil for the pointer "" and for anything without a leading slash *)
Lemma find4_root {A} g c (f : con4 -> bytes -> A * con4) : find4 g c [] f = (None, c).
Proof. reflexivity. Qed.

(* find + leaf action against at_parent + leaf function *)
Lemma find4_at_parent {A} g c r (f : con4 -> bytes -> res A * con4) (lf : ojson -> bytes -> Rfc6902.res ojson) (Q : A -> Prop) :
  cgood4 c -> Forall tok_dom4 (map decode_token (split_slash r)) ->
  (forall p t, is_container p = false -> lf p t = RFail FUnreachable) ->
  (forall cp, cgood4 cp -> descend (d4 g) (map decode_token (path_parts r)) (cval4 c) = Some (cval4 cp) ->
     match lf (cval4 cp) (path_key r) with
     | ROk j' => exists a cp', f cp (path_key r) = (Ok a, cp') /\ cval4 cp' = j' /\ cgood4 cp' /\ Q a
     | RFail cz => exists e cp', f cp (path_key r) = (Err e, cp') /\ cause_rel cz e
     end) ->
  match at_parent (d4 g) (ptoks r) (cval4 c) lf with
  | ROk j' => exists a c2, find4 g c (x2f :: r) f = (Some (Ok a), c2) /\ cval4 c2 = j' /\ cgood4 c2 /\ Q a
  | RFail cz => exists e c2, (find4 g c (x2f :: r) f = (Some (Err e), c2) \/
                              (find4 g c (x2f :: r) f = (None, c2) /\ e = EMissing)) /\ cause_rel cz e
  end.
Proof.
  intros G D NC L. unfold ptoks. rewrite at_parent_snoc. pose proof (find4_spec g c r f G D) as FS.
  destruct (descend (d4 g) (map decode_token (path_parts r)) (cval4 c)) as [p|].
  - destruct (is_container p) eqn:Cp.
    + destruct FS as [cp [back [E1 [E2 [E3 E4]]]]]. specialize (L cp E2). rewrite E1 in L. specialize (L eq_refl).
      destruct (lf p (path_key r)) as [j'|cz]; simpl.
      * destruct L as [a [cp' [L1 [L2 [L3 L4]]]]]. rewrite L1 in E3. simpl in E3.
        destruct (E4 cp' L3) as [F1 F2]. exists a, (back cp'). split; [exact E3|]. split; [now rewrite F1, L2|]. split; [exact F2 | exact L4].
      * destruct L as [e [cp' [L1 L2]]]. rewrite L1 in E3. simpl in E3. exists e, (back cp'). split; auto.
    + destruct FS as [c' [F1 [F2 F3]]]. rewrite (NC p (path_key r) Cp). simpl. exists EMissing, c'. split; [right; auto | reflexivity].
  - destruct FS as [c' [F1 [F2 F3]]]. exists EMissing, c'. split; [right; auto | reflexivity].
Qed.

(* ---- 4. the operations ---- *)
Definition sgood4 (st : state4) : Prop := cgood4 (r4 st).
Definition sval4 (st : state4) : ojson := cval4 (r4 st).
Definition opv4 (op : operation) : node := match op_value4 op with Some v => v | None => NNil end.

Definition val_good4 (op : operation) : Prop :=
  match aget (B "value") op with Some (Some t) => raw4 t | _ => True end.

Lemma opv4_aval op : aval4 (opv4 op) = ref_value op.
Proof. unfold opv4, op_value4, ref_value. destruct (aget (B "value") op) as [[t|]|]; reflexivity. Qed.

Lemma opv4_good op : val_good4 op -> ngood4 (opv4 op).
Proof.
  unfold val_good4, opv4, op_value4. destruct (aget (B "value") op) as [[t|]|]; intro H; [exact (proj2 H) | exact ngood4_raw_nil | exact I].
Qed.

(* one unfolding of step4 per operation kind *)
Definition add_fn4 (g : opts4) (v : node) (c' : con4) (key : bytes) : res unit * con4 := upd (con4_add g c' key v) c' tt.
Definition remove_fn4 (g : opts4) (c' : con4) (key : bytes) : res unit * con4 := upd (con4_remove g c' key) c' tt.
Definition replace_fn4 (g : opts4) (v : node) (c' : con4) (key : bytes) : res unit * con4 :=
  match con4_get g c' key with
  | Ok _ => upd (con4_set g c' key v) c' tt
  | Err _ => (Err EMissing, c')
  | Panic => (Panic, c')
  end.
Definition move_src_fn4 (g : opts4) (c' : con4) (key : bytes) : res node * con4 :=
  match con4_get g c' key with
  | Ok v => upd (con4_remove g c' key) c' v
  | Err e => (Err e, c')
  | Panic => (Panic, c')
  end.
Definition get_fn4 (g : opts4) (c' : con4) (key : bytes) : res node * con4 := (con4_get g c' key, c').
Definition unit_fn4 (c' : con4) (_ : bytes) : unit * con4 := (tt, c').
Definition test_fn4 (g : opts4) (op : operation) (c' : con4) (key : bytes) : res unit * con4 :=
  match con4_get g c' key with
  | Ok v =>
      if is_null4 v then ((if null4 (opv4 op) then Ok tt else Err ETestFailed), c')
      else match op_value4 op with
           | None => (Err ETestFailed, c')
           | Some ov => ((if node_equal4 v ov then Ok tt else Err ETestFailed), c')
           end
  | Err e => (Err e, c')
  | Panic => (Panic, c')
  end.

Definition keep_acc (st : state4) : unit -> con4 -> res state4 := fun _ c2 => Ok (mkState4 c2 (acc4 st)).

Lemma step4_add g st op : op_kind op = KAdd ->
  step4 g st op = match op_str op (B "path") with
                  | Ok path => lift4 (find4 g (r4 st) path (add_fn4 g (opv4 op))) st (keep_acc st)
                  | _ => Err EMissing
                  end.
Proof. intro K. unfold step4. rewrite K. reflexivity. Qed.

Lemma step4_remove g st op : op_kind op = KRemove ->
  step4 g st op = match op_str op (B "path") with
                  | Ok path => lift4 (find4 g (r4 st) path (remove_fn4 g)) st (keep_acc st)
                  | _ => Err EMissing
                  end.
Proof. intro K. unfold step4. rewrite K. reflexivity. Qed.

Lemma step4_replace g st op : op_kind op = KReplace ->
  step4 g st op = match op_str op (B "path") with
                  | Ok [] =>
                      match op_value4 op with
                      | Some (NRaw (TObj ms)) => Ok (mkState4 (DDoc (obj_of ms)) (acc4 st))
                      | Some (NRaw (TArr l)) => Ok (mkState4 (DAry (map child l)) (acc4 st))
                      | Some _ => Err EOther
                      | None => Err EMissing
                      end
                  | Ok path => lift4 (find4 g (r4 st) path (replace_fn4 g (opv4 op))) st (keep_acc st)
                  | Err e => Err e
                  | Panic => Panic
                  end.
Proof. intro K. unfold step4. rewrite K. reflexivity. Qed.

Lemma step4_move g st op : op_kind op = KMove ->
  step4 g st op = match op_str op (B "from") with
                  | Ok from =>
                      lift4 (find4 g (r4 st) from (move_src_fn4 g)) st
                        (fun v c1 =>
                           match op_str op (B "path") with
                           | Ok path => lift4 (find4 g c1 path (add_fn4 g v)) st (keep_acc st)
                           | Err e => Err e
                           | Panic => Panic
                           end)
                  | Err e => Err e
                  | Panic => Panic
                  end.
Proof. intro K. unfold step4. rewrite K. reflexivity. Qed.

Lemma step4_test g st op : op_kind op = KTest ->
  step4 g st op = match op_str op (B "path") with
                  | Ok [] => if node_equal4 (node_of_con4 (r4 st)) (opv4 op) && negb (is_null4 (opv4 op)) then Ok st else Err ETestFailed
                  | Ok path => lift4 (find4 g (r4 st) path (test_fn4 g op)) st (keep_acc st)
                  | Err e => Err e
                  | Panic => Panic
                  end.
Proof. intro K. unfold step4. rewrite K. reflexivity. Qed.

Lemma step4_copy g st op : op_kind op = KCopy ->
  step4 g st op = match op_str op (B "from") with
                  | Ok from =>
                      lift4 (find4 g (r4 st) from (get_fn4 g)) st
                        (fun _ c1 =>
                           match op_str op (B "path") with
                           | Ok path =>
                               match find4 g c1 path unit_fn4 with
                               | (Some _, c2) =>
                                   lift4 (find4 g c2 from (get_fn4 g)) st
                                     (fun v _ =>
                                        let (cp, sz) := deep_copy4 g v in
                                        let acc := (acc4 st + sz)%Z in
                                        if (0 <? g_limit g)%Z && (g_limit g <? acc)%Z then Err (ECopyLimit (g_limit g) acc)
                                        else lift4 (find4 g c2 path (add_fn4 g cp)) st (fun _ c3 => Ok (mkState4 c3 acc)))
                               | (None, _) => Err EMissing
                               end
                           | _ => Err EMissing
                           end)
                  | Err e => Err e
                  | Panic => Panic
                  end.
Proof. intro K. unfold step4. rewrite K. reflexivity. Qed.

Lemma step4_unknown g st op : op_kind op = KUnknown -> step4 g st op = Err EOther.
Proof. intro K. unfold step4. rewrite K. reflexivity. Qed.

(* what lift4 + keep_acc make of the result of a find *)
Lemma lift4_keep g (st : state4) (c : con4) r (f : con4 -> bytes -> res unit * con4) j :
  match j with
  | ROk j' => exists a c2, find4 g c (x2f :: r) f = (Some (Ok a), c2) /\ cval4 c2 = j' /\ cgood4 c2 /\ True
  | RFail cz => exists e c2, (find4 g c (x2f :: r) f = (Some (Err e), c2) \/
                              (find4 g c (x2f :: r) f = (None, c2) /\ e = EMissing)) /\ cause_rel cz e
  end ->
  match j with
  | ROk j' => exists st', lift4 (find4 g c (x2f :: r) f) st (keep_acc st) = Ok st' /\ sval4 st' = j' /\ sgood4 st' /\ acc4 st' = acc4 st
  | RFail cz => exists e, lift4 (find4 g c (x2f :: r) f) st (keep_acc st) = Err e /\ cause_rel cz e
  end.
Proof.
  destruct j as [j'|cz].
  - intros [a [c2 [F1 [F2 [F3 _]]]]]. rewrite F1. exists (mkState4 c2 (acc4 st)). split; [reflexivity|].
    unfold sval4, sgood4. cbn [r4 acc4]. split; [exact F2|]. split; [exact F3 | reflexivity].
  - intros [e [c2 [[F1|[F1 ->]] F2]]]; rewrite F1; exists e + exists EMissing; (split; [reflexivity | exact F2]).
Qed.

(* ---- add ---- *)
Lemma add_find4_sim g c r v :
  cgood4 c -> Forall tok_dom4 (map decode_token (split_slash r)) -> ngood4 v ->
  match at_parent (d4 g) (ptoks r) (cval4 c) (add_leaf (d4 g) (aval4 v)) with
  | ROk j' => exists a c2, find4 g c (x2f :: r) (add_fn4 g v) = (Some (Ok a), c2) /\ cval4 c2 = j' /\ cgood4 c2 /\ True
  | RFail cz => exists e c2, (find4 g c (x2f :: r) (add_fn4 g v) = (Some (Err e), c2) \/
                              (find4 g c (x2f :: r) (add_fn4 g v) = (None, c2) /\ e = EMissing)) /\ cause_rel cz e
  end.
Proof.
  intros G D Gv.
  apply (find4_at_parent g c r (add_fn4 g v) (add_leaf (d4 g) (aval4 v)) (fun _ => True) G D).
  - intros p t Cp. apply (proj1 (leaf_noncontainer (d4 g) p t Cp)).
  - intros cp Gcp _. pose proof (con4_add_sim g cp (path_key r) v Gcp (proj2 (dom_split4 r D)) Gv) as CA.
    unfold add_fn4. destruct (add_leaf (d4 g) (aval4 v) (cval4 cp) (path_key r)) as [j'|cz].
    + destruct CA as [cp' [C1 [C2 C3]]]. exists tt, cp'. rewrite C1. auto.
    + destruct CA as [-> [e [C1 C2]]]. exists e, cp. rewrite C1. split; auto. destruct C2 as [-> | ->]; simpl; auto.
Qed.

Lemma step4_add_sim g st op r :
  sgood4 st -> op_kind op = KAdd ->
  op_str op (B "path") = Ok (x2f :: r) -> Forall tok_dom4 (map decode_token (split_slash r)) -> val_good4 op ->
  match at_parent (d4 g) (ptoks r) (sval4 st) (add_leaf (d4 g) (ref_value op)) with
  | ROk j' => exists st', step4 g st op = Ok st' /\ sval4 st' = j' /\ sgood4 st' /\ acc4 st' = acc4 st
  | RFail cz => exists e, step4 g st op = Err e /\ cause_rel cz e
  end.
Proof.
  intros G K Hp D Vg. rewrite (step4_add g st op K), Hp.
  apply lift4_keep. rewrite <- opv4_aval. apply add_find4_sim; auto. apply opv4_good; auto.
Qed.

(* the legacy package does not offer add on the whole document *)
Lemma step4_add_root g st op : op_kind op = KAdd -> op_str op (B "path") = Ok [] -> step4 g st op = Err EMissing.
Proof. intros K Hp. rewrite (step4_add g st op K), Hp. reflexivity. Qed.

(* ---- remove ---- *)
Lemma step4_remove_sim g st op r :
  sgood4 st -> op_kind op = KRemove ->
  op_str op (B "path") = Ok (x2f :: r) -> Forall tok_dom4 (map decode_token (split_slash r)) ->
  match at_parent (d4 g) (ptoks r) (sval4 st) (remove_leaf (d4 g)) with
  | ROk j' => exists st', step4 g st op = Ok st' /\ sval4 st' = j' /\ sgood4 st' /\ acc4 st' = acc4 st
  | RFail cz => exists e, step4 g st op = Err e /\ cause_rel cz e
  end.
Proof.
  intros G K Hp D. rewrite (step4_remove g st op K), Hp. apply lift4_keep.
  apply (find4_at_parent g (r4 st) r (remove_fn4 g) (remove_leaf (d4 g)) (fun _ => True) G D).
  - intros p t Cp. apply (proj1 (proj2 (leaf_noncontainer (d4 g) p t Cp))).
  - intros cp Gcp _. pose proof (con4_remove_sim g cp (path_key r) Gcp (proj2 (dom_split4 r D))) as CA.
    unfold remove_fn4. destruct (remove_leaf (d4 g) (cval4 cp) (path_key r)) as [j'|cz].
    + destruct CA as [cp' [C1 [C2 C3]]]. exists tt, cp'. rewrite C1. auto.
    + destruct CA as [e [C1 C2]]. exists e, cp. rewrite C1. split; auto.
      destruct C2 as [[-> ->]|[-> [C2|C2]]]; simpl; auto.
Qed.

(* ---- replace ---- *)
(* what the legacy replace does at the parent: on an object it is the map assignment, whether or
   not the member exists (the documented deviation); on an array it is the reference's replace *)
Definition replace_leaf4 (d : dialect) (v : ojson) (parent : ojson) (t : bytes) : Rfc6902.res ojson :=
  match parent with
  | OObj ms => ROk (OObj (aset t v ms))
  | _ => replace_leaf d v parent t
  end.

Lemma replace_leaf4_agree d v p t :
  replace_leaf d v p t <> RFail FMissingMember -> replace_leaf4 d v p t = replace_leaf d v p t.
Proof. destruct p; try reflexivity. cbn [replace_leaf replace_leaf4]. destruct (amem t ms); [reflexivity | congruence]. Qed.

Lemma replace_leaf4_absent d v p t :
  replace_leaf d v p t = RFail FMissingMember -> replace_leaf4 d v p t = add_leaf d v p t.
Proof.
  destruct p; try discriminate.
  - cbn [replace_leaf]. destruct (idx_existing d (Rfc6902.zlen l) t); discriminate.
  - reflexivity.
Qed.

Lemma step4_replace_sim g st op r :
  sgood4 st -> op_kind op = KReplace ->
  op_str op (B "path") = Ok (x2f :: r) -> Forall tok_dom4 (map decode_token (split_slash r)) -> val_good4 op ->
  match at_parent (d4 g) (ptoks r) (sval4 st) (replace_leaf4 (d4 g) (ref_value op)) with
  | ROk j' => exists st', step4 g st op = Ok st' /\ sval4 st' = j' /\ sgood4 st' /\ acc4 st' = acc4 st
  | RFail cz => exists e, step4 g st op = Err e /\ cause_rel cz e
  end.
Proof.
  intros G K Hp D Vg. pose proof (opv4_good op Vg) as Gv. pose proof (proj2 (dom_split4 r D)) as Dk.
  rewrite (step4_replace g st op K), Hp. apply lift4_keep.
  apply (find4_at_parent g (r4 st) r (replace_fn4 g (opv4 op)) (replace_leaf4 (d4 g) (ref_value op)) (fun _ => True) G D).
  - intros p t Cp. destruct p; try discriminate; reflexivity.
  - intros cp Gcp _. pose proof (con4_get_sim g cp (path_key r) Gcp Dk) as CG. unfold replace_fn4.
    assert (SetOk : forall old, con4_get g cp (path_key r) = Ok old ->
              match cp with DAry _ => child_at (d4 g) (cval4 cp) (path_key r) <> None | _ => True end ->
              match replace_leaf4 (d4 g) (ref_value op) (cval4 cp) (path_key r) with
              | ROk j' => exists (a : unit) cp', upd (con4_set g cp (path_key r) (opv4 op)) cp tt = (Ok a, cp') /\ cval4 cp' = j' /\ cgood4 cp' /\ True
              | RFail cz => exists e cp', upd (con4_set g cp (path_key r) (opv4 op)) cp tt = (Err e, cp') /\ cause_rel cz e
              end).
    { intros old H1 _. destruct (con4_set_sim g cp (path_key r) (opv4 op) old Gcp Dk Gv H1) as [cp' [S1 [S2 S3]]].
      rewrite opv4_aval in S3. rewrite S1. cbn [upd].
      destruct cp as [obj| |ns]; [| destruct Gcp as [_ Gcp]; congruence |].
      - unfold cval4 at 1. cbn [node_of_con4 aval4 replace_leaf4]. cbn [cval4 node_of_con4 aval4 add_leaf] in S3.
        unfold cval4 in S3 at 1. cbn [node_of_con4 aval4 add_leaf] in S3. inversion S3 as [S4].
        exists tt, cp'. auto.
      - unfold cval4 at 1. cbn [node_of_con4 aval4 replace_leaf4]. unfold cval4 in S3 at 1. cbn [node_of_con4 aval4] in S3.
        rewrite S3. exists tt, cp'. auto. }
    destruct (child_at (d4 g) (cval4 cp) (path_key r)) as [j|] eqn:Ech.
    + destruct CG as [old [H1 _]]. rewrite H1. apply (SetOk old H1). destruct cp; auto; discriminate.
    + destruct cp as [obj| |ns]; [| destruct Gcp as [_ Gcp]; congruence |].
      * rewrite CG. apply (SetOk NNil CG). exact I.
      * destruct CG as [e [H1 H2]]. rewrite H1.
        unfold cval4 in *. cbn [node_of_con4 aval4 child_at replace_leaf4 replace_leaf] in *.
        destruct (idx_existing (d4 g) (Rfc6902.zlen (map aval4 ns)) (path_key r)); [discriminate|].
        exists EMissing, (DAry ns). split; auto. simpl. auto.
Qed.

(* replace on the whole document: an object or an array takes the place of the document *)
Lemma step4_replace_root_sim g st op t :
  op_kind op = KReplace -> op_str op (B "path") = Ok [] -> aget (B "value") op = Some (Some t) -> raw4 t ->
  if is_container (den t)
  then exists st', step4 g st op = Ok st' /\ sval4 st' = den t /\ sgood4 st' /\ acc4 st' = acc4 st
  else exists e, step4 g st op = Err e /\ plain_err e = true.
Proof.
  intros K Hp Hv R. rewrite (step4_replace g st op K), Hp. unfold op_value4. rewrite Hv.
  destruct t; try (simpl; eexists; split; reflexivity).
  - destruct (parsed4_arr l R) as [P1 P2]. simpl is_container. eexists. split; [reflexivity|].
    unfold sval4, sgood4. cbn [r4 acc4]. auto.
  - destruct (parsed4_obj ms R) as [P1 P2]. rewrite <- P1. simpl is_container. eexists. split; [reflexivity|].
    unfold sval4, sgood4. cbn [r4 acc4]. auto.
Qed.

(* ---- move ---- *)
Lemma step4_move_sim g st op rf r :
  sgood4 st -> op_kind op = KMove ->
  op_str op (B "from") = Ok (x2f :: rf) -> Forall tok_dom4 (map decode_token (split_slash rf)) ->
  op_str op (B "path") = Ok (x2f :: r) -> Forall tok_dom4 (map decode_token (split_slash r)) ->
  match (v <- get_at (d4 g) (ptoks rf) (sval4 st) ;;
         doc1 <- at_parent (d4 g) (ptoks rf) (sval4 st) (remove_leaf (d4 g)) ;;
         at_parent (d4 g) (ptoks r) doc1 (add_leaf (d4 g) v)) with
  | ROk j' => exists st', step4 g st op = Ok st' /\ sval4 st' = j' /\ sgood4 st' /\ acc4 st' = acc4 st
  | RFail cz => exists e, step4 g st op = Err e /\ cause_rel cz e
  end.
Proof.
  intros G K Hf Df Hp Dp. pose proof (proj2 (dom_split4 rf Df)) as Dk.
  set (c := r4 st) in *. unfold sval4. fold c.
  pose proof (find4_spec g c rf (move_src_fn4 g) G Df) as FS.
  unfold ptoks at 1 2. rewrite move_ref.
  rewrite (step4_move g st op K), Hf. fold c.
  destruct (descend (d4 g) (map decode_token (path_parts rf)) (cval4 c)) as [p|] eqn:Ed.
  2: { destruct FS as [c' [F1 _]]. rewrite F1. exists EMissing. split; reflexivity. }
  destruct (is_container p) eqn:Cp.
  2: { destruct FS as [c' [F1 _]]. rewrite F1.
       rewrite (proj2 (proj2 (proj2 (proj2 (leaf_noncontainer (d4 g) p (path_key rf) Cp))))).
       exists EMissing. split; reflexivity. }
  destruct FS as [cp [back [E1 [E2 [E3 E4]]]]]. rewrite E3. clear E3.
  pose proof (con4_get_sim g cp (path_key rf) E2 Dk) as CG. rewrite E1 in CG.
  pose proof (con4_remove_sim g cp (path_key rf) E2 Dk) as CR. rewrite E1 in CR.
  unfold move_src_fn4.
  assert (GL : get_leaf (d4 g) p (path_key rf) =
               match child_at (d4 g) p (path_key rf) with
               | Some j => ROk j
               | None => match p with OObj _ => RFail FMissingMember | _ => RFail FIndex end
               end).
  { destruct p; try discriminate; cbn [get_leaf child_at].
    - destruct (idx_existing (d4 g) (Rfc6902.zlen l) (path_key rf)); reflexivity.
    - destruct (aget (path_key rf) ms); reflexivity. }
  rewrite GL. destruct (child_at (d4 g) p (path_key rf)) as [j|] eqn:Ech.
  - destruct CG as [v [H1 [H2 H3]]]. rewrite H1.
    assert (RL : exists p', remove_leaf (d4 g) p (path_key rf) = ROk p').
    { destruct p; try discriminate; cbn [child_at remove_leaf] in *.
      - destruct (idx_existing (d4 g) (Rfc6902.zlen l) (path_key rf)); [eauto | discriminate].
      - unfold amem. rewrite Ech. eauto. }
    destruct RL as [p' RL]. rewrite RL in *. destruct CR as [cp' [R1 [R2 R3]]]. rewrite R1. cbn [upd fst snd lift4].
    destruct (E4 cp' R3) as [F1 F2]. rewrite R2 in F1.
    rewrite Hp.
    pose proof (add_find4_sim g (back cp') r v F2 Dp H3) as AF. rewrite F1, H2 in AF.
    apply (lift4_keep g st (back cp') r (add_fn4 g v)
             (at_parent (d4 g) (ptoks r) (rebuild (d4 g) (map decode_token (path_parts rf)) (cval4 c) p') (add_leaf (d4 g) j))).
    exact AF.
  - destruct cp as [obj| |ns]; [| destruct E2 as [_ E2]; congruence |].
    + (* an absent member: get reads nil, remove reports the missing member *)
      rewrite CG. unfold cval4 in E1. cbn [node_of_con4 aval4] in E1. subst p.
      cbn [remove_leaf] in CR. cbn [child_at] in Ech. unfold amem in CR. rewrite Ech in CR.
      destruct CR as [e [R1 R2]]. rewrite R1. cbn [upd fst snd lift4]. exists e. split; [reflexivity|].
      destruct R2 as [[_ ->]|[R2 _]]; [reflexivity | discriminate].
    + destruct CG as [e [H1 H2]]. rewrite H1. cbn [fst snd lift4].
      unfold cval4 in E1. cbn [node_of_con4 aval4] in E1. subst p. exists e. split; [reflexivity|].
      destruct H2 as [-> | ->]; simpl; auto.
Qed.

(* ---- the legacy Equal (strings by spelling) decides structural equality on plain spellings ---- *)
Lemma bseq_app_tail a b t : bseq (a ++ t) (b ++ t) = bseq a b.
Proof.
  destruct (bseq a b) eqn:E.
  - apply bseq_eq in E. subst. apply bseq_refl.
  - apply bseq_neq. apply bseq_neq in E. intro H. apply E. eapply app_inv_tail; eauto.
Qed.

Lemma spell_eq x y : bseq (spell false x) (spell false y) = bseq x y.
Proof.
  unfold spell. cbn [bseq]. replace (Byte.eqb x22 x22) with true by reflexivity. cbn [andb]. apply bseq_app_tail.
Qed.

Definition leaf4_equal (a b : tjson) : bool := bseq (print false a) (print false b).

Lemma leaf4_equal_spec a b : leaf_ok a -> leaf_ok b -> tplain a -> tplain b -> leaf4_equal a b = jeq (den a) (den b).
Proof.
  intros [Ha La] [Hb Lb] Pa Pb. unfold leaf4_equal.
  destruct a; try contradiction; destruct b; try contradiction; try reflexivity;
    cbn [den print jeq tlit] in *;
    try (apply (lit_not _ _ _ La); [discriminate | reflexivity]);
    try (apply (lit_not _ _ _ Lb); [discriminate | reflexivity]).
  unfold tplain, splain in Pa, Pb. destruct Pa as [Pa _]. destruct Pb as [Pb _]. rewrite Pa, Pb. apply spell_eq.
Qed.

Inductive shape_ok4 : node -> shape -> Prop :=
| Sh4Leaf n t : aval4 n = den t -> leaf_ok t -> tplain t -> shape_ok4 n (SLeaf t)
| Sh4Doc n m : aval4 n = OObj (amap4 m) ->
               (forall k v, In (k, v) m -> ngood4 v /\ (nsize v < nsize n)%nat) -> shape_ok4 n (SDoc m)
| Sh4Ary n l : aval4 n = OArr (map aval4 l) ->
               (forall v, In v l -> ngood4 v /\ (nsize v < nsize n)%nat) -> shape_ok4 n (SAry l).

Lemma shape4_ok n : ngood4 n -> null4 n = false -> shape_ok4 n (shape4 n).
Proof.
  intros G NN. destruct n as [|t|ks obj|ns]; try discriminate.
  - assert (N0 : t <> TNull) by (intro E; subst t; discriminate).
    apply (fun G => ngood4_raw_nn t G N0) in G. pose proof G as [_ [T [L [P _]]]].
    destruct t; try congruence; cbn [shape4];
      try (apply Sh4Leaf; [reflexivity | split; [exact I | exact L] | exact P]).
    + (* raw array *)
      apply Sh4Ary.
      * cbn [aval4 den]. f_equal. rewrite map_map. apply map_ext. intro t. symmetry. apply aval4_child.
      * intros v Hin. apply in_map_iff in Hin as [t [<- Hin]]. pose proof (raw4_arr l G) as F.
        rewrite Forall_forall in F. split; [apply F; exact Hin|].
        rewrite nsize_child. simpl. pose proof (fold_tsize_in_l l t Hin). lia.
    + (* raw object *)
      pose proof (raw4_obj ms G) as [N [_ F]]. rewrite (obj_of_nodup ms N). apply Sh4Doc.
      * cbn [aval4]. rewrite (den_obj_nodup ms T). f_equal. unfold amap4, den_members. rewrite map_map.
        apply map_ext. intro kv. cbn [fst snd]. now rewrite aval4_child.
      * intros k v Hin. apply in_map_iff in Hin as [[k0 t0] [E Hin]]. inversion E; subst.
        rewrite Forall_forall in F. split; [apply (F _ Hin)|].
        rewrite nsize_child. simpl. pose proof (fold_tsize_in ms (k0, t0) Hin). simpl in *. lia.
  - apply ngood4_doc in G as [_ [N [_ Gs]]]. cbn [shape4]. apply Sh4Doc; [reflexivity|].
    intros k v Hin. rewrite Forall_forall in Gs. split; [apply (Gs _ Hin)|].
    simpl. pose proof (fold_nsize_in obj (k, v) Hin). simpl in *. lia.
  - apply ngood4_ary in G. cbn [shape4]. apply Sh4Ary; [reflexivity|].
    intros v Hin. rewrite Forall_forall in G. split; [apply (G _ Hin)|].
    simpl. pose proof (fold_nsize_in_l ns v Hin). lia.
Qed.

(* isNull (nil node, nil raw message; the raw text null is not in the invariant) is: the value is null *)
Lemma null4_onull n : ngood4 n -> null4 n = onull (aval4 n).
Proof.
  intro G. destruct n as [|t|ks obj|ns]; try reflexivity.
  - destruct t; reflexivity.
  - apply ngood4_doc in G as [-> _]. reflexivity.
Qed.

(* n == nil implies that; the converse fails exactly for the operation value null (raw_nil4) *)
Lemma is_null4_null4 n : is_null4 n = true -> n = NNil.
Proof. destruct n; try discriminate. reflexivity. Qed.

Lemma equal4_unfold f n o :
  equal4 (S f) n o =
  if null4 n || null4 o then null4 n && null4 o else
  match shape4 n, shape4 o with
  | SLeaf a, SLeaf b => leaf4_equal a b
  | SLeaf _, _ => false
  | SDoc m, SDoc m' =>
      (length m =? length m')%nat &&
      forallb (fun kv => match aget (fst kv) m' with Some ov => equal4 f (snd kv) ov | None => false end) m
  | SDoc _, _ => false
  | SAry l, SAry l' => (length l =? length l')%nat && ary_go (equal4 f) l l'
  | SAry _, _ => false
  end.
Proof.
  cbn [equal4]. destruct (null4 n || null4 o); auto.
  destruct (shape4 n), (shape4 o); auto. f_equal.
  revert ns0. induction ns as [|x l IH]; intros [|y l']; simpl; auto. now rewrite IH.
Qed.

Theorem equal4_spec : forall fuel n o,
  (nsize n + nsize o <= fuel)%nat -> ngood4 n -> ngood4 o -> equal4 fuel n o = jeq (aval4 n) (aval4 o).
Proof.
  induction fuel as [|f IH]; intros n o Hf Gn Go.
  { destruct n; simpl in Hf; try lia; pose proof (tsize_pos t); lia. }
  rewrite equal4_unfold, (null4_onull n Gn), (null4_onull o Go).
  destruct (onull (aval4 n)) eqn:Nn.
  { destruct (aval4 n); try discriminate. cbn [orb andb]. symmetry. apply jeq_null_l. }
  destruct (onull (aval4 o)) eqn:No.
  { destruct (aval4 o); try discriminate. cbn [orb andb]. rewrite jeq_null_r. symmetry. exact Nn. }
  cbn [orb].
  assert (NNn : null4 n = false) by (rewrite null4_onull; auto).
  assert (NNo : null4 o = false) by (rewrite null4_onull; auto).
  pose proof (shape4_ok n Gn NNn) as Sn. pose proof (shape4_ok o Go NNo) as So.
  inversion Sn as [n1 a Ea Ha Pa Eq1|n1 m Ea Cm Eq1|n1 l Ea Cl Eq1]; subst n1;
    inversion So as [o1 b Eb Hb Pb Eq2|o1 m' Eb Cm' Eq2|o1 l' Eb Cl' Eq2]; subst o1;
    rewrite Ea, Eb.
  - apply leaf4_equal_spec; auto.
  - destruct Ha as [Ha _]. destruct a; try contradiction; reflexivity.
  - destruct Ha as [Ha _]. destruct a; try contradiction; reflexivity.
  - destruct Hb as [Hb _]. destruct b; try contradiction; reflexivity.
  - (* two objects *)
    rewrite jeq_obj. unfold amap4 at 1 2. rewrite !map_length. f_equal.
    assert (IHc : forall k v ov, In (k, v) m -> In (k, ov) m' -> equal4 f v ov = jeq (aval4 v) (aval4 ov)).
    { intros k v ov H1 H2. destruct (Cm _ _ H1) as [G1 S1]. destruct (Cm' _ _ H2) as [G2 S2].
      apply IH; auto. lia. }
    clear - IHc. induction m as [|[k v] m IHm]; [reflexivity|].
    cbn [forallb fst snd]. unfold amap4 at 1. cbn [map fst snd jeq_members]. fold (amap4 m).
    rewrite amap4_msnd, aget_msnd. destruct (aget k m') as [ov|] eqn:E; cbn [option_map]; [|reflexivity].
    rewrite (IHc k v ov) by (try (now left); apply aget_In; exact E). f_equal.
    apply IHm. intros k0 v0 ov0 H1 H2. apply (IHc k0); auto. now right.
  - reflexivity.
  - destruct Hb as [Hb _]. destruct b; try contradiction; reflexivity.
  - reflexivity.
  - (* two arrays *)
    rewrite jeq_arr.
    assert (IHc : forall v ov, In v l -> In ov l' -> equal4 f v ov = jeq (aval4 v) (aval4 ov)).
    { intros v ov H1 H2. destruct (Cl _ H1) as [G1 S1]. destruct (Cl' _ H2) as [G2 S2].
      apply IH; auto. lia. }
    clear - IHc. revert l' IHc. induction l as [|x l IHl]; intros [|y l'] IHc; simpl; auto.
    rewrite (IHc x y) by (now left).
    destruct (jeq (aval4 x) (aval4 y)); simpl.
    + rewrite <- IHl by (intros; apply IHc; now right). reflexivity.
    + now rewrite andb_false_r.
Qed.

Theorem node_equal4_spec n o : ngood4 n -> ngood4 o -> node_equal4 n o = jeq (aval4 n) (aval4 o).
Proof. intros. unfold node_equal4. apply equal4_spec; auto. Qed.

(* ---- test ---- *)
Lemma test_value_rel4 v ov : ngood4 v -> ngood4 ov ->
  jeq (aval4 v) (aval4 ov) =
  if null4 v then null4 ov else if null4 ov then false else node_equal4 v ov.
Proof.
  intros Gv Go. rewrite (null4_onull v Gv), (null4_onull ov Go).
  destruct (onull (aval4 v)) eqn:N1.
  - destruct (aval4 v); try discriminate. apply jeq_null_l.
  - destruct (onull (aval4 ov)) eqn:N2.
    + destruct (aval4 ov); try discriminate. rewrite jeq_null_r. exact N1.
    + symmetry. apply node_equal4_spec; auto.
Qed.

(* a test WITHOUT value member against a member that is there: the package compares the nil
   pointer, and fails on the operation value null (a non-nil node), where the reference compares
   null = null.  The leaf lemma therefore asks for a value member unless the member is absent. *)
Definition has_value4 (op : operation) : Prop := aget (B "value") op <> None.

Lemma test_leaf4_sim g op cp key :
  cgood4 cp -> tok_dom4 key -> val_good4 op ->
  (has_value4 op \/ child_at (d4 g) (cval4 cp) key = None) ->
  match test_leaf (d4 g) (ref_value op) (cval4 cp) key with
  | ROk j' => exists a cp', test_fn4 g op cp key = (Ok a, cp') /\ cval4 cp' = j' /\ cgood4 cp' /\ True
  | RFail cz => exists e cp', test_fn4 g op cp key = (Err e, cp') /\ cause_rel cz e
  end.
Proof.
  intros G D Vg HV. pose proof (opv4_good op Vg) as Go. pose proof (con4_get_sim g cp key G D) as CG.
  pose proof (cgood4_container cp G) as Cc. unfold test_fn4. rewrite <- opv4_aval.
  (* the comparison the legacy code makes on the node it read *)
  assert (CmpNil :
            (if is_null4 NNil then ((if null4 (opv4 op) then Ok tt else Err ETestFailed), cp)
             else match op_value4 op with
                  | None => (Err ETestFailed, cp)
                  | Some ov => ((if node_equal4 NNil ov then Ok tt else Err ETestFailed), cp)
                  end) = ((if jeq (aval4 NNil) (aval4 (opv4 op)) then Ok tt else Err ETestFailed), cp)).
  { cbn [is_null4 aval4]. rewrite jeq_null_l, (null4_onull _ Go). reflexivity. }
  assert (Cmp : has_value4 op -> forall v, ngood4 v ->
            (if is_null4 v then ((if null4 (opv4 op) then Ok tt else Err ETestFailed), cp)
             else match op_value4 op with
                  | None => (Err ETestFailed, cp)
                  | Some ov => ((if node_equal4 v ov then Ok tt else Err ETestFailed), cp)
                  end) = ((if jeq (aval4 v) (aval4 (opv4 op)) then Ok tt else Err ETestFailed), cp)).
  { intros Hv v Gv. destruct (is_null4 v) eqn:Nv.
    - apply is_null4_null4 in Nv. subst v. exact CmpNil.
    - unfold opv4 in *. destruct (op_value4 op) as [ov|] eqn:Eo.
      + rewrite (node_equal4_spec v ov Gv Go). reflexivity.
      + exfalso. apply Hv. unfold op_value4 in Eo. destruct (aget (B "value") op) as [[t|]|]; [discriminate | discriminate | reflexivity]. }
  assert (Fin : forall x, (if jeq x (aval4 (opv4 op)) then ROk (cval4 cp) else RFail FTest) =
                          test_leaf (d4 g) (aval4 (opv4 op)) (cval4 cp) key ->
                forall v, ngood4 v -> aval4 v = x ->
                match test_leaf (d4 g) (aval4 (opv4 op)) (cval4 cp) key with
                | ROk j' => exists (a : unit) cp', ((if jeq (aval4 v) (aval4 (opv4 op)) then Ok tt else Err ETestFailed), cp) = (Ok a, cp') /\ cval4 cp' = j' /\ cgood4 cp' /\ True
                | RFail cz => exists e cp', ((if jeq (aval4 v) (aval4 (opv4 op)) then Ok tt else Err ETestFailed), cp) = (Err e, cp') /\ cause_rel cz e
                end).
  { intros x TL v Gv Ev. rewrite <- TL, Ev. destruct (jeq x (aval4 (opv4 op))).
    - exists tt, cp. auto.
    - exists ETestFailed, cp. split; reflexivity. }
  destruct (child_at (d4 g) (cval4 cp) key) as [j|] eqn:Ech.
  - assert (Hv : has_value4 op) by (destruct HV as [Hv|Hv]; [exact Hv | discriminate]).
    destruct CG as [v [H1 [H2 H3]]]. rewrite H1, (Cmp Hv v H3). apply (Fin j); auto.
    destruct (cval4 cp); try discriminate; cbn [child_at test_leaf] in *.
    + destruct (idx_existing (d4 g) (Rfc6902.zlen l) key) as [n|]; try discriminate.
      inversion Ech; subst. reflexivity.
    + rewrite Ech. reflexivity.
  - destruct cp as [obj| |ns]; [| destruct G as [_ G]; congruence |].
    + rewrite CG, CmpNil. apply (Fin ONull); auto; [|exact ngood4_nil].
      unfold cval4 in *. cbn [node_of_con4 aval4 child_at test_leaf] in *. rewrite Ech. reflexivity.
    + destruct CG as [e [H1 H2]]. rewrite H1.
      unfold cval4 in *. cbn [node_of_con4 aval4 child_at test_leaf] in *.
      destruct (idx_existing (d4 g) (Rfc6902.zlen (map aval4 ns)) key); try discriminate.
      exists e, (DAry ns). split; [reflexivity|]. destruct H2 as [-> | ->]; simpl; auto.
Qed.

Lemma step4_test_sim g st op r :
  sgood4 st -> op_kind op = KTest ->
  op_str op (B "path") = Ok (x2f :: r) -> Forall tok_dom4 (map decode_token (split_slash r)) -> val_good4 op ->
  (has_value4 op \/
   forall p, descend (d4 g) (map decode_token (path_parts r)) (sval4 st) = Some p -> child_at (d4 g) p (path_key r) = None) ->
  match at_parent (d4 g) (ptoks r) (sval4 st) (test_leaf (d4 g) (ref_value op)) with
  | ROk j' => exists st', step4 g st op = Ok st' /\ sval4 st' = j' /\ sgood4 st' /\ acc4 st' = acc4 st
  | RFail cz => exists e, step4 g st op = Err e /\ cause_rel cz e
  end.
Proof.
  intros G K Hp D Vg HV. rewrite (step4_test g st op K), Hp. apply lift4_keep.
  apply (find4_at_parent g (r4 st) r (test_fn4 g op) (test_leaf (d4 g) (ref_value op)) (fun _ => True) G D).
  - intros p t Cp. apply (proj1 (proj2 (proj2 (proj2 (leaf_noncontainer (d4 g) p t Cp))))).
  - intros cp Gcp Ed. apply test_leaf4_sim; auto; [apply (proj2 (dom_split4 r D))|].
    destruct HV as [Hv|Ha]; [left; exact Hv | right; apply Ha; exact Ed].
Qed.

(* test on the whole document *)
Lemma step4_test_root_sim g st op :
  sgood4 st -> op_kind op = KTest -> op_str op (B "path") = Ok [] -> val_good4 op ->
  step4 g st op = if jeq (sval4 st) (ref_value op) then Ok st else Err ETestFailed.
Proof.
  intros G K Hp Vg. pose proof (opv4_good op Vg) as Go. rewrite (step4_test g st op K), Hp.
  rewrite (node_equal4_spec _ _ (proj1 G) Go).
  fold (cval4 (r4 st)). fold (sval4 st).
  pose proof (cgood4_container (r4 st) G) as Cc. fold (sval4 st) in Cc.
  pose proof (opv4_aval op) as Ev. rewrite <- Ev.
  destruct (opv4 op) as [|t|ks obj|ns]; cbn [is_null4 negb]; rewrite ?andb_true_r; try reflexivity.
  cbn [aval4]. rewrite andb_false_r, jeq_null_r. destruct (sval4 st); try discriminate; reflexivity.
Qed.

(* ---- the reference with the documented legacy deviations ---- *)
(* The legacy package differs from RFC 6902 where the reference reports an absent object
   member (FMissingMember) for a replace or a copy: a replace of an absent member adds it; a copy
   whose source member is absent copies null (get reads an absent member as nil).  These two are
   built into rfc4_step.  A THIRD deviation is excluded by hypothesis instead (copy_clean4 /
   no_null_copy4 below): a copy of a null that the patch itself wrote is stored as the raw text null,
   and a later path through it is walked like an empty object (ImplV4.raw_null4, V4NullWalk.v). *)
Definition as_add (o : rop) (v : option ojson) : rop := mkRop OpAdd (rpath o) (rfrom o) v.

Definition rfc4_step (d : dialect) (doc : ojson) (o : rop) : Rfc6902.res ojson :=
  match rfc_step d doc o with
  | RFail FMissingMember =>
      match rkind o with
      | OpReplace => rfc_step d doc (as_add o (rvalue o))
      | OpCopy => rfc_step d doc (as_add o (Some ONull))
      | _ => RFail FMissingMember
      end
  | r => r
  end.

Lemma rfc4_step_agree d doc o :
  (rfc_step d doc o = RFail FMissingMember -> rkind o <> OpReplace /\ rkind o <> OpCopy) ->
  rfc4_step d doc o = rfc_step d doc o.
Proof.
  intro H. unfold rfc4_step. destruct (rfc_step d doc o) as [j|cz] eqn:E; auto.
  destruct cz; auto. destruct (H eq_refl) as [H1 H2]. destruct (rkind o); congruence.
Qed.

Lemma rfc4_step_ok d doc o j : rfc_step d doc o = ROk j -> rfc4_step d doc o = ROk j.
Proof. intro H. unfold rfc4_step. rewrite H. reflexivity. Qed.

Lemma at_parent_replace4 d ps t doc v :
  at_parent d (ps ++ [t]) doc (replace_leaf4 d v) =
  match at_parent d (ps ++ [t]) doc (replace_leaf d v) with
  | RFail FMissingMember => at_parent d (ps ++ [t]) doc (add_leaf d v)
  | r => r
  end.
Proof.
  rewrite !at_parent_snoc. destruct (descend d ps doc) as [p|]; [|reflexivity].
  destruct p; try reflexivity.
  - cbn [replace_leaf4 replace_leaf]. destruct (idx_existing d (Rfc6902.zlen l) t); reflexivity.
  - cbn [replace_leaf4 replace_leaf add_leaf]. destruct (amem t ms); reflexivity.
Qed.

(* ---- the domain of the legacy theorems, on a decoded operation ---- *)
Definition ptr_ok4 (p : bytes) : Prop := exists r, p = x2f :: r /\ Forall tok_dom4 (map decode_token (split_slash r)).

Definition op_dom4 (op : operation) : Prop :=
  val_good4 op /\
  exists path, op_str op (B "path") = Ok path /\
    match op_kind op with
    | KAdd | KRemove => ptr_ok4 path
    | KReplace => ptr_ok4 path \/ (path = [] /\ exists t, aget (B "value") op = Some (Some t))
    | KTest => (ptr_ok4 path /\ has_value4 op) \/ path = []   (* RFC 6902: test MUST carry a value; without one the
                                                                 package fails on a member holding the operation value null *)
    | KMove | KCopy => ptr_ok4 path /\ exists from, op_str op (B "from") = Ok from /\ ptr_ok4 from
    | KUnknown => False
    end.

Lemma bind_nonempty {B} (l : list bytes) (a b : B) : l <> [] -> match l with [] => a | _ :: _ => b end = b.
Proof. destruct l; congruence. Qed.

(* every operation but copy: the legacy step computes exactly the deviating reference *)
Theorem step4_sim_nocopy g st op :
  sgood4 st -> op_dom4 op -> op_kind op <> KCopy ->
  match rfc4_step (d4 g) (sval4 st) (den_op op) with
  | ROk j' => exists st', step4 g st op = Ok st' /\ sval4 st' = j' /\ sgood4 st' /\ acc4 st' = acc4 st
  | RFail cz => exists e, step4 g st op = Err e /\ cause_rel cz e
  end.
Proof.
  intros G [Vg [path [Hp K]]] NC.
  assert (RP : rpath (den_op op) = path) by (unfold den_op; simpl; rewrite Hp; reflexivity).
  assert (RK : rkind (den_op op) = ref_kind (op_kind op)) by reflexivity.
  unfold rfc4_step, rfc_step. rewrite ref_value_den_op, RP, RK.
  destruct (op_kind op) eqn:Ek; cbn [ref_kind]; try contradiction; try congruence.
  - (* add *)
    destruct K as [r [-> D]]. rewrite ptr_tokens_slash. fold (ptoks r). unfold rfc_add.
    rewrite (bind_nonempty _ _ _ (ptoks_nonempty r)).
    pose proof (step4_add_sim g st op r G Ek Hp D Vg) as S.
    destruct (at_parent _ _ _ _) as [j'|cz]; [exact S|]. destruct cz; exact S.
  - (* remove *)
    destruct K as [r [-> D]]. rewrite ptr_tokens_slash. fold (ptoks r).
    rewrite (bind_nonempty _ _ _ (ptoks_nonempty r)).
    pose proof (step4_remove_sim g st op r G Ek Hp D) as S.
    destruct (at_parent _ _ _ _) as [j'|cz]; [exact S|]. destruct cz; exact S.
  - (* replace *)
    destruct K as [[r [-> D]]|[-> [t Hv]]].
    + rewrite ptr_tokens_slash. fold (ptoks r). rewrite (bind_nonempty _ _ _ (ptoks_nonempty r)).
      pose proof (step4_replace_sim g st op r G Ek Hp D Vg) as S. unfold ptoks in S at 1. rewrite at_parent_replace4 in S.
      fold (ptoks r) in S.
      destruct (at_parent (d4 g) (ptoks r) (sval4 st) (replace_leaf (d4 g) (ref_value op))) as [j'|cz]; [exact S|].
      destruct cz; try exact S.
      unfold as_add. cbn [rkind rpath rvalue]. rewrite RP, ptr_tokens_slash. fold (ptoks r). unfold rfc_add.
      rewrite (bind_nonempty _ _ _ (ptoks_nonempty r)). rewrite ref_value_den_op. exact S.
    + cbn [ptr_tokens]. unfold ref_value. rewrite Hv.
      unfold val_good4 in Vg. rewrite Hv in Vg.
      pose proof (step4_replace_root_sim g st op t Ek Hp Hv Vg) as S.
      destruct (is_container (den t)); exact S.
  - (* move *)
    destruct K as [[r [-> D]] [from [Hf [rf [-> Df]]]]].
    assert (RF : rfrom (den_op op) = x2f :: rf) by (unfold den_op; simpl; rewrite Hf; reflexivity). rewrite RF.
    rewrite !ptr_tokens_slash. fold (ptoks r) (ptoks rf). rewrite (bind_nonempty _ _ _ (ptoks_nonempty rf)).
    pose proof (step4_move_sim g st op rf r G Ek Hf Df Hp D) as S.
    assert (E : (v <- get_at (d4 g) (ptoks rf) (sval4 st);;
                 doc1 <- at_parent (d4 g) (ptoks rf) (sval4 st) (remove_leaf (d4 g));;
                 match ptoks r with [] => RFail FRoot | _ :: _ => at_parent (d4 g) (ptoks r) doc1 (add_leaf (d4 g) v) end) =
                (v <- get_at (d4 g) (ptoks rf) (sval4 st);;
                 doc1 <- at_parent (d4 g) (ptoks rf) (sval4 st) (remove_leaf (d4 g));;
                 at_parent (d4 g) (ptoks r) doc1 (add_leaf (d4 g) v))).
    { destruct (get_at _ _ _); auto. simpl. destruct (at_parent _ _ _ (remove_leaf _)); auto. simpl.
      apply bind_nonempty. apply ptoks_nonempty. }
    rewrite E. destruct (bind _ _) as [j'|cz]; [exact S|]. destruct cz; exact S.
  - (* test *)
    destruct K as [[[r [-> D]] Hv]| ->].
    + rewrite ptr_tokens_slash. fold (ptoks r). rewrite (bind_nonempty _ _ _ (ptoks_nonempty r)).
      pose proof (step4_test_sim g st op r G Ek Hp D Vg (or_introl Hv)) as S.
      destruct (at_parent _ _ _ _) as [j'|cz]; [exact S|]. destruct cz; exact S.
    + cbn [ptr_tokens]. rewrite (step4_test_root_sim g st op G Ek Hp Vg).
      destruct (jeq (sval4 st) (ref_value op)).
      * exists st. auto.
      * exists ETestFailed. split; reflexivity.
Qed.

(* ---- 5. whole patches ---- *)
Fixpoint rfc4_apply_from (d : dialect) (i : nat) (doc : ojson) (p : list rop) : outcome :=
  match p with
  | [] => Done doc
  | o :: rest =>
      match rfc4_step d doc o with
      | ROk doc' => rfc4_apply_from d (S i) doc' rest
      | RFail c => Failed i c
      end
  end.

(* the patch avoids the deviations: the reference run never reports an absent member for a replace
   or a copy (in particular: every patch the reference evaluates successfully) *)
Definition deviates (k : opkind) : bool := match k with OpReplace | OpCopy => true | _ => false end.

Fixpoint no_deviation (d : dialect) (doc : ojson) (p : list rop) : bool :=
  match p with
  | [] => true
  | o :: rest =>
      match rfc_step d doc o with
      | ROk doc' => no_deviation d doc' rest
      | RFail FMissingMember => negb (deviates (rkind o))
      | RFail _ => true
      end
  end.

Lemma rfc4_apply_agree d p : forall i doc,
  no_deviation d doc p = true -> rfc4_apply_from d i doc p = rfc_apply_from d i doc p.
Proof.
  induction p as [|o p IH]; intros i doc H; [reflexivity|]. cbn [rfc4_apply_from rfc_apply_from no_deviation] in *.
  rewrite rfc4_step_agree.
  - destruct (rfc_step d doc o) as [doc'|cz]; [apply IH; exact H | reflexivity].
  - intro E. rewrite E in H. destruct (rkind o); try discriminate; split; discriminate.
Qed.

Lemma done_no_deviation d p : forall i doc j, rfc_apply_from d i doc p = Done j -> no_deviation d doc p = true.
Proof.
  induction p as [|o p IH]; intros i doc j H; [reflexivity|]. cbn [rfc_apply_from no_deviation] in *.
  destruct (rfc_step d doc o) as [doc'|cz]; [eapply IH; eauto | discriminate].
Qed.

(* a failure that is not the absent member of a replace/copy is no deviation either *)
Lemma failed_no_deviation d p : forall i doc j cz,
  rfc_apply_from d i doc p = Failed j cz -> cz <> FMissingMember -> no_deviation d doc p = true.
Proof.
  induction p as [|o p IH]; intros i doc j cz H NM; [reflexivity|]. cbn [rfc_apply_from no_deviation] in *.
  destruct (rfc_step d doc o) as [doc'|cz']; [eapply IH; eauto|]. inversion H; subst. destruct cz; congruence.
Qed.

Definition no_copy (p : list operation) : Prop := Forall (fun op => op_kind op <> KCopy) p.

Theorem apply4_sim_nocopy g : forall p i st,
  sgood4 st -> Forall op_dom4 p -> no_copy p ->
  match rfc4_apply_from (d4 g) i (sval4 st) (map den_op p) with
  | Done doc => exists st', apply4_from g i st p = (Ok st', (i + length p)%nat) /\ sval4 st' = doc /\ sgood4 st' /\ acc4 st' = acc4 st
  | Failed j cz => exists e, apply4_from g i st p = (Err e, j) /\ cause_rel cz e
  end.
Proof.
  induction p as [|op p IH]; intros i st G D NC; cbn [map rfc4_apply_from apply4_from length].
  - exists st. rewrite Nat.add_0_r. auto.
  - inversion D as [|? ? Dop Dp]; subst. inversion NC as [|? ? Cop Cp]; subst.
    pose proof (step4_sim_nocopy g st op G Dop Cop) as S.
    destruct (rfc4_step (d4 g) (sval4 st) (den_op op)) as [j'|cz].
    + destruct S as [st' [S1 [S2 [S3 S4]]]]. rewrite S1. specialize (IH (S i) st' S3 Dp Cp). rewrite S2 in IH.
      destruct (rfc4_apply_from (d4 g) (S i) j' (map den_op p)) as [doc|j cz].
      * destruct IH as [st2 [I1 [I2 [I3 I4]]]]. exists st2. rewrite I1. replace (S i + length p)%nat with (i + S (length p))%nat by lia.
        split; [reflexivity|]. split; [exact I2|]. split; [exact I3 | congruence].
      * exact IH.
    + destruct S as [e [S1 S2]]. rewrite S1. eauto.
Qed.

(* against RFC 6902 itself, for patches that avoid the deviations *)
Theorem apply4_rfc_nocopy g p i st :
  sgood4 st -> Forall op_dom4 p -> no_copy p -> no_deviation (d4 g) (sval4 st) (map den_op p) = true ->
  match rfc_apply_from (d4 g) i (sval4 st) (map den_op p) with
  | Done doc => exists st', apply4_from g i st p = (Ok st', (i + length p)%nat) /\ sval4 st' = doc /\ sgood4 st' /\ acc4 st' = acc4 st
  | Failed j cz => exists e, apply4_from g i st p = (Err e, j) /\ cause_rel cz e
  end.
Proof.
  intros G D NC ND. rewrite <- (rfc4_apply_agree (d4 g) (map den_op p) i (sval4 st) ND).
  apply apply4_sim_nocopy; auto.
Qed.

(* ---- Apply on bytes ---- *)
From JP Require Import ParseFacts.

Definition output4 (indent : bytes) (t : tjson) : bytes :=
  match indent with [] => print true t | _ => pp true indent 0 t end.

(* the container Apply decodes the document into *)
Definition api_start4 (t : tjson) : option con4 :=
  match t with
  | TObj ms => Some (DDoc (obj_of ms))
  | TArr l => Some (DAry (map child l))
  | TNull => Some DDocNil
  | _ => None
  end.

Lemma start4_good t :
  root_container t = true -> raw4 t ->
  exists c, match t with
            | TObj ms => Some (DDoc (obj_of ms))
            | TArr l => Some (DAry (map child l))
            | TNull => Some DDocNil
            | _ => None
            end = Some c /\ cgood4 c /\ cval4 c = den t.
Proof.
  intros RC R. destruct t; try discriminate.
  - destruct (parsed4_arr l R) as [P1 P2]. eauto.
  - destruct (parsed4_obj ms R) as [P1 P2]. eauto.
Qed.

Theorem api_apply4_sim_nocopy g indent p doc t :
  parse doc = Some t -> root_container t = true -> tnodup t = true -> tplain t -> tkeys t ->
  Forall op_dom4 p -> no_copy p -> no_deviation (d4 g) (den t) (map den_op p) = true ->
  match rfc_apply (d4 g) (den t) (map den_op p) with
  | Done j => exists n, api_apply4 g indent p doc = Out4 (output4 indent (render4 n)) /\ aval4 n = j /\ ngood4 n
  | Failed i cz => exists e, api_apply4 g indent p doc = Err4 (Some i) e /\ cause_rel cz e
  end.
Proof.
  intros P RC T Pl Ks D NC ND. unfold api_apply4. destruct doc as [|b doc]; [rewrite parse_nil in P; discriminate|].
  rewrite P. pose proof (parse_tlit _ _ P) as L.
  assert (R : raw4 t) by (split; [destruct t; discriminate | repeat split; auto]).
  destruct (start4_good t RC R) as [c [S1 [S2 S3]]]. rewrite S1.
  pose proof (apply4_rfc_nocopy g p 0%nat (mkState4 c 0) S2 D NC) as AS.
  unfold sval4 in AS at 1 2. cbn [r4] in AS. rewrite S3 in AS. specialize (AS ND). unfold rfc_apply.
  destruct (rfc_apply_from (d4 g) 0 (den t) (map den_op p)) as [j|i cz].
  - destruct AS as [st' [A1 [A2 [A3 _]]]]. rewrite A1. exists (node_of_con4 (r4 st')).
    destruct (r4 st') eqn:Er; [| destruct A3 as [_ A3]; unfold sgood4 in *; congruence |];
      (split; [reflexivity|]; split; [unfold sval4, cval4 in A2; rewrite Er in A2; exact A2 | unfold sgood4 in A3; rewrite Er in A3; exact (proj1 A3)]).
  - destruct AS as [e [A1 A2]]. rewrite A1. eauto.
Qed.

(* values up to member order: structural equality of values without duplicate names *)
Definition veq (a b : ojson) : Prop := jeq a b = true /\ onodup a = true /\ onodup b = true.

Lemma veq_refl a : onodup a = true -> veq a a.
Proof. intro N. split; [apply jeq_refl; exact N | auto]. Qed.

Lemma veq_sym a b : veq a b -> veq b a.
Proof. intros [J [Na Nb]]. split; [apply jeq_sym; auto | auto]. Qed.

Lemma veq_trans a b c : veq a b -> veq b c -> veq a c.
Proof. intros [J1 [Na Nb]] [J2 [_ Nc]]. split; [exact (jeq_trans a b c Na Nb Nc J1 J2) | auto]. Qed.

Lemma veq_eq a b : a = b -> onodup a = true -> veq a b.
Proof. intros <- N. apply veq_refl. exact N. Qed.

(* ================= copy ================= *)
(* deepCopy marshals the node (members of a parsed object sorted by name, names and strings
   HTML-escaped) and stores the bytes as a fresh raw message.  The value is the same up to member
   order (jeq), and the new raw message satisfies the invariant. *)

(* ---- HTML escaping what is already escaped ---- *)
Lemma ls_head_is_ls s : ls_head s = false -> is_ls s = None.
Proof.
  destruct s as [|c s]; [reflexivity|]. destruct c; try reflexivity.
  destruct s as [|c1 s]; [reflexivity|]. destruct c1; try reflexivity.
  destruct s as [|c2 s]; [reflexivity|]. destruct c2; try reflexivity; discriminate.
Qed.

Lemma no_raw_he_id : forall b, has_raw b = false -> html_escape b = b.
Proof.
  induction b as [|c r IH]; [reflexivity|]. cbn [has_raw]. intro H.
  apply orb_false_iff in H as [H H3]. apply orb_false_iff in H as [H1 H2].
  destruct (he_special c) eqn:Sp.
  - destruct (bn c <? 128) eqn:A.
    + destruct c; try discriminate.
    + rewrite (he_lead c r A (ls_head_is_ls _ H2)), (IH H3). reflexivity.
  - rewrite (he_plain c r Sp), (IH H3). reflexivity.
Qed.

Lemma he_idem b : html_escape (html_escape b) = html_escape b.
Proof. apply no_raw_he_id. apply (html_escape_no_raw (length b)). apply le_n. Qed.

(* ---- the encoder's spelling of a name is not changed by HTML escaping ---- *)
Lemma he_qchar c X : (bn c <? 128) = true -> html_escape (qchar true c ++ X) = qchar true c ++ html_escape X.
Proof. intro H. destruct c; try discriminate; reflexivity. Qed.

Lemma is_ls_prefix c r n Q :
  (bn c <? 128) = false -> utf8_len (c :: r) = S n -> is_ls (c :: r) = None ->
  is_ls (firstn (S n) (c :: r) ++ Q) = None.
Proof.
  intros H E L. cbn [firstn app]. destruct c; try reflexivity.
  destruct r as [|c1 r]; [discriminate|]. destruct r as [|c2 r]; [vm_compute in E; destruct c1; discriminate|].
  assert (N2 : n = 2%nat).
  { unfold utf8_len in E. cbn in E. destruct (in_range _ _ c1 && cont c2); [congruence | discriminate]. }
  subst n. cbn [firstn app]. destruct c1; try reflexivity. destruct c2; try reflexivity; discriminate.
Qed.

Lemma he_quote k : utf8 k -> html_escape (quote true k) = quote true k.
Proof.
  induction 1 as [|c r H U IH|c r n H E U IH].
  - reflexivity.
  - rewrite quote_ascii by exact H. rewrite he_qchar by exact H. now rewrite IH.
  - rewrite (quote_multi true c r n H E).
    destruct (is_ls (c :: r)) as [[d r']|] eqn:L.
    + unfold is_ls in L. destruct c; try discriminate. destruct r as [|c1 r1]; try discriminate.
      destruct c1; try discriminate. destruct r1 as [|c2 r2]; try discriminate.
      destruct c2; try discriminate; inversion L; subst d r';
        (assert (n = 2%nat) by (vm_compute in E; congruence); subst n; cbn [skipn] in IH;
         cbn [app]; rewrite he_u4 by reflexivity; rewrite IH; reflexivity).
    + pose proof (utf8_len_firstn_length c r n E) as FL.
      set (Q := quote true (skipn (S n) (c :: r))) in *.
      assert (Hd : exists t, firstn (S n) (c :: r) = c :: t) by (cbn [firstn]; eauto).
      destruct Hd as [t Ht].
      pose proof (is_ls_prefix c r n Q H E L) as L'. pose proof (utf8_len_prefix c r n Q H E) as E'.
      rewrite Ht in L', E' |- *. cbn [app] in *.
      rewrite (he_chunk c (t ++ Q) n H E' L').
      change (c :: t ++ Q) with ((c :: t) ++ Q). rewrite <- Ht.
      destruct (firstn_app_exact (S n) (firstn (S n) (c :: r)) Q FL) as [F1 F2].
      rewrite F1, F2, IH. reflexivity.
Qed.

(* ---- sorting the members by name: a permutation (the names are distinct) ---- *)
Definition sort4 {A} (l : list (bytes * A)) : list (bytes * A) :=
  fold_left (fun acc kv => insert_sorted kv acc) l [].

Lemma insert_sorted_perm {A} (kv : bytes * A) l :
  ~ In (fst kv) (map fst l) -> Permutation (insert_sorted kv l) (kv :: l).
Proof.
  induction l as [|kv' r IH]; intro N; cbn [insert_sorted]; [apply Permutation_refl|].
  destruct (bytes_ltb (fst kv) (fst kv')); [apply Permutation_refl|].
  destruct (bseq (fst kv) (fst kv')) eqn:E.
  - apply bseq_eq in E. exfalso. apply N. left. symmetry. exact E.
  - eapply Permutation_trans; [apply perm_skip; apply IH; intro Hin; apply N; right; exact Hin | apply perm_swap].
Qed.

Lemma fold_insert_perm {A} (l : list (bytes * A)) : forall acc,
  NoDup (map fst (acc ++ l)) ->
  Permutation (fold_left (fun acc kv => insert_sorted kv acc) l acc) (l ++ acc).
Proof.
  induction l as [|kv l IH]; intros acc N; cbn [fold_left app]; [apply Permutation_refl|].
  assert (Nk : ~ In (fst kv) (map fst acc)).
  { rewrite map_app in N. cbn [map] in N. apply NoDup_remove_2 in N. intro Hin. apply N. apply in_or_app. now left. }
  pose proof (insert_sorted_perm kv acc Nk) as P1.
  eapply Permutation_trans.
  - apply IH. apply (Permutation_NoDup (l := map fst (acc ++ kv :: l))); [|exact N].
    apply Permutation_map. eapply Permutation_trans; [apply Permutation_sym; apply Permutation_middle|].
    change (kv :: acc ++ l) with ((kv :: acc) ++ l). apply Permutation_app_tail. apply Permutation_sym. exact P1.
  - eapply Permutation_trans; [apply Permutation_app_head; exact P1|]. apply Permutation_sym. apply Permutation_middle.
Qed.

Lemma sort4_perm {A} (l : list (bytes * A)) : NoDup (map fst l) -> Permutation (sort4 l) l.
Proof.
  intro N. unfold sort4. pose proof (fold_insert_perm l [] N) as P. rewrite app_nil_r in P. exact P.
Qed.

Lemma insert_sorted_msnd {A B} (f : A -> B) kv l :
  msnd f (insert_sorted kv l) = insert_sorted (fst kv, f (snd kv)) (msnd f l).
Proof.
  induction l as [|kv' r IH]; cbn [insert_sorted msnd map fst snd]; [reflexivity|].
  destruct (bytes_ltb (fst kv) (fst kv')); [reflexivity|].
  destruct (bseq (fst kv) (fst kv')); [reflexivity|]. cbn [map]. f_equal. exact IH.
Qed.

Lemma fold_insert_msnd {A B} (f : A -> B) l : forall acc,
  msnd f (fold_left (fun acc kv => insert_sorted kv acc) l acc) =
  fold_left (fun acc kv => insert_sorted kv acc) (msnd f l) (msnd f acc).
Proof.
  induction l as [|kv l IH]; intro acc; [reflexivity|].
  change (msnd f (kv :: l)) with ((fst kv, f (snd kv)) :: msnd f l). cbn [fold_left].
  rewrite IH, insert_sorted_msnd. reflexivity.
Qed.

Lemma sort4_msnd {A B} (f : A -> B) l : msnd f (sort4 l) = sort4 (msnd f l).
Proof. unfold sort4. exact (fold_insert_msnd f l []). Qed.

Lemma msnd_msnd {A B C} (f : A -> B) (h : B -> C) l : msnd h (msnd f l) = msnd (fun x => h (f x)) l.
Proof. unfold msnd. rewrite map_map. reflexivity. Qed.

Lemma aget_perm {A} k (l l' : list (bytes * A)) : NoDup (map fst l) -> Permutation l l' -> aget k l = aget k l'.
Proof.
  intros N P. assert (N' : NoDup (map fst l')) by (eapply Permutation_NoDup; [apply Permutation_map; exact P | exact N]).
  destruct (aget k l) as [v|] eqn:E.
  - apply aget_In in E. symmetry. apply In_aget_nodup; auto. eapply Permutation_in; eauto.
  - destruct (aget k l') as [v'|] eqn:E'; [|reflexivity].
    apply aget_In in E'. apply Permutation_sym in P. pose proof (Permutation_in _ P E') as Hin.
    rewrite (In_aget_nodup k v' l N Hin) in E. discriminate.
Qed.

(* ---- HTML escaping of a good raw message ---- *)
Lemma escape_den4 t : tplain t -> tkeys t -> den (escape_tree true t) = den t.
Proof.
  induction t using tjson_rect'; intros P K; try reflexivity.
  - rewrite escape_tree_true. destruct P as [_ P]. now rewrite P.
  - rewrite escape_tree_true. cbn [den]. f_equal. rewrite map_map. apply map_ext_in. intros x Hx.
    apply tplain_arr in P. apply tkeys_arr in K. rewrite Forall_forall in H, P, K. apply (H x Hx); auto.
  - rewrite escape_tree_true. cbn [den]. f_equal. f_equal. rewrite map_map. apply map_ext_in. intros kv Hk.
    apply tplain_obj in P. apply tkeys_obj in K. rewrite Forall_forall in H, P, K. destruct (K kv Hk) as [[K1 _] K2].
    cbn [fst snd]. f_equal; [exact K1 | apply (H kv Hk); auto].
Qed.

Lemma forallb_map_in {A B} (f : B -> bool) (h : A -> B) (f' : A -> bool) l :
  (forall x, In x l -> f (h x) = f' x) -> forallb f (map h l) = forallb f' l.
Proof.
  induction l as [|x l IH]; intro H; [reflexivity|]. cbn [map forallb].
  rewrite (H x (or_introl eq_refl)), IH; [reflexivity|]. intros y Hy. apply H. now right.
Qed.

Lemma escape_tlit t : tlit (escape_tree true t) = tlit t.
Proof.
  induction t using tjson_rect'; try reflexivity.
  - rewrite escape_tree_true. cbn [tlit]. apply forallb_map_in. rewrite Forall_forall in H. exact H.
  - rewrite escape_tree_true. cbn [tlit]. apply forallb_map_in. rewrite Forall_forall in H.
    intros kv Hk. cbn [snd]. apply (H kv Hk).
Qed.

Lemma escape_tplain t : tplain t -> tplain (escape_tree true t).
Proof.
  induction t using tjson_rect'; intro P; try exact P.
  - rewrite escape_tree_true. pose proof P as [_ P2]. unfold tplain, splain in *. rewrite P2. exact P.
  - rewrite escape_tree_true. apply tplain_arr. apply tplain_arr in P. rewrite Forall_map.
    rewrite Forall_forall in *. intros x Hx. apply (H x Hx). apply (P x Hx).
  - rewrite escape_tree_true. apply tplain_obj. apply tplain_obj in P. rewrite Forall_map.
    rewrite Forall_forall in *. intros kv Hk. cbn [snd]. apply (H kv Hk). apply (P kv Hk).
Qed.

Lemma escape_tkeys t : tkeys t -> tkeys (escape_tree true t).
Proof.
  induction t using tjson_rect'; intro K; try exact K.
  - rewrite escape_tree_true. apply tkeys_arr. apply tkeys_arr in K. rewrite Forall_map.
    rewrite Forall_forall in *. intros x Hx. apply (H x Hx). apply (K x Hx).
  - rewrite escape_tree_true. apply tkeys_obj. apply tkeys_obj in K. rewrite Forall_map.
    rewrite Forall_forall in *. intros kv Hk. cbn [fst snd]. destruct (K kv Hk) as [[K1 K2] K3]. split.
    + split; [rewrite he_idem; reflexivity | rewrite K1; exact K2].
    + apply (H kv Hk). exact K3.
Qed.

Lemma escape_rawok t : rawok t -> rawok (escape_tree true t) /\ den (escape_tree true t) = den t.
Proof.
  intros [T [L [P K]]]. pose proof (escape_den4 t P K) as D. split; [|exact D].
  split; [unfold tnodup in *; rewrite D; exact T|]. split; [rewrite escape_tlit; exact L|].
  split; [apply escape_tplain; exact P | apply escape_tkeys; exact K].
Qed.

Lemma escape_nonnull t : t <> TNull -> escape_tree true t <> TNull.
Proof. intro N. rewrite escape_tree_true. destruct t; congruence. Qed.

(* ---- values have no duplicate names ---- *)
Lemma ngood4_onodup n : ngood4 n -> onodup (aval4 n) = true.
Proof.
  induction n using node_rect'; intro G.
  - reflexivity.
  - apply ngood4_raw in G. exact (proj1 G).
  - apply ngood4_doc in G as [_ [N [_ Gs]]]. cbn [aval4]. apply onodup_obj. split.
    + fold (msnd aval4 obj). rewrite msnd_keys. exact N.
    + rewrite Forall_map. rewrite Forall_forall in *. intros kv Hk. cbn [snd]. apply (H kv Hk). apply (Gs kv Hk).
  - apply ngood4_ary in G. cbn [aval4]. apply onodup_arr. rewrite Forall_map. rewrite Forall_forall in *.
    intros x Hx. apply (H x Hx). apply (G x Hx).
Qed.

(* ---- marshalling a node ---- *)
Definition enc4 (v : node) : tjson := escape_tree true (render4 v).

Lemma render4_doc obj :
  render4 (NDoc [] obj) =
  TObj (map (fun kv => (quote true (fst kv), snd kv)) (sort4 (msnd render4 obj))).
Proof. reflexivity. Qed.

Lemma enc4_doc obj :
  Forall utf8 (map fst obj) -> NoDup (map fst obj) ->
  enc4 (NDoc [] obj) = TObj (map (fun kv => (quote true (fst kv), snd kv)) (sort4 (msnd enc4 obj))).
Proof.
  intros U N. unfold enc4 at 1. rewrite render4_doc, escape_tree_true, map_map. cbn [fst snd].
  assert (E : msnd enc4 obj = msnd (escape_tree true) (msnd render4 obj)) by (rewrite msnd_msnd; reflexivity).
  rewrite E, <- (sort4_msnd (escape_tree true) (msnd render4 obj)).
  change (msnd (escape_tree true) (sort4 (msnd render4 obj)))
    with (map (fun kv : bytes * tjson => (fst kv, escape_tree true (snd kv))) (sort4 (msnd render4 obj))).
  rewrite map_map. cbn [fst snd].
  f_equal. apply map_ext_in. intros kv Hk. f_equal. apply he_quote.
  assert (P : Permutation (sort4 (msnd render4 obj)) (msnd render4 obj)) by (apply sort4_perm; rewrite msnd_keys; exact N).
  pose proof (Permutation_in _ P Hk) as Hin. rewrite Forall_forall in U. apply U. rewrite <- (msnd_keys render4 obj).
  apply in_map. exact Hin.
Qed.

Theorem enc4_codec v : ngood4 v ->
  rawok (enc4 v) /\ jeq (den (enc4 v)) (aval4 v) = true /\ (null4 v = false -> enc4 v <> TNull).
Proof.
  induction v using node_rect'; intro G.
  - (* nil *) split; [repeat split; reflexivity|]. split; [reflexivity | discriminate].
  - (* raw *) apply ngood4_raw in G. pose proof G as R. destruct (escape_rawok t R) as [R' D]. unfold enc4. cbn [render4 aval4].
    split; [exact R'|]. split; [rewrite D; apply jeq_refl; exact (proj1 R) | intros N0; apply escape_nonnull; intro E; subst t; discriminate].
  - (* parsed object *)
    apply ngood4_doc in G as [-> [N [U Gs]]]. rewrite (enc4_doc obj U N).
    set (S1 := sort4 (msnd enc4 obj)).
    assert (P1 : Permutation S1 (msnd enc4 obj)) by (apply sort4_perm; rewrite msnd_keys; exact N).
    assert (K1 : Permutation (map fst S1) (map fst obj)).
    { rewrite <- (msnd_keys enc4 obj). apply Permutation_map. exact P1. }
    assert (N1 : NoDup (map fst S1)) by (eapply Permutation_NoDup; [apply Permutation_sym; exact K1 | exact N]).
    assert (U1 : forall kv, In kv S1 -> utf8 (fst kv)).
    { intros kv Hk. rewrite Forall_forall in U. apply U. eapply Permutation_in; [exact K1|]. apply in_map. exact Hk. }
    assert (V1 : forall kv, In kv S1 -> exists v, In (fst kv, v) obj /\ snd kv = enc4 v).
    { intros kv Hk. pose proof (Permutation_in _ P1 Hk) as Hin. apply in_map_iff in Hin as [[k0 v0] [E Hin]].
      subst kv. exists v0. split; [exact Hin | reflexivity]. }
    rewrite Forall_forall in H, Gs.
    assert (IHv : forall k v, In (k, v) obj -> rawok (enc4 v) /\ jeq (den (enc4 v)) (aval4 v) = true).
    { intros k v Hin. destruct (H (k, v) Hin (Gs (k, v) Hin)) as [A [B _]]. auto. }
    (* the value of the text written *)
    assert (D : den (TObj (map (fun kv => (quote true (fst kv), snd kv)) S1)) = OObj (msnd den S1)).
    { cbn [den]. f_equal. rewrite map_map. cbn [fst snd].
      assert (E : map (fun x : bytes * tjson => (unquote (quote true (fst x)), den (snd x))) S1 = msnd den S1).
      { apply map_ext_in. intros kv Hk. f_equal. apply unquote_quote. apply (U1 kv Hk). }
      rewrite E. apply resolve_dups_nodup. rewrite msnd_keys. exact N1. }
    split; [|split; [|intros _; discriminate]].
    + split; [|split; [|split]].
      * unfold tnodup. rewrite D. apply onodup_obj. split; [rewrite msnd_keys; exact N1|].
        unfold msnd. rewrite Forall_map. apply Forall_forall. intros kv Hk. cbn [snd].
        destruct (V1 kv Hk) as [v [Hin ->]]. exact (proj1 (proj1 (IHv _ _ Hin))).
      * cbn [tlit]. apply forallb_forall. intros kv Hk. apply in_map_iff in Hk as [kv0 [<- Hk]]. cbn [snd].
        destruct (V1 kv0 Hk) as [v [Hin ->]]. exact (proj1 (proj2 (proj1 (IHv _ _ Hin)))).
      * apply tplain_obj. rewrite Forall_map. apply Forall_forall. intros kv Hk. cbn [snd].
        destruct (V1 kv Hk) as [v [Hin ->]]. exact (proj1 (proj2 (proj2 (proj1 (IHv _ _ Hin))))).
      * apply tkeys_obj. rewrite Forall_map. apply Forall_forall. intros kv Hk. cbn [fst snd].
        destruct (V1 kv Hk) as [v [Hin Ev]]. split.
        -- split; [rewrite (he_quote _ (U1 kv Hk)); reflexivity | rewrite (unquote_quote true _ (U1 kv Hk)); exact (U1 kv Hk)].
        -- rewrite Ev. exact (proj2 (proj2 (proj2 (proj1 (IHv _ _ Hin))))).
    + rewrite D. cbn [aval4]. fold (msnd aval4 obj).
      apply jeq_obj_char; [rewrite msnd_keys; exact N1 | rewrite msnd_keys; exact N |].
      intro k. rewrite !aget_msnd. rewrite (aget_perm k S1 (msnd enc4 obj) N1 P1), aget_msnd.
      destruct (aget k obj) as [v|] eqn:E; cbn [option_map lookup_rel]; [|exact I].
      apply aget_In in E. exact (proj2 (IHv _ _ E)).
  - (* parsed array *)
    apply ngood4_ary in G. rewrite Forall_forall in H, G.
    assert (E : enc4 (NAry ns) = TArr (map enc4 ns)).
    { unfold enc4 at 1. cbn [render4]. rewrite escape_tree_true, map_map. reflexivity. }
    rewrite E. split; [|split; [|intros _; discriminate]].
    + split; [|split; [|split]].
      * apply tnodup_arr. rewrite Forall_map. apply Forall_forall. intros x Hx. exact (proj1 (proj1 (H x Hx (G x Hx)))).
      * cbn [tlit]. apply forallb_forall. intros t Ht. apply in_map_iff in Ht as [x [<- Hx]].
        exact (proj1 (proj2 (proj1 (H x Hx (G x Hx))))).
      * apply tplain_arr. rewrite Forall_map. apply Forall_forall. intros x Hx. exact (proj1 (proj2 (proj2 (proj1 (H x Hx (G x Hx)))))).
      * apply tkeys_arr. rewrite Forall_map. apply Forall_forall. intros x Hx. exact (proj2 (proj2 (proj2 (proj1 (H x Hx (G x Hx)))))).
    + cbn [den aval4]. rewrite jeq_arr. apply jeq_list_spec. rewrite map_map.
      clear E. induction ns as [|x ns IHn]; [constructor|]. cbn [map]. constructor.
      * exact (proj1 (proj2 (H x (or_introl eq_refl) (G x (or_introl eq_refl))))).
      * apply IHn; intros y Hy; [apply H | apply G]; now right.
Qed.

(* deepCopy keeps the invariant and the value -- unless it is handed the operation value null
   (raw_nil4 = NRaw TNull): that node is copied as the raw TEXT null (raw_null4), which findObject
   enters like an empty object where the reference sees null; it is outside the invariant *)
Lemma deep_copy4_raw_nil g : fst (deep_copy4 g raw_nil4) = raw_null4 /\ ~ ngood4 raw_null4.
Proof. split; [reflexivity|]. intro G. apply ngood4_doc in G as [E _]. discriminate. Qed.

Lemma deep_copy4_sim g v : ngood4 v -> v <> raw_nil4 ->
  ngood4 (fst (deep_copy4 g v)) /\ jeq (aval4 (fst (deep_copy4 g v))) (aval4 v) = true.
Proof.
  intros G NR. destruct (enc4_codec v G) as [R [J NN]].
  destruct v as [|t|ks obj|ns]; [split; [exact I | reflexivity]| | |].
  - assert (Nt : t <> TNull) by (intro E; subst t; apply NR; reflexivity).
    assert (E : fst (deep_copy4 g (NRaw t)) = NRaw (enc4 (NRaw t))) by (destruct t; try reflexivity; congruence).
    rewrite E. split; [apply ngood4_raw; exact R | exact J].
  - pose proof (proj1 (proj1 (ngood4_doc ks obj) G)) as Ek. subst ks.
    split; [apply ngood4_raw; exact R | exact J].
  - split; [apply ngood4_raw; exact R | exact J].
Qed.

(* what deepCopy returns, for every node *)
Lemma deep_copy4_cases g v :
  fst (deep_copy4 g v) = NNil \/ fst (deep_copy4 g v) = raw_null4 \/
  fst (deep_copy4 g v) = NRaw (escape_tree true (render4 v)).
Proof.
  destruct v as [|t|ks obj|ns]; [left; reflexivity| | |]; unfold deep_copy4; cbn [fst];
    destruct (render4 _); auto.
Qed.

(* ---- the walks of copy ---- *)
Lemma find4_get_sim g c r :
  cgood4 c -> Forall tok_dom4 (map decode_token (split_slash r)) ->
  match get_at (d4 g) (ptoks r) (cval4 c) with
  | ROk j => exists v c2, find4 g c (x2f :: r) (get_fn4 g) = (Some (Ok v), c2) /\
                          aval4 v = j /\ ngood4 v /\ cval4 c2 = cval4 c /\ cgood4 c2
  | RFail FMissingMember =>
      exists c2, find4 g c (x2f :: r) (get_fn4 g) = (Some (Ok NNil), c2) /\ cval4 c2 = cval4 c /\ cgood4 c2
  | RFail cz => exists e c2, (find4 g c (x2f :: r) (get_fn4 g) = (Some (Err e), c2) \/
                              (find4 g c (x2f :: r) (get_fn4 g) = (None, c2) /\ e = EMissing)) /\ cause_rel cz e
  end.
Proof.
  intros G D. unfold ptoks. rewrite get_at_snoc.
  pose proof (find4_spec g c r (get_fn4 g) G D) as FS. pose proof (proj2 (dom_split4 r D)) as Dk.
  destruct (descend (d4 g) (map decode_token (path_parts r)) (cval4 c)) as [p|] eqn:Ed.
  2: { destruct FS as [c' [F1 _]]. exists EMissing, c'. split; [right; auto | reflexivity]. }
  destruct (is_container p) eqn:Cp.
  2: { destruct FS as [c' [F1 _]]. rewrite (proj2 (proj2 (proj2 (proj2 (leaf_noncontainer (d4 g) p (path_key r) Cp))))).
       exists EMissing, c'. split; [right; auto | reflexivity]. }
  destruct FS as [cp [back [E1 [E2 [E3 E4]]]]]. unfold get_fn4 in E3 at 2 3. cbn [fst snd] in E3.
  destruct (E4 cp E2) as [F1 F2]. rewrite E1, (rebuild_same _ _ _ _ Ed) in F1.
  pose proof (con4_get_sim g cp (path_key r) E2 Dk) as CG. rewrite E1 in CG.
  destruct p; try discriminate; cbn [get_leaf child_at] in *.
  - destruct (idx_existing (d4 g) (Rfc6902.zlen l) (path_key r)) as [i|].
    + destruct CG as [v [H1 [H2 H3]]]. rewrite H1 in E3. exists v, (back cp). auto.
    + destruct cp as [obj| |ns]; [discriminate | discriminate |].
      destruct CG as [e [H1 H2]]. rewrite H1 in E3. exists e, (back (DAry ns)). split; [left; exact E3|].
      destruct H2 as [-> | ->]; simpl; auto.
  - destruct (aget (path_key r) ms) as [x|].
    + destruct CG as [v [H1 [H2 H3]]]. rewrite H1 in E3. exists v, (back cp). auto.
    + destruct cp as [obj| |ns]; [| destruct E2 as [_ E2]; congruence | discriminate].
      rewrite CG in E3. exists (back (DDoc obj)). auto.
Qed.

Lemma find4_unit_sim g c r :
  cgood4 c -> Forall tok_dom4 (map decode_token (split_slash r)) ->
  match descend (d4 g) (map decode_token (path_parts r)) (cval4 c) with
  | Some p => if is_container p
              then exists c2, find4 g c (x2f :: r) unit_fn4 = (Some tt, c2) /\ cval4 c2 = cval4 c /\ cgood4 c2
              else exists c2, find4 g c (x2f :: r) unit_fn4 = (None, c2)
  | None => exists c2, find4 g c (x2f :: r) unit_fn4 = (None, c2)
  end.
Proof.
  intros G D. pose proof (find4_spec g c r unit_fn4 G D) as FS.
  destruct (descend (d4 g) (map decode_token (path_parts r)) (cval4 c)) as [p|] eqn:Ed.
  - destruct (is_container p).
    + destruct FS as [cp [back [E1 [E2 [E3 E4]]]]]. cbn [unit_fn4 fst snd] in E3.
      destruct (E4 cp E2) as [F1 F2]. exists (back cp). split; auto. split; auto.
      rewrite F1, E1. apply rebuild_same. exact Ed.
    + destruct FS as [c' [F1 _]]. eauto.
  - destruct FS as [c' [F1 _]]. eauto.
Qed.

(* the value the legacy copy reads at from: an absent member reads as null *)
Definition src4 (r : Rfc6902.res ojson) : Rfc6902.res ojson :=
  match r with RFail FMissingMember => ROk ONull | x => x end.

(* the node a copy hands to deepCopy (the source, read again after the walk to the destination) is
   ImplV4.copy_arg4, here with the named leaf functions *)
Lemma copy_arg4_unfold g st op :
  copy_arg4 g st op =
  match op_str op (B "from"), op_str op (B "path") with
  | Ok from, Ok path =>
      match find4 g (r4 st) from (get_fn4 g) with
      | (Some (Ok _), c1) =>
          match find4 g c1 path unit_fn4 with
          | (Some _, c2) =>
              match find4 g c2 from (get_fn4 g) with
              | (Some (Ok v), _) => Some v
              | _ => None
              end
          | (None, _) => None
          end
      | _ => None
      end
  | _, _ => None
  end.
Proof. reflexivity. Qed.

(* THE THIRD DEVIATION, excluded by hypothesis: a copy whose source is a null that an earlier add /
   replace of this patch wrote (the operation value null, raw_nil4).  deepCopy stores the raw text
   null; a later path through that member is walked like an empty object (V4NullWalk.v) where RFC
   6902 says the path does not exist.  A null of the document, a null inside a composite value and
   an absent member are nil nodes: copying them is covered. *)
Definition copy_clean4 (g : opts4) (st : state4) (op : operation) : Prop :=
  copy_arg4 g st op <> Some raw_nil4.

(* a copy whose source member is absent reads the nil node (twice): it is clean *)
Lemma copy_clean4_absent g st op rf r :
  sgood4 st ->
  op_str op (B "from") = Ok (x2f :: rf) -> Forall tok_dom4 (map decode_token (split_slash rf)) ->
  op_str op (B "path") = Ok (x2f :: r) -> Forall tok_dom4 (map decode_token (split_slash r)) ->
  get_at (d4 g) (ptoks rf) (sval4 st) = RFail FMissingMember -> copy_clean4 g st op.
Proof.
  intros G Hf Df Hp Dp GA. unfold copy_clean4. rewrite copy_arg4_unfold, Hf, Hp.
  pose proof (find4_get_sim g (r4 st) rf G Df) as F. unfold sval4 in GA. rewrite GA in F.
  destruct F as [c1 [F1 [F2 F3]]]. rewrite F1.
  pose proof (find4_unit_sim g c1 r F3 Dp) as FU.
  destruct (descend (d4 g) (map decode_token (path_parts r)) (cval4 c1)) as [p|].
  - destruct (is_container p).
    + destruct FU as [c2 [U1 [U2 U3]]]. rewrite U1.
      pose proof (find4_get_sim g c2 rf U3 Df) as F'. rewrite U2, F2, GA in F'.
      destruct F' as [c3 [F1' _]]. rewrite F1'. discriminate.
    + destruct FU as [c2 U1]. rewrite U1. discriminate.
  - destruct FU as [c2 U1]. rewrite U1. discriminate.
Qed.

Lemma step4_copy_sim g st op rf r :
  sgood4 st -> op_kind op = KCopy -> g_limit g = 0%Z ->
  op_str op (B "from") = Ok (x2f :: rf) -> Forall tok_dom4 (map decode_token (split_slash rf)) ->
  op_str op (B "path") = Ok (x2f :: r) -> Forall tok_dom4 (map decode_token (split_slash r)) ->
  copy_clean4 g st op ->
  match src4 (get_at (d4 g) (ptoks rf) (sval4 st)) with
  | ROk j =>
      exists jc, veq jc j /\
        match at_parent (d4 g) (ptoks r) (sval4 st) (add_leaf (d4 g) jc) with
        | ROk j' => exists st', step4 g st op = Ok st' /\ sval4 st' = j' /\ sgood4 st'
        | RFail cz => exists e, step4 g st op = Err e /\ cause_rel cz e
        end
  | RFail cz => exists e, step4 g st op = Err e /\ cause_rel cz e
  end.
Proof.
  intros G K Lim Hf Df Hp Dp NRN. set (c := r4 st) in *. unfold sval4. fold c.
  rewrite (step4_copy g st op K), Hf. fold c.
  (* the source, read twice with the same result *)
  assert (Src : forall c0, cgood4 c0 -> cval4 c0 = cval4 c ->
            match src4 (get_at (d4 g) (ptoks rf) (cval4 c)) with
            | ROk j => exists v c2, find4 g c0 (x2f :: rf) (get_fn4 g) = (Some (Ok v), c2) /\
                                    aval4 v = j /\ ngood4 v /\ cval4 c2 = cval4 c /\ cgood4 c2
            | RFail cz => exists e c2, (find4 g c0 (x2f :: rf) (get_fn4 g) = (Some (Err e), c2) \/
                                        (find4 g c0 (x2f :: rf) (get_fn4 g) = (None, c2) /\ e = EMissing)) /\ cause_rel cz e
            end).
  { intros c0 G0 E0. pose proof (find4_get_sim g c0 rf G0 Df) as FG. rewrite E0 in FG.
    destruct (get_at (d4 g) (ptoks rf) (cval4 c)) as [j|cz]; cbn [src4].
    - destruct FG as [v [c2 [F1 [F2 [F3 [F4 F5]]]]]]. exists v, c2. rewrite F4. auto.
    - destruct cz; try exact FG. destruct FG as [c2 [F1 [F2 F3]]]. exists NNil, c2.
      split; [exact F1|]. split; [reflexivity|]. split; [exact I|]. rewrite F2. auto. }
  pose proof (Src c G eq_refl) as S1.
  destruct (src4 (get_at (d4 g) (ptoks rf) (cval4 c))) as [j|cz] eqn:Es.
  2: { destruct S1 as [e [c2 [[F1|[F1 ->]] F2]]]; rewrite F1; exists e + exists EMissing; (split; [reflexivity | exact F2]). }
  destruct S1 as [v0 [c1 [F1 [F2 [F3 [F4 F5]]]]]]. rewrite F1. cbn [lift4]. rewrite Hp.
  assert (Oj : onodup j = true) by (rewrite <- F2; apply ngood4_onodup; exact F3).
  pose proof (find4_unit_sim g c1 r F5 Dp) as FU. rewrite F4 in FU.
  (* the destination parent must be reachable; the reference's add fails the same way *)
  assert (Unreach : forall jc, match descend (d4 g) (map decode_token (path_parts r)) (cval4 c) with
                               | Some p => is_container p = false | None => True end ->
            at_parent (d4 g) (ptoks r) (cval4 c) (add_leaf (d4 g) jc) = RFail FUnreachable).
  { intros jc Hd. unfold ptoks. apply at_parent_unreachable; auto.
    intros p t Cp. apply (proj1 (leaf_noncontainer (d4 g) p t Cp)). }
  destruct (descend (d4 g) (map decode_token (path_parts r)) (cval4 c)) as [p|] eqn:Ed.
  2: { destruct FU as [c2 U1]. rewrite U1. exists j. split; [apply veq_refl; exact Oj|].
       rewrite (Unreach j I). exists EMissing. split; reflexivity. }
  destruct (is_container p) eqn:Cp.
  2: { destruct FU as [c2 U1]. rewrite U1. exists j. split; [apply veq_refl; exact Oj|].
       rewrite (Unreach j eq_refl). exists EMissing. split; reflexivity. }
  destruct FU as [c2 [U1 [U2 U3]]]. rewrite U1.
  pose proof (Src c2 U3 U2) as S2. destruct S2 as [v [c3 [G1 [G2 [G3 _]]]]]. rewrite G1. cbn [lift4].
  assert (Nv : v <> raw_nil4).
  { intro E. apply NRN. rewrite copy_arg4_unfold. fold c. rewrite Hf, Hp, F1, U1, G1, E. reflexivity. }
  destruct (deep_copy4_sim g v G3 Nv) as [DC1 DC2]. destruct (deep_copy4 g v) as [cp sz]. cbn [fst] in *.
  rewrite Lim. change ((0 <? 0)%Z) with false. cbn [andb].
  exists (aval4 cp). split; [split; [rewrite <- G2; exact DC2 | split; [apply ngood4_onodup; exact DC1 | exact Oj]]|].
  pose proof (add_find4_sim g c2 r cp U3 Dp DC1) as AF. rewrite U2 in AF.
  destruct (at_parent (d4 g) (ptoks r) (cval4 c) (add_leaf (d4 g) (aval4 cp))) as [j'|cz].
  - destruct AF as [a [c4 [A1 [A2 [A3 _]]]]]. rewrite A1. eexists. split; [reflexivity|].
    unfold sval4, sgood4. cbn [r4]. auto.
  - destruct AF as [e [c4 [[A1|[A1 ->]] A2]]]; rewrite A1; exists e + exists EMissing; (split; [reflexivity | exact A2]).
Qed.

(* ================= the reference respects member order ================= *)
(* Values are compared up to member order: structural equality (jeq) of values without duplicate
   names.  The reference operations respect it, so a legacy run whose values drift from the ordered
   reference by the order of copied members (deepCopy sorts them) still follows the reference. *)
Definition req (x y : Rfc6902.res ojson) : Prop :=
  match x, y with
  | ROk a, ROk b => veq a b
  | RFail c, RFail c' => c = c'
  | _, _ => False
  end.

Lemma req_trans x y z : req x y -> req y z -> req x z.
Proof.
  destruct x, y, z; simpl; try tauto; try congruence. apply veq_trans.
Qed.

Lemma req_bind x y (k k' : ojson -> Rfc6902.res ojson) :
  req x y -> (forall u u', veq u u' -> req (k u) (k' u')) -> req (bind x k) (bind y k').
Proof. destruct x, y; simpl; try tauto. intros V H. apply H. exact V. Qed.

(* ---- objects ---- *)
Definition members_ok (l : list (bytes * ojson)) : Prop :=
  NoDup (map fst l) /\ Forall (fun kv => onodup (snd kv) = true) l.

Lemma veq_obj l m :
  veq (OObj l) (OObj m) <->
  members_ok l /\ members_ok m /\ forall k, lookup_rel (fun x y => jeq x y = true) (aget k l) (aget k m).
Proof.
  unfold veq, members_ok. rewrite !onodup_obj. split.
  - intros [J [[N1 F1] [N2 F2]]]. split; [auto|]. split; [auto|]. apply jeq_obj_char; auto.
  - intros [[N1 F1] [[N2 F2] H]]. split; [apply jeq_obj_char; auto | auto].
Qed.

Lemma members_ok_aget l k x : members_ok l -> aget k l = Some x -> onodup x = true.
Proof. intros [_ F] E. apply aget_In in E. rewrite Forall_forall in F. apply (F _ E). Qed.

Lemma veq_obj_aget l m k :
  veq (OObj l) (OObj m) ->
  match aget k l, aget k m with
  | Some x, Some y => veq x y
  | None, None => True
  | _, _ => False
  end.
Proof.
  intro V. apply veq_obj in V as [M1 [M2 H]]. specialize (H k). unfold lookup_rel in H.
  destruct (aget k l) as [x|] eqn:E1, (aget k m) as [y|] eqn:E2; auto.
  split; [exact H|]. split; [exact (members_ok_aget l k x M1 E1) | exact (members_ok_aget m k y M2 E2)].
Qed.

Lemma members_ok_aset l k x : members_ok l -> onodup x = true -> members_ok (aset k x l).
Proof. intros [N F] Nx. split; [apply NoDup_keys_aset; exact N | apply Forall_aset; auto]. Qed.

Lemma members_ok_adel l k : members_ok l -> members_ok (adel k l).
Proof. intros [N F]. split; [apply NoDup_keys_adel; exact N | apply Forall_adel; auto]. Qed.

Lemma veq_aset l m k x y : veq (OObj l) (OObj m) -> veq x y -> veq (OObj (aset k x l)) (OObj (aset k y m)).
Proof.
  intros V [J [Nx Ny]]. apply veq_obj in V as [M1 [M2 H]]. apply veq_obj.
  split; [apply members_ok_aset; auto|]. split; [apply members_ok_aset; auto|].
  intro k'. destruct (bseq k' k) eqn:E.
  - apply bseq_eq in E. subst k'. rewrite !aget_aset_same. exact J.
  - rewrite !aget_aset_other by exact E. apply H.
Qed.

Lemma veq_adel l m k : veq (OObj l) (OObj m) -> veq (OObj (adel k l)) (OObj (adel k m)).
Proof.
  intro V. apply veq_obj in V as [M1 [M2 H]]. apply veq_obj.
  split; [apply members_ok_adel; auto|]. split; [apply members_ok_adel; auto|].
  intro k'. destruct (bseq k' k) eqn:E.
  - apply bseq_eq in E. subst k'. rewrite !aget_adel_same. exact I.
  - rewrite !aget_adel_other by exact E. apply H.
Qed.

Lemma veq_amem l m k : veq (OObj l) (OObj m) -> amem k l = amem k m.
Proof.
  intro V. pose proof (veq_obj_aget l m k V) as H. unfold amem.
  destruct (aget k l), (aget k m); auto; contradiction.
Qed.

(* ---- arrays ---- *)
Lemma veq_arr l m : veq (OArr l) (OArr m) <-> Forall2 veq l m.
Proof.
  unfold veq. rewrite jeq_arr, jeq_list_spec, !onodup_arr. split.
  - intros [J [N1 N2]]. induction J as [|x y l m Jx J IH]; constructor.
    + inversion N1; inversion N2; subst. auto.
    + inversion N1; inversion N2; subst. apply IH; auto.
  - intro F. induction F as [|x y l m [Jx [Nx Ny]] F [IH1 [IH2 IH3]]]; [repeat split; constructor|].
    split; [constructor; auto|]. split; constructor; auto.
Qed.

Lemma Forall2_firstn {A B} (R : A -> B -> Prop) n : forall l m, Forall2 R l m -> Forall2 R (firstn n l) (firstn n m).
Proof. induction n as [|n IH]; intros l m F; [constructor|]. destruct F; [constructor|]. cbn [firstn]. constructor; auto. Qed.

Lemma Forall2_skipn {A B} (R : A -> B -> Prop) n : forall l m, Forall2 R l m -> Forall2 R (skipn n l) (skipn n m).
Proof. induction n as [|n IH]; intros l m F; [exact F|]. destruct F; [constructor|]. cbn [skipn]. auto. Qed.

Lemma Forall2_nth {A B} (R : A -> B -> Prop) da db : R da db ->
  forall l m i, Forall2 R l m -> R (nth i l da) (nth i m db).
Proof.
  intros Rd l m i F. revert i. induction F as [|x y l m Rx F IH]; intro i; destruct i; simpl; auto.
Qed.

Lemma veq_zlen l m : Forall2 veq l m -> Rfc6902.zlen l = Rfc6902.zlen m.
Proof. intro F. unfold Rfc6902.zlen. f_equal. induction F; simpl; auto. Qed.

Lemma veq_set_at i x y l m : Forall2 veq l m -> veq x y -> Forall2 veq (set_at i x l) (set_at i y m).
Proof.
  intros F V. unfold set_at. apply Forall2_app; [apply Forall2_firstn; exact F|].
  constructor; [exact V | apply Forall2_skipn; exact F].
Qed.

Lemma veq_insert_at i x y l m : Forall2 veq l m -> veq x y -> Forall2 veq (insert_at i x l) (insert_at i y m).
Proof.
  intros F V. unfold insert_at. apply Forall2_app; [apply Forall2_firstn; exact F|].
  constructor; [exact V | apply Forall2_skipn; exact F].
Qed.

Lemma veq_remove_at i l m : Forall2 veq l m -> Forall2 veq (remove_at i l) (remove_at i m).
Proof.
  intro F. unfold remove_at. apply Forall2_app; [apply Forall2_firstn; exact F | apply Forall2_skipn; exact F].
Qed.

Lemma veq_null : veq ONull ONull.
Proof. repeat split. Qed.

(* related values have the same shape *)
Lemma veq_shape a b : veq a b ->
  match a, b with
  | OObj _, OObj _ | OArr _, OArr _ => True
  | OObj _, _ | OArr _, _ | _, OObj _ | _, OArr _ => False
  | _, _ => a = b
  end.
Proof.
  intros [J _]. destruct a, b; simpl in J; try discriminate; auto.
  - destruct b, b0; simpl in J; congruence.
  - apply bseq_eq in J. congruence.
  - apply bseq_eq in J. congruence.
Qed.

(* ---- the leaf operations ---- *)
Ltac veq_shapes V :=
  let S := fresh "S" in pose proof (veq_shape _ _ V) as S; simpl in S; try contradiction.

Lemma add_leaf_veq d v v' p p' t : veq v v' -> veq p p' -> req (add_leaf d v p t) (add_leaf d v' p' t).
Proof.
  intros Vv Vp. destruct p, p'; veq_shapes Vp; try (simpl; reflexivity).
  - apply veq_arr in Vp. cbn [add_leaf]. rewrite (veq_zlen _ _ Vp).
    destruct (idx_insert d (Rfc6902.zlen l0) t); [|reflexivity]. apply veq_arr. apply veq_insert_at; auto.
  - cbn [add_leaf req]. apply veq_aset; auto.
Qed.

Lemma remove_leaf_veq d p p' t : veq p p' -> req (remove_leaf d p t) (remove_leaf d p' t).
Proof.
  intros Vp. destruct p, p'; veq_shapes Vp; try (simpl; reflexivity).
  - apply veq_arr in Vp. cbn [remove_leaf]. rewrite (veq_zlen _ _ Vp).
    destruct (idx_existing d (Rfc6902.zlen l0) t); [|reflexivity]. apply veq_arr. apply veq_remove_at; auto.
  - cbn [remove_leaf]. rewrite (veq_amem _ _ t Vp). destruct (amem t ms0); [|reflexivity]. apply veq_adel; auto.
Qed.

Lemma replace_leaf_veq d v v' p p' t : veq v v' -> veq p p' -> req (replace_leaf d v p t) (replace_leaf d v' p' t).
Proof.
  intros Vv Vp. destruct p, p'; veq_shapes Vp; try (simpl; reflexivity).
  - apply veq_arr in Vp. cbn [replace_leaf]. rewrite (veq_zlen _ _ Vp).
    destruct (idx_existing d (Rfc6902.zlen l0) t); [|reflexivity]. apply veq_arr. apply veq_set_at; auto.
  - cbn [replace_leaf]. rewrite (veq_amem _ _ t Vp). destruct (amem t ms0); [|reflexivity]. apply veq_aset; auto.
Qed.

Lemma jeq_veq_l x y v : veq x y -> onodup v = true -> jeq x v = jeq y v.
Proof.
  intros [J [Nx Ny]] Nv. apply Bool.eq_true_iff_eq. split; intro H.
  - apply (jeq_trans y x v); auto. apply jeq_sym; auto.
  - apply (jeq_trans x y v); auto.
Qed.

Lemma test_leaf_veq d v p p' t : onodup v = true -> veq p p' -> req (test_leaf d v p t) (test_leaf d v p' t).
Proof.
  intros Nv Vp. destruct p, p'; veq_shapes Vp; try (simpl; reflexivity).
  - pose proof Vp as Vl. apply veq_arr in Vl. cbn [test_leaf]. rewrite (veq_zlen _ _ Vl).
    destruct (idx_existing d (Rfc6902.zlen l0) t) as [i|]; [|reflexivity].
    rewrite (jeq_veq_l (nth i l ONull) (nth i l0 ONull) v); [|apply Forall2_nth; [exact veq_null | exact Vl] | exact Nv].
    destruct (jeq (nth i l0 ONull) v); [exact Vp | reflexivity].
  - cbn [test_leaf]. pose proof (veq_obj_aget ms ms0 t Vp) as H.
    assert (E : jeq (match aget t ms with Some c => c | None => ONull end) v =
                jeq (match aget t ms0 with Some c => c | None => ONull end) v).
    { destruct (aget t ms), (aget t ms0); try contradiction; [apply jeq_veq_l; auto | reflexivity]. }
    rewrite E. clear E. destruct (jeq (match aget t ms0 with Some c => c | None => ONull end) v); [exact Vp | reflexivity].
Qed.

(* ---- walking ---- *)
Lemma at_parent_veq d (lf lf' : ojson -> bytes -> Rfc6902.res ojson) :
  (forall p p' t, veq p p' -> req (lf p t) (lf' p' t)) ->
  forall toks a b, veq a b -> req (at_parent d toks a lf) (at_parent d toks b lf').
Proof.
  intro L. induction toks as [|t rest IH]; intros a b V; [reflexivity|].
  destruct rest as [|t2 rest]; [apply L; exact V|].
  assert (U : forall j (h : ojson -> bytes -> Rfc6902.res ojson), at_parent d (t :: t2 :: rest) j h =
            match j with
            | OObj ms => match aget t ms with
                         | Some c => bind (at_parent d (t2 :: rest) c h) (fun c' => ROk (OObj (aset t c' ms)))
                         | None => RFail FUnreachable end
            | OArr l => match idx_existing d (Rfc6902.zlen l) t with
                        | Some i => bind (at_parent d (t2 :: rest) (nth i l ONull) h) (fun c' => ROk (OArr (set_at i c' l)))
                        | None => RFail FUnreachable end
            | _ => RFail FUnreachable
            end) by reflexivity.
  rewrite !U. clear U. destruct a, b; veq_shapes V; try reflexivity.
  - pose proof V as Vl. apply veq_arr in Vl. rewrite (veq_zlen _ _ Vl).
    destruct (idx_existing d (Rfc6902.zlen l0) t) as [i|]; [|reflexivity].
    apply req_bind; [apply IH; apply Forall2_nth; [exact veq_null | exact Vl]|].
    intros u u' Vu. apply veq_arr. apply veq_set_at; auto.
  - pose proof (veq_obj_aget ms ms0 t V) as H.
    destruct (aget t ms) as [c|], (aget t ms0) as [c'|]; try contradiction; [|reflexivity].
    apply req_bind; [apply IH; exact H|]. intros u u' Vu. apply veq_aset; auto.
Qed.

Lemma get_at_veq d : forall toks a b, veq a b -> req (get_at d toks a) (get_at d toks b).
Proof.
  induction toks as [|t rest IH]; intros a b V; [exact V|].
  cbn [get_at]. destruct a, b; veq_shapes V; try reflexivity.
  - pose proof V as Vl. apply veq_arr in Vl. rewrite (veq_zlen _ _ Vl).
    destruct (idx_existing d (Rfc6902.zlen l0) t) as [i|]; [|destruct rest; reflexivity].
    apply IH. apply Forall2_nth; [exact veq_null | exact Vl].
  - pose proof (veq_obj_aget ms ms0 t V) as H.
    destruct (aget t ms) as [c|], (aget t ms0) as [c'|]; try contradiction; [|destruct rest; reflexivity].
    apply IH. exact H.
Qed.

(* ---- one reference operation ---- *)
Definition rop_ok (o : rop) : Prop := match rvalue o with Some v => onodup v = true | None => True end.

Lemma value_or_null_ok o : rop_ok o -> onodup (value_or_null (rvalue o)) = true.
Proof. unfold rop_ok. destruct (rvalue o); auto. Qed.

Lemma rfc_step_veq d a b o : rop_ok o -> veq a b -> req (rfc_step d a o) (rfc_step d b o).
Proof.
  intros Ro V. pose proof (value_or_null_ok o Ro) as Nv. unfold rfc_step.
  destruct (ptr_tokens (rpath o)) as [toks|]; [|reflexivity].
  destruct (rkind o).
  - (* add *) unfold rfc_add. destruct toks as [|t ts].
    + destruct (is_container _); [apply veq_refl; exact Nv | reflexivity].
    + apply at_parent_veq; auto. intros p p' t0 Vp. apply add_leaf_veq; auto. apply veq_refl; exact Nv.
  - (* remove *) destruct toks as [|t ts]; [reflexivity|]. apply at_parent_veq; auto. intros p p' t0 Vp. apply remove_leaf_veq; auto.
  - (* replace *) destruct toks as [|t ts].
    + destruct (is_container _); [apply veq_refl; exact Nv | reflexivity].
    + apply at_parent_veq; auto. intros p p' t0 Vp. apply replace_leaf_veq; auto. apply veq_refl; exact Nv.
  - (* move *) destruct (ptr_tokens (rfrom o)) as [[|f fs]|]; try reflexivity.
    apply req_bind; [apply get_at_veq; exact V|]. intros v v' Vv.
    apply req_bind; [apply at_parent_veq; auto; intros p p' t0 Vp; apply remove_leaf_veq; auto|]. intros u u' Vu.
    destruct toks as [|t ts]; [reflexivity|]. apply at_parent_veq; auto. intros p p' t0 Vp. apply add_leaf_veq; auto.
  - (* copy *) destruct (ptr_tokens (rfrom o)) as [ftoks|]; try reflexivity.
    apply req_bind; [apply get_at_veq; exact V|]. intros v v' Vv.
    destruct toks as [|t ts]; [reflexivity|]. apply at_parent_veq; auto. intros p p' t0 Vp. apply add_leaf_veq; auto.
  - (* test *) destruct toks as [|t ts].
    + rewrite (jeq_veq_l a b _ V Nv). destruct (jeq b _); [exact V | reflexivity].
    + apply at_parent_veq; auto. intros p p' t0 Vp. apply test_leaf_veq; auto.
Qed.

Lemma rfc4_step_veq d a b o : rop_ok o -> veq a b -> req (rfc4_step d a o) (rfc4_step d b o).
Proof.
  intros Ro V. pose proof (rfc_step_veq d a b o Ro V) as R. unfold rfc4_step.
  destruct (rfc_step d a o) as [x|cz], (rfc_step d b o) as [y|cz']; simpl in R; try contradiction; [exact R|].
  subst cz'. destruct cz; try reflexivity.
  destruct (rkind o); try reflexivity; apply rfc_step_veq; auto; try exact Ro; reflexivity.
Qed.

(* ================= every operation, whole patches ================= *)
Lemma add_not_missing d toks doc v : at_parent d toks doc (add_leaf d v) <> RFail FMissingMember.
Proof.
  destruct toks as [|t0 ts]; [discriminate|].
  assert (NE : t0 :: ts <> []) by discriminate.
  rewrite (app_removelast_last [] NE), at_parent_snoc. intro H.
  match type of H with context [descend ?a ?b ?c] => destruct (descend a b c) as [p|] end; [|discriminate H].
  destruct p; cbn [add_leaf bind] in H; try discriminate H.
  match type of H with context [idx_insert ?a ?b ?c] => destruct (idx_insert a b c) end; discriminate H.
Qed.

Lemma den_op_ok op : val_good4 op -> rop_ok (den_op op).
Proof.
  unfold val_good4, rop_ok, den_op. cbn [rvalue]. destruct (aget (B "value") op) as [[t|]|]; auto.
  intros [_ [T _]]. exact T.
Qed.

(* the deviating reference on a copy: the source read with an absent member as null, then add *)
Lemma rfc4_copy_char d doc op rf r :
  op_kind op = KCopy -> op_str op (B "from") = Ok (x2f :: rf) -> op_str op (B "path") = Ok (x2f :: r) ->
  rfc4_step d doc (den_op op) =
  match src4 (get_at d (ptoks rf) doc) with
  | ROk j => at_parent d (ptoks r) doc (add_leaf d j)
  | RFail cz => RFail cz
  end.
Proof.
  intros K Hf Hp.
  assert (RP : rpath (den_op op) = x2f :: r) by (unfold den_op; simpl; rewrite Hp; reflexivity).
  assert (RF : rfrom (den_op op) = x2f :: rf) by (unfold den_op; simpl; rewrite Hf; reflexivity).
  assert (RK : rkind (den_op op) = OpCopy) by (unfold den_op; simpl; rewrite K; reflexivity).
  unfold rfc4_step, rfc_step. unfold as_add. cbn [rpath rkind rfrom rvalue]. rewrite RP, RK, RF, !ptr_tokens_slash.
  fold (ptoks r) (ptoks rf). unfold rfc_add. rewrite !(bind_nonempty _ _ _ (ptoks_nonempty r)).
  destruct (get_at d (ptoks rf) doc) as [j|cz]; cbn [bind src4 value_or_null];
    rewrite ?(bind_nonempty _ _ _ (ptoks_nonempty r)).
  - pose proof (add_not_missing d (ptoks r) doc j) as NM.
    destruct (at_parent d (ptoks r) doc (add_leaf d j)) as [x|cz]; [reflexivity|]. destruct cz; try reflexivity. congruence.
  - destruct cz; reflexivity.
Qed.

Lemma step4_copy_veq g st op :
  sgood4 st -> g_limit g = 0%Z -> op_dom4 op -> op_kind op = KCopy -> copy_clean4 g st op ->
  match rfc4_step (d4 g) (sval4 st) (den_op op) with
  | ROk x => exists st', step4 g st op = Ok st' /\ veq (sval4 st') x /\ sgood4 st'
  | RFail cz => exists e, step4 g st op = Err e /\ cause_rel cz e
  end.
Proof.
  intros G Lim [Vg [path [Hp K]]] Ek CC. rewrite Ek in K. destruct K as [[r [-> D]] [from [Hf [rf [-> Df]]]]].
  rewrite (rfc4_copy_char (d4 g) (sval4 st) op rf r Ek Hf Hp).
  pose proof (step4_copy_sim g st op rf r G Ek Lim Hf Df Hp D CC) as S.
  destruct (src4 (get_at (d4 g) (ptoks rf) (sval4 st))) as [j|cz]; [|exact S].
  destruct S as [jc [J S]].
  assert (Na : onodup (sval4 st) = true) by (apply ngood4_onodup; exact (proj1 G)).
  assert (R : req (at_parent (d4 g) (ptoks r) (sval4 st) (add_leaf (d4 g) jc))
                  (at_parent (d4 g) (ptoks r) (sval4 st) (add_leaf (d4 g) j))).
  { apply at_parent_veq; [|apply veq_refl; exact Na]. intros p p' t Vp. apply add_leaf_veq; auto. }
  destruct (at_parent (d4 g) (ptoks r) (sval4 st) (add_leaf (d4 g) jc)) as [x|cz],
           (at_parent (d4 g) (ptoks r) (sval4 st) (add_leaf (d4 g) j)) as [y|cz']; simpl in R; try contradiction.
  - destruct S as [st' [S1 [S2 S3]]]. exists st'. split; [exact S1|]. split; [rewrite S2; exact R | exact S3].
  - subst cz'. exact S.
Qed.

Lemma opk_eq_copy (k : opk) : k = KCopy \/ k <> KCopy.
Proof. destruct k; auto; right; discriminate. Qed.

(* the whole run: no copy is handed the operation value null: ImplV4.no_null_copy4 (a boolean that
   evaluates the model) *)
Lemma is_raw_nil4_clean g st op : is_raw_nil4 (copy_arg4 g st op) = false -> copy_clean4 g st op.
Proof. intros H E. rewrite E in H. discriminate. Qed.

Lemma no_null_copy4_head g st op rest :
  no_null_copy4 g st (op :: rest) = true ->
  (op_kind op = KCopy -> copy_clean4 g st op) /\
  (forall st', step4 g st op = Ok st' -> no_null_copy4 g st' rest = true).
Proof.
  cbn [no_null_copy4]. intro H. apply andb_prop in H as [H1 H2]. split.
  - intro K. rewrite K in H1. apply is_raw_nil4_clean. destruct (is_raw_nil4 _); [discriminate | reflexivity].
  - intros st' E. rewrite E in H2. exact H2.
Qed.

Lemma no_copy_no_null_copy4 g p : Forall (fun op => op_kind op <> KCopy) p -> forall st, no_null_copy4 g st p = true.
Proof.
  induction 1 as [|op p Hop Hp IH]; intro st; [reflexivity|]. cbn [no_null_copy4].
  destruct (op_kind op); try congruence; cbn [negb andb]; destruct (step4 g st op); auto.
Qed.

(* one operation of any kind, from a state whose value is the reference document up to member order *)
Theorem step4_sim g st op doc :
  g_limit g = 0%Z -> sgood4 st -> veq (sval4 st) doc -> op_dom4 op ->
  (op_kind op = KCopy -> copy_clean4 g st op) ->
  match rfc4_step (d4 g) doc (den_op op) with
  | ROk j' => exists st', step4 g st op = Ok st' /\ veq (sval4 st') j' /\ sgood4 st'
  | RFail cz => exists e, step4 g st op = Err e /\ cause_rel cz e
  end.
Proof.
  intros Lim G V D CC.
  pose proof (rfc4_step_veq (d4 g) (sval4 st) doc (den_op op) (den_op_ok op (proj1 D)) V) as C.
  assert (S : match rfc4_step (d4 g) (sval4 st) (den_op op) with
              | ROk x => exists st', step4 g st op = Ok st' /\ veq (sval4 st') x /\ sgood4 st'
              | RFail cz => exists e, step4 g st op = Err e /\ cause_rel cz e
              end).
  { destruct (opk_eq_copy (op_kind op)) as [Ek|Ek].
    - apply step4_copy_veq; auto.
    - pose proof (step4_sim_nocopy g st op G D Ek) as S.
      destruct (rfc4_step (d4 g) (sval4 st) (den_op op)) as [x|cz]; [|exact S].
      destruct S as [st' [S1 [S2 [S3 _]]]]. exists st'. split; [exact S1|]. split; [|exact S3].
      apply veq_eq; [exact S2|]. apply ngood4_onodup. exact (proj1 S3). }
  destruct (rfc4_step (d4 g) (sval4 st) (den_op op)) as [x|cz], (rfc4_step (d4 g) doc (den_op op)) as [y|cz'];
    simpl in C; try contradiction.
  - destruct S as [st' [S1 [S2 S3]]]. exists st'. split; [exact S1|]. split; [eapply veq_trans; eauto | exact S3].
  - subst cz'. exact S.
Qed.

Theorem apply4_sim g : g_limit g = 0%Z -> forall p i st doc,
  sgood4 st -> veq (sval4 st) doc -> Forall op_dom4 p -> no_null_copy4 g st p = true ->
  match rfc4_apply_from (d4 g) i doc (map den_op p) with
  | Done doc' => exists st', apply4_from g i st p = (Ok st', (i + length p)%nat) /\ veq (sval4 st') doc' /\ sgood4 st'
  | Failed j cz => exists e, apply4_from g i st p = (Err e, j) /\ cause_rel cz e
  end.
Proof.
  intro Lim. induction p as [|op p IH]; intros i st doc G V D NC; cbn [map rfc4_apply_from apply4_from length].
  - exists st. rewrite Nat.add_0_r. auto.
  - inversion D as [|? ? Dop Dp]; subst. apply no_null_copy4_head in NC as [NC1 NC2].
    pose proof (step4_sim g st op doc Lim G V Dop NC1) as S.
    destruct (rfc4_step (d4 g) doc (den_op op)) as [j'|cz].
    + destruct S as [st' [S1 [S2 S3]]]. rewrite S1. specialize (IH (S i) st' j' S3 S2 Dp (NC2 st' S1)).
      destruct (rfc4_apply_from (d4 g) (S i) j' (map den_op p)) as [doc'|j cz].
      * destruct IH as [st2 [I1 [I2 I3]]]. exists st2. rewrite I1. replace (S i + length p)%nat with (i + S (length p))%nat by lia. auto.
      * exact IH.
    + destruct S as [e [S1 S2]]. rewrite S1. eauto.
Qed.

(* against RFC 6902 itself, for patches that avoid the two deviations *)
Theorem apply4_rfc g p i st doc :
  g_limit g = 0%Z -> sgood4 st -> veq (sval4 st) doc -> Forall op_dom4 p ->
  no_deviation (d4 g) doc (map den_op p) = true -> no_null_copy4 g st p = true ->
  match rfc_apply_from (d4 g) i doc (map den_op p) with
  | Done doc' => exists st', apply4_from g i st p = (Ok st', (i + length p)%nat) /\ veq (sval4 st') doc' /\ sgood4 st'
  | Failed j cz => exists e, apply4_from g i st p = (Err e, j) /\ cause_rel cz e
  end.
Proof.
  intros Lim G V D ND NC. rewrite <- (rfc4_apply_agree (d4 g) (map den_op p) i doc ND). apply apply4_sim; auto.
Qed.

(* Apply on bytes, all six operations: the result is the RFC result up to member order *)
Theorem api_apply4_sim g indent p doc t :
  g_limit g = 0%Z ->
  parse doc = Some t -> root_container t = true -> tnodup t = true -> tplain t -> tkeys t ->
  Forall op_dom4 p -> no_deviation (d4 g) (den t) (map den_op p) = true ->
  (forall c, api_start4 t = Some c -> no_null_copy4 g (mkState4 c 0) p = true) ->
  match rfc_apply (d4 g) (den t) (map den_op p) with
  | Done j => exists n, api_apply4 g indent p doc = Out4 (output4 indent (render4 n)) /\ veq (aval4 n) j /\ ngood4 n
  | Failed i cz => exists e, api_apply4 g indent p doc = Err4 (Some i) e /\ cause_rel cz e
  end.
Proof.
  intros Lim P RC T Pl Ks D ND NC. unfold api_apply4. destruct doc as [|b doc]; [rewrite parse_nil in P; discriminate|].
  rewrite P. pose proof (parse_tlit _ _ P) as L.
  assert (R : raw4 t) by (split; [destruct t; discriminate | repeat split; auto]).
  destruct (start4_good t RC R) as [c [S1 [S2 S3]]]. rewrite S1.
  assert (V : veq (sval4 (mkState4 c 0)) (den t)).
  { unfold sval4. cbn [r4]. rewrite S3. apply veq_refl. exact T. }
  pose proof (apply4_rfc g p 0%nat (mkState4 c 0) (den t) Lim S2 V D ND (NC c S1)) as AS. unfold rfc_apply.
  destruct (rfc_apply_from (d4 g) 0 (den t) (map den_op p)) as [j|i cz].
  - destruct AS as [st' [A1 [A2 A3]]]. rewrite A1. exists (node_of_con4 (r4 st')).
    unfold sgood4, cgood4 in A3. destruct A3 as [A3 A4]. unfold sval4, cval4 in A2.
    destruct (r4 st') eqn:Er; [| congruence |]; (split; [reflexivity|]; split; [exact A2 | exact A3]).
  - destruct AS as [e [A1 A2]]. rewrite A1. eauto.
Qed.

(* the hypothesis of api_apply4_sim on the run, from the boolean on the bytes (ImplV4.api_no_null_copy4:
   what the correspondence oracle can evaluate) *)
Lemma api_no_null_copy4_start g p doc t :
  parse doc = Some t -> root_container t = true -> api_no_null_copy4 g p doc = true ->
  forall c, api_start4 t = Some c -> no_null_copy4 g (mkState4 c 0) p = true.
Proof.
  intros P RC H c Hc. unfold api_no_null_copy4 in H. rewrite P in H.
  destruct t; try discriminate; inversion Hc; subst; exact H.
Qed.

(* ================= the documented deviations, stated on their own ================= *)
(* replace of an absent member of an existing object: RFC 6902 reports the absent member, the
   legacy package adds the member (at the end of the object) *)
Theorem step4_replace_absent_adds g st op r ms :
  sgood4 st -> op_kind op = KReplace ->
  op_str op (B "path") = Ok (x2f :: r) -> Forall tok_dom4 (map decode_token (split_slash r)) -> val_good4 op ->
  descend (d4 g) (map decode_token (path_parts r)) (sval4 st) = Some (OObj ms) -> aget (path_key r) ms = None ->
  rfc_step (d4 g) (sval4 st) (den_op op) = RFail FMissingMember /\
  exists st', step4 g st op = Ok st' /\ sgood4 st' /\
    sval4 st' = rebuild (d4 g) (map decode_token (path_parts r)) (sval4 st) (OObj (ms ++ [(path_key r, ref_value op)])).
Proof.
  intros G K Hp D Vg Ed Ea.
  assert (RP : rpath (den_op op) = x2f :: r) by (unfold den_op; simpl; rewrite Hp; reflexivity).
  assert (RK : rkind (den_op op) = OpReplace) by (unfold den_op; simpl; rewrite K; reflexivity).
  split.
  - unfold rfc_step. rewrite RP, RK, ptr_tokens_slash, ref_value_den_op. fold (ptoks r).
    rewrite (bind_nonempty _ _ _ (ptoks_nonempty r)). unfold ptoks. rewrite at_parent_snoc, Ed.
    cbn [replace_leaf]. unfold amem. rewrite Ea. reflexivity.
  - pose proof (step4_replace_sim g st op r G K Hp D Vg) as S. unfold ptoks in S. rewrite at_parent_snoc, Ed in S.
    cbn [replace_leaf4 bind] in S. destruct S as [st' [S1 [S2 [S3 _]]]]. exists st'. split; [exact S1|]. split; [exact S3|].
    rewrite S2. f_equal. f_equal. apply aset_notin. apply aget_None_notin. exact Ea.
Qed.

(* copy whose source is an absent member of an existing object: RFC 6902 reports the absent member,
   the legacy package copies null *)
Theorem step4_copy_absent_copies_null g st op rf r ms :
  sgood4 st -> op_kind op = KCopy -> g_limit g = 0%Z ->
  op_str op (B "from") = Ok (x2f :: rf) -> Forall tok_dom4 (map decode_token (split_slash rf)) ->
  op_str op (B "path") = Ok (x2f :: r) -> Forall tok_dom4 (map decode_token (split_slash r)) ->
  descend (d4 g) (map decode_token (path_parts rf)) (sval4 st) = Some (OObj ms) -> aget (path_key rf) ms = None ->
  get_at (d4 g) (ptoks rf) (sval4 st) = RFail FMissingMember /\
  match at_parent (d4 g) (ptoks r) (sval4 st) (add_leaf (d4 g) ONull) with
  | ROk j' => exists st', step4 g st op = Ok st' /\ sval4 st' = j' /\ sgood4 st'
  | RFail cz => exists e, step4 g st op = Err e /\ cause_rel cz e
  end.
Proof.
  intros G K Lim Hf Df Hp Dp Ed Ea.
  assert (GA : get_at (d4 g) (ptoks rf) (sval4 st) = RFail FMissingMember).
  { unfold ptoks. rewrite get_at_snoc, Ed. cbn [get_leaf]. rewrite Ea. reflexivity. }
  split; [exact GA|].
  pose proof (step4_copy_sim g st op rf r G K Lim Hf Df Hp Dp (copy_clean4_absent g st op rf r G Hf Df Hp Dp GA)) as S.
  rewrite GA in S. cbn [src4] in S.
  destruct S as [jc [V S]]. pose proof (veq_shape _ _ V) as Sh. destruct jc; simpl in Sh; try contradiction; try discriminate. exact S.
Qed.

(* test of an absent member of an existing object: it compares as null (here the legacy package
   and the dialect of the reference agree) *)
Theorem step4_test_absent g st op r ms :
  sgood4 st -> op_kind op = KTest ->
  op_str op (B "path") = Ok (x2f :: r) -> Forall tok_dom4 (map decode_token (split_slash r)) -> val_good4 op ->
  descend (d4 g) (map decode_token (path_parts r)) (sval4 st) = Some (OObj ms) -> aget (path_key r) ms = None ->
  if onull (ref_value op)
  then exists st', step4 g st op = Ok st' /\ sval4 st' = sval4 st /\ sgood4 st'
  else step4 g st op = Err ETestFailed.
Proof.
  intros G K Hp D Vg Ed Ea.
  assert (HV : has_value4 op \/
               forall p, descend (d4 g) (map decode_token (path_parts r)) (sval4 st) = Some p -> child_at (d4 g) p (path_key r) = None).
  { right. intros p Hd. rewrite Ed in Hd. inversion Hd; subst p. cbn [child_at]. exact Ea. }
  pose proof (step4_test_sim g st op r G K Hp D Vg HV) as S.
  unfold ptoks in S. rewrite at_parent_snoc, Ed in S. cbn [test_leaf] in S. rewrite Ea, jeq_null_l in S.
  destruct (onull (ref_value op)); cbn [bind] in S.
  - destruct S as [st' [S1 [S2 [S3 _]]]]. exists st'. split; [exact S1|]. split; [|exact S3].
    rewrite S2. apply rebuild_same. exact Ed.
  - destruct S as [e [S1 S2]]. simpl in S2. subst e. exact S1.
Qed.

(* ---- remark: why the invariant above carries UTF-8 validity of member names ---- *)
(* The v5 simulation (ApplySim.v) once covered copy only under a global hypothesis codec_ok that
   quantified over all good nodes, including parsed objects whose member names are not valid UTF-8;
   the encoder writes such a name as U+FFFD, so that hypothesis was refutable.  It is gone: ApplySim's
   invariant ngood now carries StrInv.nstr (member names in valid UTF-8, raw messages with
   scanner-accepted string bodies) and the codec fact is PROVED there (StrInv.codec_thm), as it is
   here (enc4_codec) from ogood4 / tkeys.  What remains true, and is the reason for the invariant:
   re-encoding an object whose member name is NOT valid UTF-8 does not give the value back. *)
Example bad_name_not_roundtrip :
  den (escape_tree true (render true (NDoc [[xff]] [([xff], NNil)]))) <> aval (NDoc [[xff]] [([xff], NNil)]).
Proof. vm_compute. discriminate. Qed.
