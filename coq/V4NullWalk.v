(* V4NullWalk.v -- the legacy package (root patch.go) on the four nodes it writes as null, as OBSERVED by
   running the package (go1.23.5; every sequence with SupportNegativeIndices off and on), and the model
   ImplV4.v evaluated on the same inputs.

   Observed behaviour (A = add /b null, C = copy /b -> /n):
   - an operation value null is a lazyNode with raw == nil (json.Unmarshal leaves the *RawMessage of the
     Operation map nil).  findObject does NOT enter it (next.raw == nil): [A; test /b/x null] -> ErrMissing;
     the same after a move.  Against a test WITHOUT value member it fails (the node is not the nil
     pointer: [A; test /b] -> ErrTestFailed) where a document null or a member added without value passes.
   - deepCopy of that node marshals it (json.Marshal of a nil *RawMessage: null) and stores a lazyNode
     whose raw message is the TEXT null.  A nil pointer (document null, null inside a composite value,
     absent member, add without value) is copied as the nil pointer and stays unenterable.
   - findObject ENTERS the raw text null: intoDoc -> json.Unmarshal("null", &n.doc) succeeds, which = eDoc
     with a nil map.  Below it: get gives nil (test x null / test x without value pass, test x 1 ->
     ErrTestFailed, copy from it copies nil), add / replace / move-to / copy-to -> ErrInvalid,
     remove / move-from -> ErrMissing, one level deeper -> ErrMissing.
   - before a walk went through it the node is null (test /n null passes, test /n {} fails); AFTER a
     walk it is not (which != eRaw): test /n null FAILS, test /n {} PASSES, test /n [] fails; the same
     inside a compared object and after a move of the node.  It is still written as null.
   - deepCopy of the entered node gives the raw text null again (null; enterable).
   - the root document null is the same nil map at the root: test "" null fails, test "" {} passes,
     add/replace/copy-to ErrInvalid, remove ErrMissing, test /a null passes, output null. *)
From JP Require Import Bytes Json Text Strings Den Pointer ImplV5 ImplMerge ImplV4.

Definition run4 (neg : bool) (doc patch : String.string) : result4 :=
  match api_decode4 (B patch) with
  | Some p => api_apply4 (mkOpts4 neg 0 None) [] p (B doc)
  | None => Err4 None EDecode
  end.

(* Go: ERR at op 1: ErrMissing [test operation does not apply: is missing path: /b/x: missing value] *)
Example go_case_01_pos :
  run4 false "{""b"":1}"
       "[{""op"":""add"",""path"":""/b"",""value"":null},{""op"":""test"",""path"":""/b/x"",""value"":null}]"
  = Err4 (Some 1%nat) EMissing.
Proof. vm_compute. reflexivity. Qed.

(* Go: ERR at op 1: ErrMissing [test operation does not apply: is missing path: /b/x: missing value] *)
Example go_case_01_neg :
  run4 true "{""b"":1}"
       "[{""op"":""add"",""path"":""/b"",""value"":null},{""op"":""test"",""path"":""/b/x"",""value"":null}]"
  = Err4 (Some 1%nat) EMissing.
Proof. vm_compute. reflexivity. Qed.

(* Go: OK {'b':null,'n':null} *)
Example go_case_02_pos :
  run4 false "{""b"":1}"
       "[{""op"":""add"",""path"":""/b"",""value"":null},{""op"":""copy"",""from"":""/b"",""path"":""/n""},{""op"":""test"",""path"":""/n/x"",""value"":null}]"
  = Out4 (B "{""b"":null,""n"":null}").
Proof. vm_compute. reflexivity. Qed.

(* Go: OK {'b':null,'n':null} *)
Example go_case_02_neg :
  run4 true "{""b"":1}"
       "[{""op"":""add"",""path"":""/b"",""value"":null},{""op"":""copy"",""from"":""/b"",""path"":""/n""},{""op"":""test"",""path"":""/n/x"",""value"":null}]"
  = Out4 (B "{""b"":null,""n"":null}").
Proof. vm_compute. reflexivity. Qed.

(* Go: ERR at op 2: ErrTestFailed [testing value /n/x failed: test failed] *)
Example go_case_03_pos :
  run4 false "{""b"":1}"
       "[{""op"":""add"",""path"":""/b"",""value"":null},{""op"":""copy"",""from"":""/b"",""path"":""/n""},{""op"":""test"",""path"":""/n/x"",""value"":1}]"
  = Err4 (Some 2%nat) ETestFailed.
Proof. vm_compute. reflexivity. Qed.

(* Go: ERR at op 2: ErrTestFailed [testing value /n/x failed: test failed] *)
Example go_case_03_neg :
  run4 true "{""b"":1}"
       "[{""op"":""add"",""path"":""/b"",""value"":null},{""op"":""copy"",""from"":""/b"",""path"":""/n""},{""op"":""test"",""path"":""/n/x"",""value"":1}]"
  = Err4 (Some 2%nat) ETestFailed.
Proof. vm_compute. reflexivity. Qed.

(* Go: OK {'b':null,'n':null} *)
Example go_case_04_pos :
  run4 false "{""b"":1}"
       "[{""op"":""add"",""path"":""/b"",""value"":null},{""op"":""copy"",""from"":""/b"",""path"":""/n""},{""op"":""test"",""path"":""/n/x""}]"
  = Out4 (B "{""b"":null,""n"":null}").
Proof. vm_compute. reflexivity. Qed.

(* Go: OK {'b':null,'n':null} *)
Example go_case_04_neg :
  run4 true "{""b"":1}"
       "[{""op"":""add"",""path"":""/b"",""value"":null},{""op"":""copy"",""from"":""/b"",""path"":""/n""},{""op"":""test"",""path"":""/n/x""}]"
  = Out4 (B "{""b"":null,""n"":null}").
Proof. vm_compute. reflexivity. Qed.

(* Go: ERR at op 2: ErrInvalid [error in add for path: '/n/x': invalid state detected] *)
Example go_case_05_pos :
  run4 false "{""b"":1}"
       "[{""op"":""add"",""path"":""/b"",""value"":null},{""op"":""copy"",""from"":""/b"",""path"":""/n""},{""op"":""add"",""path"":""/n/x"",""value"":1}]"
  = Err4 (Some 2%nat) EInvalid.
Proof. vm_compute. reflexivity. Qed.

(* Go: ERR at op 2: ErrInvalid [error in add for path: '/n/x': invalid state detected] *)
Example go_case_05_neg :
  run4 true "{""b"":1}"
       "[{""op"":""add"",""path"":""/b"",""value"":null},{""op"":""copy"",""from"":""/b"",""path"":""/n""},{""op"":""add"",""path"":""/n/x"",""value"":1}]"
  = Err4 (Some 2%nat) EInvalid.
Proof. vm_compute. reflexivity. Qed.

(* Go: ERR at op 2: ErrInvalid [error in remove for path: '/n/x': invalid state detected] *)
Example go_case_06_pos :
  run4 false "{""b"":1}"
       "[{""op"":""add"",""path"":""/b"",""value"":null},{""op"":""copy"",""from"":""/b"",""path"":""/n""},{""op"":""replace"",""path"":""/n/x"",""value"":1}]"
  = Err4 (Some 2%nat) EInvalid.
Proof. vm_compute. reflexivity. Qed.

(* Go: ERR at op 2: ErrInvalid [error in remove for path: '/n/x': invalid state detected] *)
Example go_case_06_neg :
  run4 true "{""b"":1}"
       "[{""op"":""add"",""path"":""/b"",""value"":null},{""op"":""copy"",""from"":""/b"",""path"":""/n""},{""op"":""replace"",""path"":""/n/x"",""value"":1}]"
  = Err4 (Some 2%nat) EInvalid.
Proof. vm_compute. reflexivity. Qed.

(* Go: ERR at op 2: ErrMissing [error in remove for path: '/n/x': Unable to remove nonexistent key: x: missing value] *)
Example go_case_07_pos :
  run4 false "{""b"":1}"
       "[{""op"":""add"",""path"":""/b"",""value"":null},{""op"":""copy"",""from"":""/b"",""path"":""/n""},{""op"":""remove"",""path"":""/n/x""}]"
  = Err4 (Some 2%nat) EMissing.
Proof. vm_compute. reflexivity. Qed.

(* Go: ERR at op 2: ErrMissing [error in remove for path: '/n/x': Unable to remove nonexistent key: x: missing value] *)
Example go_case_07_neg :
  run4 true "{""b"":1}"
       "[{""op"":""add"",""path"":""/b"",""value"":null},{""op"":""copy"",""from"":""/b"",""path"":""/n""},{""op"":""remove"",""path"":""/n/x""}]"
  = Err4 (Some 2%nat) EMissing.
Proof. vm_compute. reflexivity. Qed.

(* Go: ERR at op 2: ErrMissing [error in move for path: 'x': Unable to remove nonexistent key: x: missing value] *)
Example go_case_08_pos :
  run4 false "{""b"":1}"
       "[{""op"":""add"",""path"":""/b"",""value"":null},{""op"":""copy"",""from"":""/b"",""path"":""/n""},{""op"":""move"",""from"":""/n/x"",""path"":""/y""}]"
  = Err4 (Some 2%nat) EMissing.
Proof. vm_compute. reflexivity. Qed.

(* Go: ERR at op 2: ErrMissing [error in move for path: 'x': Unable to remove nonexistent key: x: missing value] *)
Example go_case_08_neg :
  run4 true "{""b"":1}"
       "[{""op"":""add"",""path"":""/b"",""value"":null},{""op"":""copy"",""from"":""/b"",""path"":""/n""},{""op"":""move"",""from"":""/n/x"",""path"":""/y""}]"
  = Err4 (Some 2%nat) EMissing.
Proof. vm_compute. reflexivity. Qed.

(* Go: ERR at op 2: ErrInvalid [error in move for path: '/n/x': invalid state detected] *)
Example go_case_09_pos :
  run4 false "{""b"":1}"
       "[{""op"":""add"",""path"":""/b"",""value"":null},{""op"":""copy"",""from"":""/b"",""path"":""/n""},{""op"":""move"",""from"":""/b"",""path"":""/n/x""}]"
  = Err4 (Some 2%nat) EInvalid.
Proof. vm_compute. reflexivity. Qed.

(* Go: ERR at op 2: ErrInvalid [error in move for path: '/n/x': invalid state detected] *)
Example go_case_09_neg :
  run4 true "{""b"":1}"
       "[{""op"":""add"",""path"":""/b"",""value"":null},{""op"":""copy"",""from"":""/b"",""path"":""/n""},{""op"":""move"",""from"":""/b"",""path"":""/n/x""}]"
  = Err4 (Some 2%nat) EInvalid.
Proof. vm_compute. reflexivity. Qed.

(* Go: OK {'b':null,'n':null,'y':null} *)
Example go_case_10_pos :
  run4 false "{""b"":1}"
       "[{""op"":""add"",""path"":""/b"",""value"":null},{""op"":""copy"",""from"":""/b"",""path"":""/n""},{""op"":""copy"",""from"":""/n/x"",""path"":""/y""}]"
  = Out4 (B "{""b"":null,""n"":null,""y"":null}").
Proof. vm_compute. reflexivity. Qed.

(* Go: OK {'b':null,'n':null,'y':null} *)
Example go_case_10_neg :
  run4 true "{""b"":1}"
       "[{""op"":""add"",""path"":""/b"",""value"":null},{""op"":""copy"",""from"":""/b"",""path"":""/n""},{""op"":""copy"",""from"":""/n/x"",""path"":""/y""}]"
  = Out4 (B "{""b"":null,""n"":null,""y"":null}").
Proof. vm_compute. reflexivity. Qed.

(* Go: ERR at op 2: ErrInvalid [error while adding value during copy: invalid state detected] *)
Example go_case_11_pos :
  run4 false "{""b"":1}"
       "[{""op"":""add"",""path"":""/b"",""value"":null},{""op"":""copy"",""from"":""/b"",""path"":""/n""},{""op"":""copy"",""from"":""/b"",""path"":""/n/x""}]"
  = Err4 (Some 2%nat) EInvalid.
Proof. vm_compute. reflexivity. Qed.

(* Go: ERR at op 2: ErrInvalid [error while adding value during copy: invalid state detected] *)
Example go_case_11_neg :
  run4 true "{""b"":1}"
       "[{""op"":""add"",""path"":""/b"",""value"":null},{""op"":""copy"",""from"":""/b"",""path"":""/n""},{""op"":""copy"",""from"":""/b"",""path"":""/n/x""}]"
  = Err4 (Some 2%nat) EInvalid.
Proof. vm_compute. reflexivity. Qed.

(* Go: ERR at op 3: ErrTestFailed [testing value /n failed: test failed] *)
Example go_case_12_pos :
  run4 false "{""b"":1}"
       "[{""op"":""add"",""path"":""/b"",""value"":null},{""op"":""copy"",""from"":""/b"",""path"":""/n""},{""op"":""test"",""path"":""/n/x"",""value"":null},{""op"":""test"",""path"":""/n"",""value"":null}]"
  = Err4 (Some 3%nat) ETestFailed.
Proof. vm_compute. reflexivity. Qed.

(* Go: ERR at op 3: ErrTestFailed [testing value /n failed: test failed] *)
Example go_case_12_neg :
  run4 true "{""b"":1}"
       "[{""op"":""add"",""path"":""/b"",""value"":null},{""op"":""copy"",""from"":""/b"",""path"":""/n""},{""op"":""test"",""path"":""/n/x"",""value"":null},{""op"":""test"",""path"":""/n"",""value"":null}]"
  = Err4 (Some 3%nat) ETestFailed.
Proof. vm_compute. reflexivity. Qed.

(* Go: OK {'b':null,'n':null} *)
Example go_case_13_pos :
  run4 false "{""b"":1}"
       "[{""op"":""add"",""path"":""/b"",""value"":null},{""op"":""copy"",""from"":""/b"",""path"":""/n""},{""op"":""test"",""path"":""/n/x"",""value"":null},{""op"":""test"",""path"":""/n"",""value"":{}}]"
  = Out4 (B "{""b"":null,""n"":null}").
Proof. vm_compute. reflexivity. Qed.

(* Go: OK {'b':null,'n':null} *)
Example go_case_13_neg :
  run4 true "{""b"":1}"
       "[{""op"":""add"",""path"":""/b"",""value"":null},{""op"":""copy"",""from"":""/b"",""path"":""/n""},{""op"":""test"",""path"":""/n/x"",""value"":null},{""op"":""test"",""path"":""/n"",""value"":{}}]"
  = Out4 (B "{""b"":null,""n"":null}").
Proof. vm_compute. reflexivity. Qed.

(* Go: OK {'b':null,'n':null} *)
Example go_case_14_pos :
  run4 false "{""b"":1}"
       "[{""op"":""add"",""path"":""/b"",""value"":null},{""op"":""copy"",""from"":""/b"",""path"":""/n""},{""op"":""test"",""path"":""/n"",""value"":null}]"
  = Out4 (B "{""b"":null,""n"":null}").
Proof. vm_compute. reflexivity. Qed.

(* Go: OK {'b':null,'n':null} *)
Example go_case_14_neg :
  run4 true "{""b"":1}"
       "[{""op"":""add"",""path"":""/b"",""value"":null},{""op"":""copy"",""from"":""/b"",""path"":""/n""},{""op"":""test"",""path"":""/n"",""value"":null}]"
  = Out4 (B "{""b"":null,""n"":null}").
Proof. vm_compute. reflexivity. Qed.

(* Go: ERR at op 2: ErrTestFailed [testing value /n failed: test failed] *)
Example go_case_15_pos :
  run4 false "{""b"":1}"
       "[{""op"":""add"",""path"":""/b"",""value"":null},{""op"":""copy"",""from"":""/b"",""path"":""/n""},{""op"":""test"",""path"":""/n"",""value"":{}}]"
  = Err4 (Some 2%nat) ETestFailed.
Proof. vm_compute. reflexivity. Qed.

(* Go: ERR at op 2: ErrTestFailed [testing value /n failed: test failed] *)
Example go_case_15_neg :
  run4 true "{""b"":1}"
       "[{""op"":""add"",""path"":""/b"",""value"":null},{""op"":""copy"",""from"":""/b"",""path"":""/n""},{""op"":""test"",""path"":""/n"",""value"":{}}]"
  = Err4 (Some 2%nat) ETestFailed.
Proof. vm_compute. reflexivity. Qed.

(* Go: ERR at op 2: ErrMissing [test operation does not apply: is missing path: /n/x/y: missing value] *)
Example go_case_16_pos :
  run4 false "{""b"":1}"
       "[{""op"":""add"",""path"":""/b"",""value"":null},{""op"":""copy"",""from"":""/b"",""path"":""/n""},{""op"":""test"",""path"":""/n/x/y"",""value"":null}]"
  = Err4 (Some 2%nat) EMissing.
Proof. vm_compute. reflexivity. Qed.

(* Go: ERR at op 2: ErrMissing [test operation does not apply: is missing path: /n/x/y: missing value] *)
Example go_case_16_neg :
  run4 true "{""b"":1}"
       "[{""op"":""add"",""path"":""/b"",""value"":null},{""op"":""copy"",""from"":""/b"",""path"":""/n""},{""op"":""test"",""path"":""/n/x/y"",""value"":null}]"
  = Err4 (Some 2%nat) EMissing.
Proof. vm_compute. reflexivity. Qed.

(* Go: OK {'b':null,'m':null,'n':null} *)
Example go_case_17_pos :
  run4 false "{""b"":1}"
       "[{""op"":""add"",""path"":""/b"",""value"":null},{""op"":""copy"",""from"":""/b"",""path"":""/n""},{""op"":""test"",""path"":""/n/x"",""value"":null},{""op"":""copy"",""from"":""/n"",""path"":""/m""},{""op"":""test"",""path"":""/m"",""value"":null},{""op"":""test"",""path"":""/m/q"",""value"":null},{""op"":""test"",""path"":""/m"",""value"":{}}]"
  = Out4 (B "{""b"":null,""m"":null,""n"":null}").
Proof. vm_compute. reflexivity. Qed.

(* Go: OK {'b':null,'m':null,'n':null} *)
Example go_case_17_neg :
  run4 true "{""b"":1}"
       "[{""op"":""add"",""path"":""/b"",""value"":null},{""op"":""copy"",""from"":""/b"",""path"":""/n""},{""op"":""test"",""path"":""/n/x"",""value"":null},{""op"":""copy"",""from"":""/n"",""path"":""/m""},{""op"":""test"",""path"":""/m"",""value"":null},{""op"":""test"",""path"":""/m/q"",""value"":null},{""op"":""test"",""path"":""/m"",""value"":{}}]"
  = Out4 (B "{""b"":null,""m"":null,""n"":null}").
Proof. vm_compute. reflexivity. Qed.

(* Go: OK {'b':null,'m':null} *)
Example go_case_18_pos :
  run4 false "{""b"":1}"
       "[{""op"":""add"",""path"":""/b"",""value"":null},{""op"":""copy"",""from"":""/b"",""path"":""/n""},{""op"":""test"",""path"":""/n/x"",""value"":null},{""op"":""move"",""from"":""/n"",""path"":""/m""},{""op"":""test"",""path"":""/m"",""value"":{}}]"
  = Out4 (B "{""b"":null,""m"":null}").
Proof. vm_compute. reflexivity. Qed.

(* Go: OK {'b':null,'m':null} *)
Example go_case_18_neg :
  run4 true "{""b"":1}"
       "[{""op"":""add"",""path"":""/b"",""value"":null},{""op"":""copy"",""from"":""/b"",""path"":""/n""},{""op"":""test"",""path"":""/n/x"",""value"":null},{""op"":""move"",""from"":""/n"",""path"":""/m""},{""op"":""test"",""path"":""/m"",""value"":{}}]"
  = Out4 (B "{""b"":null,""m"":null}").
Proof. vm_compute. reflexivity. Qed.

(* Go: ERR at op 4: ErrTestFailed [testing value /m failed: test failed] *)
Example go_case_19_pos :
  run4 false "{""b"":1}"
       "[{""op"":""add"",""path"":""/b"",""value"":null},{""op"":""copy"",""from"":""/b"",""path"":""/n""},{""op"":""test"",""path"":""/n/x"",""value"":null},{""op"":""move"",""from"":""/n"",""path"":""/m""},{""op"":""test"",""path"":""/m"",""value"":null}]"
  = Err4 (Some 4%nat) ETestFailed.
Proof. vm_compute. reflexivity. Qed.

(* Go: ERR at op 4: ErrTestFailed [testing value /m failed: test failed] *)
Example go_case_19_neg :
  run4 true "{""b"":1}"
       "[{""op"":""add"",""path"":""/b"",""value"":null},{""op"":""copy"",""from"":""/b"",""path"":""/n""},{""op"":""test"",""path"":""/n/x"",""value"":null},{""op"":""move"",""from"":""/n"",""path"":""/m""},{""op"":""test"",""path"":""/m"",""value"":null}]"
  = Err4 (Some 4%nat) ETestFailed.
Proof. vm_compute. reflexivity. Qed.

(* Go: ERR at op 0: ErrTestFailed [testing value  failed: test failed] *)
Example go_case_20_pos :
  run4 false "null"
       "[{""op"":""test"",""path"":"""",""value"":null}]"
  = Err4 (Some 0%nat) ETestFailed.
Proof. vm_compute. reflexivity. Qed.

(* Go: ERR at op 0: ErrTestFailed [testing value  failed: test failed] *)
Example go_case_20_neg :
  run4 true "null"
       "[{""op"":""test"",""path"":"""",""value"":null}]"
  = Err4 (Some 0%nat) ETestFailed.
Proof. vm_compute. reflexivity. Qed.

(* Go: OK null *)
Example go_case_21_pos :
  run4 false "null"
       "[{""op"":""test"",""path"":"""",""value"":{}}]"
  = Out4 (B "null").
Proof. vm_compute. reflexivity. Qed.

(* Go: OK null *)
Example go_case_21_neg :
  run4 true "null"
       "[{""op"":""test"",""path"":"""",""value"":{}}]"
  = Out4 (B "null").
Proof. vm_compute. reflexivity. Qed.

(* Go: ERR at op 0: ErrInvalid [error in add for path: '/a': invalid state detected] *)
Example go_case_22_pos :
  run4 false "null"
       "[{""op"":""add"",""path"":""/a"",""value"":1}]"
  = Err4 (Some 0%nat) EInvalid.
Proof. vm_compute. reflexivity. Qed.

(* Go: ERR at op 0: ErrInvalid [error in add for path: '/a': invalid state detected] *)
Example go_case_22_neg :
  run4 true "null"
       "[{""op"":""add"",""path"":""/a"",""value"":1}]"
  = Err4 (Some 0%nat) EInvalid.
Proof. vm_compute. reflexivity. Qed.

(* Go: OK null *)
Example go_case_23_pos :
  run4 false "null"
       "[{""op"":""test"",""path"":""/a"",""value"":null}]"
  = Out4 (B "null").
Proof. vm_compute. reflexivity. Qed.

(* Go: OK null *)
Example go_case_23_neg :
  run4 true "null"
       "[{""op"":""test"",""path"":""/a"",""value"":null}]"
  = Out4 (B "null").
Proof. vm_compute. reflexivity. Qed.

(* Go: ERR at op 0: ErrMissing [error in remove for path: '/a': Unable to remove nonexistent key: a: missing value] *)
Example go_case_24_pos :
  run4 false "null"
       "[{""op"":""remove"",""path"":""/a""}]"
  = Err4 (Some 0%nat) EMissing.
Proof. vm_compute. reflexivity. Qed.

(* Go: ERR at op 0: ErrMissing [error in remove for path: '/a': Unable to remove nonexistent key: a: missing value] *)
Example go_case_24_neg :
  run4 true "null"
       "[{""op"":""remove"",""path"":""/a""}]"
  = Err4 (Some 0%nat) EMissing.
Proof. vm_compute. reflexivity. Qed.

(* Go: ERR at op 0: ErrInvalid [error in remove for path: '/a': invalid state detected] *)
Example go_case_25_pos :
  run4 false "null"
       "[{""op"":""replace"",""path"":""/a"",""value"":1}]"
  = Err4 (Some 0%nat) EInvalid.
Proof. vm_compute. reflexivity. Qed.

(* Go: ERR at op 0: ErrInvalid [error in remove for path: '/a': invalid state detected] *)
Example go_case_25_neg :
  run4 true "null"
       "[{""op"":""replace"",""path"":""/a"",""value"":1}]"
  = Err4 (Some 0%nat) EInvalid.
Proof. vm_compute. reflexivity. Qed.

(* Go: ERR at op 0: ErrInvalid [error while adding value during copy: invalid state detected] *)
Example go_case_26_pos :
  run4 false "null"
       "[{""op"":""copy"",""from"":""/a"",""path"":""/b""}]"
  = Err4 (Some 0%nat) EInvalid.
Proof. vm_compute. reflexivity. Qed.

(* Go: ERR at op 0: ErrInvalid [error while adding value during copy: invalid state detected] *)
Example go_case_26_neg :
  run4 true "null"
       "[{""op"":""copy"",""from"":""/a"",""path"":""/b""}]"
  = Err4 (Some 0%nat) EInvalid.
Proof. vm_compute. reflexivity. Qed.

(* Go: ERR at op 0: ErrMissing [test operation does not apply: is missing path: /a/b: missing value] *)
Example go_case_27_pos :
  run4 false "null"
       "[{""op"":""test"",""path"":""/a/b"",""value"":null}]"
  = Err4 (Some 0%nat) EMissing.
Proof. vm_compute. reflexivity. Qed.

(* Go: ERR at op 0: ErrMissing [test operation does not apply: is missing path: /a/b: missing value] *)
Example go_case_27_neg :
  run4 true "null"
       "[{""op"":""test"",""path"":""/a/b"",""value"":null}]"
  = Err4 (Some 0%nat) EMissing.
Proof. vm_compute. reflexivity. Qed.

(* Go: OK [null,null,1] *)
Example go_case_28_pos :
  run4 false "[1]"
       "[{""op"":""add"",""path"":""/0"",""value"":null},{""op"":""copy"",""from"":""/0"",""path"":""/1""},{""op"":""test"",""path"":""/1/x"",""value"":null}]"
  = Out4 (B "[null,null,1]").
Proof. vm_compute. reflexivity. Qed.

(* Go: OK [null,null,1] *)
Example go_case_28_neg :
  run4 true "[1]"
       "[{""op"":""add"",""path"":""/0"",""value"":null},{""op"":""copy"",""from"":""/0"",""path"":""/1""},{""op"":""test"",""path"":""/1/x"",""value"":null}]"
  = Out4 (B "[null,null,1]").
Proof. vm_compute. reflexivity. Qed.

(* Go: ERR at op 2: ErrMissing [test operation does not apply: is missing path: /0/x: missing value] *)
Example go_case_29_pos :
  run4 false "[1]"
       "[{""op"":""add"",""path"":""/0"",""value"":null},{""op"":""copy"",""from"":""/0"",""path"":""/1""},{""op"":""test"",""path"":""/0/x"",""value"":null}]"
  = Err4 (Some 2%nat) EMissing.
Proof. vm_compute. reflexivity. Qed.

(* Go: ERR at op 2: ErrMissing [test operation does not apply: is missing path: /0/x: missing value] *)
Example go_case_29_neg :
  run4 true "[1]"
       "[{""op"":""add"",""path"":""/0"",""value"":null},{""op"":""copy"",""from"":""/0"",""path"":""/1""},{""op"":""test"",""path"":""/0/x"",""value"":null}]"
  = Err4 (Some 2%nat) EMissing.
Proof. vm_compute. reflexivity. Qed.

(* Go: ERR at op 3: ErrTestFailed [testing value  failed: test failed] *)
Example go_case_30_pos :
  run4 false "{""b"":1}"
       "[{""op"":""add"",""path"":""/b"",""value"":null},{""op"":""copy"",""from"":""/b"",""path"":""/n""},{""op"":""test"",""path"":""/n/x"",""value"":null},{""op"":""test"",""path"":"""",""value"":{""b"":null,""n"":null}}]"
  = Err4 (Some 3%nat) ETestFailed.
Proof. vm_compute. reflexivity. Qed.

(* Go: ERR at op 3: ErrTestFailed [testing value  failed: test failed] *)
Example go_case_30_neg :
  run4 true "{""b"":1}"
       "[{""op"":""add"",""path"":""/b"",""value"":null},{""op"":""copy"",""from"":""/b"",""path"":""/n""},{""op"":""test"",""path"":""/n/x"",""value"":null},{""op"":""test"",""path"":"""",""value"":{""b"":null,""n"":null}}]"
  = Err4 (Some 3%nat) ETestFailed.
Proof. vm_compute. reflexivity. Qed.

(* Go: OK {'b':null,'n':null} *)
Example go_case_31_pos :
  run4 false "{""b"":1}"
       "[{""op"":""add"",""path"":""/b"",""value"":null},{""op"":""copy"",""from"":""/b"",""path"":""/n""},{""op"":""test"",""path"":""/n/x"",""value"":null},{""op"":""test"",""path"":"""",""value"":{""b"":null,""n"":{}}}]"
  = Out4 (B "{""b"":null,""n"":null}").
Proof. vm_compute. reflexivity. Qed.

(* Go: OK {'b':null,'n':null} *)
Example go_case_31_neg :
  run4 true "{""b"":1}"
       "[{""op"":""add"",""path"":""/b"",""value"":null},{""op"":""copy"",""from"":""/b"",""path"":""/n""},{""op"":""test"",""path"":""/n/x"",""value"":null},{""op"":""test"",""path"":"""",""value"":{""b"":null,""n"":{}}}]"
  = Out4 (B "{""b"":null,""n"":null}").
Proof. vm_compute. reflexivity. Qed.

(* Go: OK {'b':null,'n':null} *)
Example go_case_32_pos :
  run4 false "{""b"":1}"
       "[{""op"":""add"",""path"":""/b"",""value"":null},{""op"":""copy"",""from"":""/b"",""path"":""/n""},{""op"":""test"",""path"":"""",""value"":{""b"":null,""n"":null}}]"
  = Out4 (B "{""b"":null,""n"":null}").
Proof. vm_compute. reflexivity. Qed.

(* Go: OK {'b':null,'n':null} *)
Example go_case_32_neg :
  run4 true "{""b"":1}"
       "[{""op"":""add"",""path"":""/b"",""value"":null},{""op"":""copy"",""from"":""/b"",""path"":""/n""},{""op"":""test"",""path"":"""",""value"":{""b"":null,""n"":null}}]"
  = Out4 (B "{""b"":null,""n"":null}").
Proof. vm_compute. reflexivity. Qed.

(* Go: ERR at op 2: ErrTestFailed [testing value  failed: test failed] *)
Example go_case_33_pos :
  run4 false "{""b"":1}"
       "[{""op"":""add"",""path"":""/b"",""value"":null},{""op"":""copy"",""from"":""/b"",""path"":""/n""},{""op"":""test"",""path"":"""",""value"":{""b"":null,""n"":{}}}]"
  = Err4 (Some 2%nat) ETestFailed.
Proof. vm_compute. reflexivity. Qed.

(* Go: ERR at op 2: ErrTestFailed [testing value  failed: test failed] *)
Example go_case_33_neg :
  run4 true "{""b"":1}"
       "[{""op"":""add"",""path"":""/b"",""value"":null},{""op"":""copy"",""from"":""/b"",""path"":""/n""},{""op"":""test"",""path"":"""",""value"":{""b"":null,""n"":{}}}]"
  = Err4 (Some 2%nat) ETestFailed.
Proof. vm_compute. reflexivity. Qed.

(* Go: ERR at op 1: ErrTestFailed [testing value /b failed: test failed] *)
Example go_case_34_pos :
  run4 false "{""b"":1}"
       "[{""op"":""add"",""path"":""/b"",""value"":null},{""op"":""test"",""path"":""/b""}]"
  = Err4 (Some 1%nat) ETestFailed.
Proof. vm_compute. reflexivity. Qed.

(* Go: ERR at op 1: ErrTestFailed [testing value /b failed: test failed] *)
Example go_case_34_neg :
  run4 true "{""b"":1}"
       "[{""op"":""add"",""path"":""/b"",""value"":null},{""op"":""test"",""path"":""/b""}]"
  = Err4 (Some 1%nat) ETestFailed.
Proof. vm_compute. reflexivity. Qed.

(* Go: OK {'b':null} *)
Example go_case_35_pos :
  run4 false "{""b"":null}"
       "[{""op"":""test"",""path"":""/b""}]"
  = Out4 (B "{""b"":null}").
Proof. vm_compute. reflexivity. Qed.

(* Go: OK {'b':null} *)
Example go_case_35_neg :
  run4 true "{""b"":null}"
       "[{""op"":""test"",""path"":""/b""}]"
  = Out4 (B "{""b"":null}").
Proof. vm_compute. reflexivity. Qed.

(* Go: OK {'b':null} *)
Example go_case_36_pos :
  run4 false "{""b"":1}"
       "[{""op"":""add"",""path"":""/b""},{""op"":""test"",""path"":""/b""}]"
  = Out4 (B "{""b"":null}").
Proof. vm_compute. reflexivity. Qed.

(* Go: OK {'b':null} *)
Example go_case_36_neg :
  run4 true "{""b"":1}"
       "[{""op"":""add"",""path"":""/b""},{""op"":""test"",""path"":""/b""}]"
  = Out4 (B "{""b"":null}").
Proof. vm_compute. reflexivity. Qed.

(* Go: OK {'b':null} *)
Example go_case_37_pos :
  run4 false "{""b"":1}"
       "[{""op"":""add"",""path"":""/b""},{""op"":""test"",""path"":""/b"",""value"":null}]"
  = Out4 (B "{""b"":null}").
Proof. vm_compute. reflexivity. Qed.

(* Go: OK {'b':null} *)
Example go_case_37_neg :
  run4 true "{""b"":1}"
       "[{""op"":""add"",""path"":""/b""},{""op"":""test"",""path"":""/b"",""value"":null}]"
  = Out4 (B "{""b"":null}").
Proof. vm_compute. reflexivity. Qed.

(* Go: ERR at op 1: ErrMissing [test operation does not apply: is missing path: /n/x: missing value] *)
Example go_case_38_pos :
  run4 false "{""b"":null}"
       "[{""op"":""copy"",""from"":""/b"",""path"":""/n""},{""op"":""test"",""path"":""/n/x"",""value"":null}]"
  = Err4 (Some 1%nat) EMissing.
Proof. vm_compute. reflexivity. Qed.

(* Go: ERR at op 1: ErrMissing [test operation does not apply: is missing path: /n/x: missing value] *)
Example go_case_38_neg :
  run4 true "{""b"":null}"
       "[{""op"":""copy"",""from"":""/b"",""path"":""/n""},{""op"":""test"",""path"":""/n/x"",""value"":null}]"
  = Err4 (Some 1%nat) EMissing.
Proof. vm_compute. reflexivity. Qed.

(* Go: ERR at op 2: ErrMissing [test operation does not apply: is missing path: /n/x: missing value] *)
Example go_case_39_pos :
  run4 false "{""b"":1}"
       "[{""op"":""add"",""path"":""/b""},{""op"":""copy"",""from"":""/b"",""path"":""/n""},{""op"":""test"",""path"":""/n/x"",""value"":null}]"
  = Err4 (Some 2%nat) EMissing.
Proof. vm_compute. reflexivity. Qed.

(* Go: ERR at op 2: ErrMissing [test operation does not apply: is missing path: /n/x: missing value] *)
Example go_case_39_neg :
  run4 true "{""b"":1}"
       "[{""op"":""add"",""path"":""/b""},{""op"":""copy"",""from"":""/b"",""path"":""/n""},{""op"":""test"",""path"":""/n/x"",""value"":null}]"
  = Err4 (Some 2%nat) EMissing.
Proof. vm_compute. reflexivity. Qed.

(* Go: OK {'b':null,'m':null,'n':null} *)
Example go_case_40_pos :
  run4 false "{""b"":1}"
       "[{""op"":""add"",""path"":""/b"",""value"":null},{""op"":""copy"",""from"":""/b"",""path"":""/n""},{""op"":""copy"",""from"":""/n"",""path"":""/m""},{""op"":""test"",""path"":""/m/x"",""value"":null}]"
  = Out4 (B "{""b"":null,""m"":null,""n"":null}").
Proof. vm_compute. reflexivity. Qed.

(* Go: OK {'b':null,'m':null,'n':null} *)
Example go_case_40_neg :
  run4 true "{""b"":1}"
       "[{""op"":""add"",""path"":""/b"",""value"":null},{""op"":""copy"",""from"":""/b"",""path"":""/n""},{""op"":""copy"",""from"":""/n"",""path"":""/m""},{""op"":""test"",""path"":""/m/x"",""value"":null}]"
  = Out4 (B "{""b"":null,""m"":null,""n"":null}").
Proof. vm_compute. reflexivity. Qed.

(* Go: OK {'b':null,'n':null} *)
Example go_case_41_pos :
  run4 false "{""b"":1}"
       "[{""op"":""replace"",""path"":""/b"",""value"":null},{""op"":""copy"",""from"":""/b"",""path"":""/n""},{""op"":""test"",""path"":""/n/x"",""value"":null}]"
  = Out4 (B "{""b"":null,""n"":null}").
Proof. vm_compute. reflexivity. Qed.

(* Go: OK {'b':null,'n':null} *)
Example go_case_41_neg :
  run4 true "{""b"":1}"
       "[{""op"":""replace"",""path"":""/b"",""value"":null},{""op"":""copy"",""from"":""/b"",""path"":""/n""},{""op"":""test"",""path"":""/n/x"",""value"":null}]"
  = Out4 (B "{""b"":null,""n"":null}").
Proof. vm_compute. reflexivity. Qed.

(* Go: ERR at op 2: ErrMissing [test operation does not apply: is missing path: /n/x: missing value] *)
Example go_case_42_pos :
  run4 false "{""b"":1}"
       "[{""op"":""add"",""path"":""/b"",""value"":null},{""op"":""move"",""from"":""/b"",""path"":""/n""},{""op"":""test"",""path"":""/n/x"",""value"":null}]"
  = Err4 (Some 2%nat) EMissing.
Proof. vm_compute. reflexivity. Qed.

(* Go: ERR at op 2: ErrMissing [test operation does not apply: is missing path: /n/x: missing value] *)
Example go_case_42_neg :
  run4 true "{""b"":1}"
       "[{""op"":""add"",""path"":""/b"",""value"":null},{""op"":""move"",""from"":""/b"",""path"":""/n""},{""op"":""test"",""path"":""/n/x"",""value"":null}]"
  = Err4 (Some 2%nat) EMissing.
Proof. vm_compute. reflexivity. Qed.

(* Go: ERR at op 2: ErrMissing [test operation does not apply: is missing path: /n/x: missing value] *)
Example go_case_43_pos :
  run4 false "{""b"":1}"
       "[{""op"":""add"",""path"":""/b"",""value"":{""a"":null}},{""op"":""copy"",""from"":""/b/a"",""path"":""/n""},{""op"":""test"",""path"":""/n/x"",""value"":null}]"
  = Err4 (Some 2%nat) EMissing.
Proof. vm_compute. reflexivity. Qed.

(* Go: ERR at op 2: ErrMissing [test operation does not apply: is missing path: /n/x: missing value] *)
Example go_case_43_neg :
  run4 true "{""b"":1}"
       "[{""op"":""add"",""path"":""/b"",""value"":{""a"":null}},{""op"":""copy"",""from"":""/b/a"",""path"":""/n""},{""op"":""test"",""path"":""/n/x"",""value"":null}]"
  = Err4 (Some 2%nat) EMissing.
Proof. vm_compute. reflexivity. Qed.

(* Go: ERR at op 2: ErrMissing [test operation does not apply: is missing path: /n/x: missing value] *)
Example go_case_44_pos :
  run4 false "{""b"":1}"
       "[{""op"":""add"",""path"":""/b"",""value"":[null]},{""op"":""copy"",""from"":""/b/0"",""path"":""/n""},{""op"":""test"",""path"":""/n/x"",""value"":null}]"
  = Err4 (Some 2%nat) EMissing.
Proof. vm_compute. reflexivity. Qed.

(* Go: ERR at op 2: ErrMissing [test operation does not apply: is missing path: /n/x: missing value] *)
Example go_case_44_neg :
  run4 true "{""b"":1}"
       "[{""op"":""add"",""path"":""/b"",""value"":[null]},{""op"":""copy"",""from"":""/b/0"",""path"":""/n""},{""op"":""test"",""path"":""/n/x"",""value"":null}]"
  = Err4 (Some 2%nat) EMissing.
Proof. vm_compute. reflexivity. Qed.

(* Go: ERR at op 2: ErrInvalid [error in add for path: '/n/0': invalid state detected] *)
Example go_case_45_pos :
  run4 false "{""b"":1}"
       "[{""op"":""add"",""path"":""/b"",""value"":null},{""op"":""copy"",""from"":""/b"",""path"":""/n""},{""op"":""add"",""path"":""/n/0"",""value"":1}]"
  = Err4 (Some 2%nat) EInvalid.
Proof. vm_compute. reflexivity. Qed.

(* Go: ERR at op 2: ErrInvalid [error in add for path: '/n/0': invalid state detected] *)
Example go_case_45_neg :
  run4 true "{""b"":1}"
       "[{""op"":""add"",""path"":""/b"",""value"":null},{""op"":""copy"",""from"":""/b"",""path"":""/n""},{""op"":""add"",""path"":""/n/0"",""value"":1}]"
  = Err4 (Some 2%nat) EInvalid.
Proof. vm_compute. reflexivity. Qed.

(* Go: ERR at op 3: ErrTestFailed [testing value /n failed: test failed] *)
Example go_case_46_pos :
  run4 false "{""b"":1}"
       "[{""op"":""add"",""path"":""/b"",""value"":null},{""op"":""copy"",""from"":""/b"",""path"":""/n""},{""op"":""test"",""path"":""/n/x"",""value"":null},{""op"":""test"",""path"":""/n"",""value"":[]}]"
  = Err4 (Some 3%nat) ETestFailed.
Proof. vm_compute. reflexivity. Qed.

(* Go: ERR at op 3: ErrTestFailed [testing value /n failed: test failed] *)
Example go_case_46_neg :
  run4 true "{""b"":1}"
       "[{""op"":""add"",""path"":""/b"",""value"":null},{""op"":""copy"",""from"":""/b"",""path"":""/n""},{""op"":""test"",""path"":""/n/x"",""value"":null},{""op"":""test"",""path"":""/n"",""value"":[]}]"
  = Err4 (Some 3%nat) ETestFailed.
Proof. vm_compute. reflexivity. Qed.

(* Go: OK {'n':7} *)
Example go_case_47_pos :
  run4 false "{""b"":1}"
       "[{""op"":""add"",""path"":""/b"",""value"":null},{""op"":""copy"",""from"":""/b"",""path"":""/n""},{""op"":""test"",""path"":""/n/x"",""value"":null},{""op"":""replace"",""path"":""/n"",""value"":7},{""op"":""remove"",""path"":""/b""}]"
  = Out4 (B "{""n"":7}").
Proof. vm_compute. reflexivity. Qed.

(* Go: OK {'n':7} *)
Example go_case_47_neg :
  run4 true "{""b"":1}"
       "[{""op"":""add"",""path"":""/b"",""value"":null},{""op"":""copy"",""from"":""/b"",""path"":""/n""},{""op"":""test"",""path"":""/n/x"",""value"":null},{""op"":""replace"",""path"":""/n"",""value"":7},{""op"":""remove"",""path"":""/b""}]"
  = Out4 (B "{""n"":7}").
Proof. vm_compute. reflexivity. Qed.

(* Go: OK {'b':null} *)
Example go_case_48_pos :
  run4 false "{""b"":1}"
       "[{""op"":""add"",""path"":""/b"",""value"":null},{""op"":""copy"",""from"":""/b"",""path"":""/n""},{""op"":""test"",""path"":""/n/x"",""value"":null},{""op"":""remove"",""path"":""/n""}]"
  = Out4 (B "{""b"":null}").
Proof. vm_compute. reflexivity. Qed.

(* Go: OK {'b':null} *)
Example go_case_48_neg :
  run4 true "{""b"":1}"
       "[{""op"":""add"",""path"":""/b"",""value"":null},{""op"":""copy"",""from"":""/b"",""path"":""/n""},{""op"":""test"",""path"":""/n/x"",""value"":null},{""op"":""remove"",""path"":""/n""}]"
  = Out4 (B "{""b"":null}").
Proof. vm_compute. reflexivity. Qed.

(* Go: OK {'b':null,'n2':null} *)
Example go_case_49_pos :
  run4 false "{ ""b"":""foo bar""}"
       "[{""op"":""add"",""path"":""/b"",""value"":null},{""op"":""copy"",""from"":""/b"",""path"":""/n2""},{""op"":""test"",""path"":""/b"",""value"":null},{""op"":""test"",""path"":""/n2/-"",""value"":null}]"
  = Out4 (B "{""b"":null,""n2"":null}").
Proof. vm_compute. reflexivity. Qed.

(* Go: OK {'b':null,'n2':null} *)
Example go_case_49_neg :
  run4 true "{ ""b"":""foo bar""}"
       "[{""op"":""add"",""path"":""/b"",""value"":null},{""op"":""copy"",""from"":""/b"",""path"":""/n2""},{""op"":""test"",""path"":""/b"",""value"":null},{""op"":""test"",""path"":""/n2/-"",""value"":null}]"
  = Out4 (B "{""b"":null,""n2"":null}").
Proof. vm_compute. reflexivity. Qed.

(* Go: OK {'-':null,'c':null,'n2':null,'~0':'m~n'} *)
Example go_case_50_pos :
  run4 false "{""-"":2.50,""c"":""a/b"",""~0"":""m~n""}"
       "[{""op"":""add"",""path"":""/c"",""value"":null},{""op"":""copy"",""from"":""/c"",""path"":""/n2""},{""op"":""test"",""path"":""/c"",""value"":null},{""op"":""add"",""path"":""/-"",""value"":""x""},{""op"":""copy"",""from"":""/n2/-"",""path"":""/-""}]"
  = Out4 (B "{""-"":null,""c"":null,""n2"":null,""~0"":""m~n""}").
Proof. vm_compute. reflexivity. Qed.

(* Go: OK {'-':null,'c':null,'n2':null,'~0':'m~n'} *)
Example go_case_50_neg :
  run4 true "{""-"":2.50,""c"":""a/b"",""~0"":""m~n""}"
       "[{""op"":""add"",""path"":""/c"",""value"":null},{""op"":""copy"",""from"":""/c"",""path"":""/n2""},{""op"":""test"",""path"":""/c"",""value"":null},{""op"":""add"",""path"":""/-"",""value"":""x""},{""op"":""copy"",""from"":""/n2/-"",""path"":""/-""}]"
  = Out4 (B "{""-"":null,""c"":null,""n2"":null,""~0"":""m~n""}").
Proof. vm_compute. reflexivity. Qed.

(* ---- the copy counter (AccumulatedCopySizeLimit), observed: a nil pointer counts 0; the node with a nil
   raw message, the raw text null and the entered nil map count 4 each ---- *)
Definition run4l (limit : Z) (doc patch : String.string) : result4 :=
  match api_decode4 (B patch) with
  | Some p => api_apply4 (mkOpts4 true limit None) [] p (B doc)
  | None => Err4 None EDecode
  end.

(* Go: limit 3: accumulated size 4 exceeds 3; limit 4: ok *)
Example go_limit_raw_nil_counts_4 :
  run4l 3 "{""b"":1}" "[{""op"":""add"",""path"":""/b"",""value"":null},{""op"":""copy"",""from"":""/b"",""path"":""/n""}]"
  = Err4 (Some 1%nat) (ECopyLimit 3 4) /\
  run4l 4 "{""b"":1}" "[{""op"":""add"",""path"":""/b"",""value"":null},{""op"":""copy"",""from"":""/b"",""path"":""/n""}]"
  = Out4 (B "{""b"":null,""n"":null}").
Proof. vm_compute. split; reflexivity. Qed.

(* Go: a document null is the nil pointer: counts 0 *)
Example go_limit_nil_counts_0 :
  run4l 3 "{""b"":null}" "[{""op"":""copy"",""from"":""/b"",""path"":""/n""}]" = Out4 (B "{""b"":null,""n"":null}").
Proof. vm_compute. reflexivity. Qed.

(* Go: the entered nil map and the raw text null count 4: total 8 *)
Example go_limit_nil_map_counts_4 :
  run4l 7 "{""b"":1}" "[{""op"":""add"",""path"":""/b"",""value"":null},{""op"":""copy"",""from"":""/b"",""path"":""/n""},{""op"":""test"",""path"":""/n/x"",""value"":null},{""op"":""copy"",""from"":""/n"",""path"":""/m""}]"
  = Err4 (Some 3%nat) (ECopyLimit 7 8) /\
  run4l 8 "{""b"":1}" "[{""op"":""add"",""path"":""/b"",""value"":null},{""op"":""copy"",""from"":""/b"",""path"":""/n""},{""op"":""test"",""path"":""/n/x"",""value"":null},{""op"":""copy"",""from"":""/n"",""path"":""/m""}]"
  = Out4 (B "{""b"":null,""m"":null,""n"":null}") /\
  run4l 7 "{""b"":1}" "[{""op"":""add"",""path"":""/b"",""value"":null},{""op"":""copy"",""from"":""/b"",""path"":""/n""},{""op"":""copy"",""from"":""/n"",""path"":""/m""}]"
  = Err4 (Some 2%nat) (ECopyLimit 7 8).
Proof. vm_compute. repeat split; reflexivity. Qed.

(* ---- more sequences: the tagged nodes inside arrays and nested objects, copies of entered nodes ---- *)
(* Go: OK [null,null,1,null] *)
Example go_more_01_pos :
  run4 false "[1]"
       "[{""op"":""add"",""path"":""/0"",""value"":null},{""op"":""copy"",""from"":""/0"",""path"":""/1""},{""op"":""test"",""path"":""/1/x"",""value"":null},{""op"":""copy"",""from"":""/1"",""path"":""/-""},{""op"":""test"",""path"":""/3/y"",""value"":null},{""op"":""test"",""path"":"""",""value"":[null,{},1,{}]}]"
  = Out4 (B "[null,null,1,null]").
Proof. vm_compute. reflexivity. Qed.

(* Go: OK [null,null,1,null] *)
Example go_more_01_neg :
  run4 true "[1]"
       "[{""op"":""add"",""path"":""/0"",""value"":null},{""op"":""copy"",""from"":""/0"",""path"":""/1""},{""op"":""test"",""path"":""/1/x"",""value"":null},{""op"":""copy"",""from"":""/1"",""path"":""/-""},{""op"":""test"",""path"":""/3/y"",""value"":null},{""op"":""test"",""path"":"""",""value"":[null,{},1,{}]}]"
  = Out4 (B "[null,null,1,null]").
Proof. vm_compute. reflexivity. Qed.

(* Go: OK [null,null,1,null] *)
Example go_more_02_pos :
  run4 false "[1]"
       "[{""op"":""add"",""path"":""/0"",""value"":null},{""op"":""copy"",""from"":""/0"",""path"":""/1""},{""op"":""test"",""path"":""/1/x"",""value"":null},{""op"":""copy"",""from"":""/1"",""path"":""/-""},{""op"":""test"",""path"":"""",""value"":[null,{},1,null]}]"
  = Out4 (B "[null,null,1,null]").
Proof. vm_compute. reflexivity. Qed.

(* Go: OK [null,null,1,null] *)
Example go_more_02_neg :
  run4 true "[1]"
       "[{""op"":""add"",""path"":""/0"",""value"":null},{""op"":""copy"",""from"":""/0"",""path"":""/1""},{""op"":""test"",""path"":""/1/x"",""value"":null},{""op"":""copy"",""from"":""/1"",""path"":""/-""},{""op"":""test"",""path"":"""",""value"":[null,{},1,null]}]"
  = Out4 (B "[null,null,1,null]").
Proof. vm_compute. reflexivity. Qed.

(* Go: OK [1,5] *)
Example go_more_03_pos :
  run4 false "[1]"
       "[{""op"":""add"",""path"":""/0"",""value"":null},{""op"":""copy"",""from"":""/0"",""path"":""/1""},{""op"":""move"",""from"":""/1"",""path"":""/-""},{""op"":""test"",""path"":""/2/q"",""value"":null},{""op"":""replace"",""path"":""/2"",""value"":5},{""op"":""remove"",""path"":""/0""}]"
  = Out4 (B "[1,5]").
Proof. vm_compute. reflexivity. Qed.

(* Go: OK [1,5] *)
Example go_more_03_neg :
  run4 true "[1]"
       "[{""op"":""add"",""path"":""/0"",""value"":null},{""op"":""copy"",""from"":""/0"",""path"":""/1""},{""op"":""move"",""from"":""/1"",""path"":""/-""},{""op"":""test"",""path"":""/2/q"",""value"":null},{""op"":""replace"",""path"":""/2"",""value"":5},{""op"":""remove"",""path"":""/0""}]"
  = Out4 (B "[1,5]").
Proof. vm_compute. reflexivity. Qed.

(* Go: ERR at op 4: ErrMissing [test operation does not apply: is missing path: /c/j/z: missing value] *)
Example go_more_04_pos :
  run4 false "{""a"":{""k"":1}}"
       "[{""op"":""replace"",""path"":""/a/k"",""value"":null},{""op"":""copy"",""from"":""/a/k"",""path"":""/a/j""},{""op"":""test"",""path"":""/a/j/z""},{""op"":""copy"",""from"":""/a"",""path"":""/c""},{""op"":""test"",""path"":""/c/j/z"",""value"":null}]"
  = Err4 (Some 4%nat) EMissing.
Proof. vm_compute. reflexivity. Qed.

(* Go: ERR at op 4: ErrMissing [test operation does not apply: is missing path: /c/j/z: missing value] *)
Example go_more_04_neg :
  run4 true "{""a"":{""k"":1}}"
       "[{""op"":""replace"",""path"":""/a/k"",""value"":null},{""op"":""copy"",""from"":""/a/k"",""path"":""/a/j""},{""op"":""test"",""path"":""/a/j/z""},{""op"":""copy"",""from"":""/a"",""path"":""/c""},{""op"":""test"",""path"":""/c/j/z"",""value"":null}]"
  = Err4 (Some 4%nat) EMissing.
Proof. vm_compute. reflexivity. Qed.

(* Go: ERR at op 4: ErrTestFailed [testing value /a failed: test failed] *)
Example go_more_05_pos :
  run4 false "{""a"":{""k"":1}}"
       "[{""op"":""replace"",""path"":""/a/k"",""value"":null},{""op"":""copy"",""from"":""/a/k"",""path"":""/a/j""},{""op"":""test"",""path"":""/a/j/z""},{""op"":""test"",""path"":""/a"",""value"":{""k"":null,""j"":{}}},{""op"":""test"",""path"":""/a"",""value"":{""k"":null,""j"":null}}]"
  = Err4 (Some 4%nat) ETestFailed.
Proof. vm_compute. reflexivity. Qed.

(* Go: ERR at op 4: ErrTestFailed [testing value /a failed: test failed] *)
Example go_more_05_neg :
  run4 true "{""a"":{""k"":1}}"
       "[{""op"":""replace"",""path"":""/a/k"",""value"":null},{""op"":""copy"",""from"":""/a/k"",""path"":""/a/j""},{""op"":""test"",""path"":""/a/j/z""},{""op"":""test"",""path"":""/a"",""value"":{""k"":null,""j"":{}}},{""op"":""test"",""path"":""/a"",""value"":{""k"":null,""j"":null}}]"
  = Err4 (Some 4%nat) ETestFailed.
Proof. vm_compute. reflexivity. Qed.

(* Go: ERR at op 2: ErrInvalid [error while adding value during copy: invalid state detected] *)
Example go_more_06_pos :
  run4 false "{""a"":{""k"":1}}"
       "[{""op"":""replace"",""path"":""/a/k"",""value"":null},{""op"":""copy"",""from"":""/a/k"",""path"":""/a/j""},{""op"":""copy"",""from"":""/a/j"",""path"":""/a/j/deep""}]"
  = Err4 (Some 2%nat) EInvalid.
Proof. vm_compute. reflexivity. Qed.

(* Go: ERR at op 2: ErrInvalid [error while adding value during copy: invalid state detected] *)
Example go_more_06_neg :
  run4 true "{""a"":{""k"":1}}"
       "[{""op"":""replace"",""path"":""/a/k"",""value"":null},{""op"":""copy"",""from"":""/a/k"",""path"":""/a/j""},{""op"":""copy"",""from"":""/a/j"",""path"":""/a/j/deep""}]"
  = Err4 (Some 2%nat) EInvalid.
Proof. vm_compute. reflexivity. Qed.

(* Go: ERR at op 3: ErrMissing [test operation does not apply: is missing path: /a/i/x: missing value] *)
Example go_more_07_pos :
  run4 false "{""a"":{""k"":1}}"
       "[{""op"":""replace"",""path"":""/a/k"",""value"":null},{""op"":""copy"",""from"":""/a/k"",""path"":""/a/j""},{""op"":""copy"",""from"":""/a/j/zz"",""path"":""/a/i""},{""op"":""test"",""path"":""/a/i/x"",""value"":null}]"
  = Err4 (Some 3%nat) EMissing.
Proof. vm_compute. reflexivity. Qed.

(* Go: ERR at op 3: ErrMissing [test operation does not apply: is missing path: /a/i/x: missing value] *)
Example go_more_07_neg :
  run4 true "{""a"":{""k"":1}}"
       "[{""op"":""replace"",""path"":""/a/k"",""value"":null},{""op"":""copy"",""from"":""/a/k"",""path"":""/a/j""},{""op"":""copy"",""from"":""/a/j/zz"",""path"":""/a/i""},{""op"":""test"",""path"":""/a/i/x"",""value"":null}]"
  = Err4 (Some 3%nat) EMissing.
Proof. vm_compute. reflexivity. Qed.

(* Go: ERR at op 4: ErrMissing [test operation does not apply: is missing path: /a/j/x: missing value] *)
Example go_more_08_pos :
  run4 false "{""a"":{""k"":1}}"
       "[{""op"":""replace"",""path"":""/a/k"",""value"":null},{""op"":""move"",""from"":""/a/k"",""path"":""/a/j""},{""op"":""copy"",""from"":""/a/j"",""path"":""/a/i""},{""op"":""test"",""path"":""/a/i/x""},{""op"":""test"",""path"":""/a/j/x""}]"
  = Err4 (Some 4%nat) EMissing.
Proof. vm_compute. reflexivity. Qed.

(* Go: ERR at op 4: ErrMissing [test operation does not apply: is missing path: /a/j/x: missing value] *)
Example go_more_08_neg :
  run4 true "{""a"":{""k"":1}}"
       "[{""op"":""replace"",""path"":""/a/k"",""value"":null},{""op"":""move"",""from"":""/a/k"",""path"":""/a/j""},{""op"":""copy"",""from"":""/a/j"",""path"":""/a/i""},{""op"":""test"",""path"":""/a/i/x""},{""op"":""test"",""path"":""/a/j/x""}]"
  = Err4 (Some 4%nat) EMissing.
Proof. vm_compute. reflexivity. Qed.

(* Go: ERR at op 0: ErrMissing [copy operation does not apply: doc is missing destination path: /b/c: missing value] *)
Example go_more_09_pos :
  run4 false "null"
       "[{""op"":""copy"",""from"":""/a"",""path"":""/b/c""}]"
  = Err4 (Some 0%nat) EMissing.
Proof. vm_compute. reflexivity. Qed.

(* Go: ERR at op 0: ErrMissing [copy operation does not apply: doc is missing destination path: /b/c: missing value] *)
Example go_more_09_neg :
  run4 true "null"
       "[{""op"":""copy"",""from"":""/a"",""path"":""/b/c""}]"
  = Err4 (Some 0%nat) EMissing.
Proof. vm_compute. reflexivity. Qed.

(* Go: ERR at op 2: ErrTestFailed [testing value /a failed: test failed] *)
Example go_more_10_pos :
  run4 false "{""a"":null}"
       "[{""op"":""test"",""path"":""/a"",""value"":null},{""op"":""replace"",""path"":""/a"",""value"":null},{""op"":""test"",""path"":""/a""},{""op"":""test"",""path"":""/a"",""value"":null}]"
  = Err4 (Some 2%nat) ETestFailed.
Proof. vm_compute. reflexivity. Qed.

(* Go: ERR at op 2: ErrTestFailed [testing value /a failed: test failed] *)
Example go_more_10_neg :
  run4 true "{""a"":null}"
       "[{""op"":""test"",""path"":""/a"",""value"":null},{""op"":""replace"",""path"":""/a"",""value"":null},{""op"":""test"",""path"":""/a""},{""op"":""test"",""path"":""/a"",""value"":null}]"
  = Err4 (Some 2%nat) ETestFailed.
Proof. vm_compute. reflexivity. Qed.
