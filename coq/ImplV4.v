(* ImplV4.v — executable model of the legacy root package (patch.go, merge.go: the v4 API).
   No proofs here.  Differences from v5 that matter (see DESIGN 3.3): a partialDoc is a bare Go map
   (no key order: the standard encoder sorts member names), get on an object never fails (an absent
   member reads as nil), replace on an absent member adds it, there are no Valid gates and no
   options struct (SupportNegativeIndices and AccumulatedCopySizeLimit are package variables),
   DecodePatch validates nothing, Equal compares string SPELLINGS, output is always HTML-escaped. *)
From JP Require Import Bytes Json Text Strings Den Pointer ImplV5 ImplMerge.

(* nodes reuse ImplV5.node.  A live partialDoc is NDoc [] obj (the key list of a live map is always []).
   The legacy package has FOUR nodes that are written as null, and it tells them apart (observed by
   running the package, see V4NullWalk.v):
     NNil        a nil *lazyNode: a null the decoder read in a document or inside a composite value,
                 an absent member read by get, the value of an operation without a value member;
     NRaw TNull  a lazyNode with raw == nil (raw_nil4): the operation value null (json.Unmarshal sets
                 the *RawMessage of the Operation map to nil).  findObject does not enter it, isNull
                 holds, test against an operation WITHOUT value fails (the node is not nil);
     raw_null4   a lazyNode whose raw message is the four bytes null, which == eRaw: what deepCopy makes
                 of every non-nil node that marshals as null.  isNull holds; findObject ENTERS it:
                 intoDoc unmarshals null into the nil map without error and sets which = eDoc;
     nil_doc4    which == eDoc with a nil map: raw_null4 after a walk went through it.  Not isNull;
                 equal to {}; get gives nil, add/set give ErrInvalid, remove ErrMissing (like the
                 root document null, DDocNil); still marshalled as null.
   The last two are NDoc with a NON-EMPTY key list and no members: the key list is the tag. *)
Definition raw_nil4 : node := NRaw TNull.
Definition raw_null4 : node := NDoc [B "null"] [].   (* tag: a non-empty first entry *)
Definition nil_doc4 : node := NDoc [[]] [].          (* tag: an empty first entry *)

Record opts4 := mkOpts4 { g_neg : bool; g_limit : Z; g_nullsz : option Z }.

Definition o5 (g : opts4) : opts := mkOpts (g_neg g) (g_limit g) false false true [] (g_nullsz g).

Definition obj_of (ms : list (bytes * tjson)) : list (bytes * node) := build_obj ms [].

(* rendering: members sorted by decoded name (encoding/json sorts map keys), HTML-escaped *)
Fixpoint render4 (n : node) : tjson :=
  match n with
  | NNil => TNull
  | NRaw t => t
  | NDoc [] obj =>
      TObj (map (fun kv => (quote true (fst kv), snd kv))
                (fold_left (fun acc kv => insert_sorted kv acc)
                           (map (fun kv => (fst kv, render4 (snd kv))) obj) []))
  | NDoc (_ :: _) _ => TNull        (* raw_null4, nil_doc4: json.Marshal of the text null / of a nil map *)
  | NAry ns => TArr (map render4 ns)
  end.

Inductive con4 :=
| DDoc (obj : list (bytes * node))
| DDocNil                         (* nil map: the document null *)
| DAry (nodes : list node).

Definition node_of_con4 (c : con4) : node :=
  match c with
  | DDoc obj => NDoc [] obj
  | DDocNil => nil_doc4
  | DAry ns => NAry ns
  end.

Definition con4_get (g : opts4) (c : con4) (key : bytes) : res node :=
  match c with
  | DDoc obj => Ok (match aget key obj with Some v => v | None => NNil end)
  | DDocNil => Ok NNil
  | DAry ns =>
      match resolve_idx_get (o5 g) (zlen ns) key with
      | Ok i => Ok (nth i ns NNil)
      | Err e => Err e
      | Panic => Panic
      end
  end.

Definition con4_add (g : opts4) (c : con4) (key : bytes) (v : node) : res con4 :=
  match c with
  | DDoc obj => Ok (DDoc (aset key v obj))
  | DDocNil => Err EInvalid
  | DAry ns =>
      match ary_add (o5 g) ns key v with
      | Ok ns' => Ok (DAry ns') | Err e => Err e | Panic => Panic
      end
  end.

Definition con4_set (g : opts4) (c : con4) (key : bytes) (v : node) : res con4 :=
  match c with
  | DDoc obj => Ok (DDoc (aset key v obj))
  | DDocNil => Err EInvalid
  | DAry ns =>
      match ary_set (o5 g) ns key v with
      | Ok ns' => Ok (DAry ns') | Err e => Err e | Panic => Panic
      end
  end.

Definition con4_remove (g : opts4) (c : con4) (key : bytes) : res con4 :=
  match c with
  | DDoc obj => if amem key obj then Ok (DDoc (adel key obj)) else Err EMissing
  | DDocNil => Err EMissing
  | DAry ns =>
      match ary_remove (o5 g) ns key with
      | Ok ns' => Ok (DAry ns') | Err e => Err e | Panic => Panic
      end
  end.

(* findObject: next == nil || err != nil || next.raw == nil -> nil; isArray(raw) ? intoAry : intoDoc.
   intoDoc of the raw text null succeeds: json.Unmarshal("null", &n.doc) leaves the nil map *)
Definition into_con4 (n : node) : option con4 :=
  match n with
  | NRaw (TObj ms) => Some (DDoc (obj_of ms))
  | NRaw (TArr l) => Some (DAry (map child l))
  | NDoc [] obj => Some (DDoc obj)
  | NDoc (_ :: _) _ => Some DDocNil
  | NAry ns => Some (DAry ns)
  | _ => None
  end.

Definition con4_put (g : opts4) (c : con4) (key : bytes) (ch : node) : con4 :=
  match c with
  | DDoc obj => DDoc (aset key ch obj)
  | DDocNil => c
  | DAry ns =>
      match resolve_idx_get (o5 g) (zlen ns) key with
      | Ok i => DAry (firstn i ns ++ ch :: skipn (S i) ns)
      | _ => c
      end
  end.

Fixpoint walk4 {A} (g : opts4) (parts : list bytes) (c : con4) (f : con4 -> A * con4) {struct parts}
  : option A * con4 :=
  match parts with
  | [] => let (a, c') := f c in (Some a, c')
  | p :: rest =>
      let key := decode_token p in
      match con4_get g c key with
      | Ok next =>
          match into_con4 next with
          | Some ch => let (r, ch') := walk4 g rest ch f in (r, con4_put g c key (node_of_con4 ch'))
          | None => (None, c)
          end
      | _ => (None, c)
      end
  end.

(* findObject: fewer than two pieces -> nil (also for "") *)
Definition find4 {A} (g : opts4) (c : con4) (path : bytes) (f : con4 -> bytes -> A * con4) : option A * con4 :=
  match split_path path with
  | None => (None, c)
  | Some (parts, key) => walk4 g parts c (fun c' => f c' key)
  end.

(* equal: strings by spelling *)
(* n == nil (pruneNulls of merge.go, val == nil of test) *)
Definition is_null4 (n : node) : bool := match n with NNil => true | _ => false end.

(* isNull: n == nil, or which == eRaw and (raw == nil or the raw text is null) *)
Definition null4 (n : node) : bool :=
  match n with
  | NNil => true
  | NRaw TNull => true
  | NDoc ((_ :: _) :: _) _ => true
  | _ => false
  end.

Definition shape4 (n : node) : shape :=
  match n with
  | NNil => SLeaf TNull
  | NRaw (TObj ms) => SDoc (obj_of ms)
  | NRaw (TArr l) => SAry (map child l)
  | NRaw t => SLeaf t
  | NDoc _ obj => SDoc obj
  | NAry ns => SAry ns
  end.

Fixpoint equal4 (fuel : nat) (n o : node) {struct fuel} : bool :=
  match fuel with
  | O => false
  | S f =>
      if null4 n || null4 o then null4 n && null4 o else
      match shape4 n, shape4 o with
      | SLeaf a, SLeaf b => bseq (print false a) (print false b)
      | SLeaf _, _ => false
      | SDoc m, SDoc m' =>
          (length m =? length m')%nat &&
          forallb (fun kv => match aget (fst kv) m' with
                             | Some ov => equal4 f (snd kv) ov
                             | None => false
                             end) m
      | SDoc _, _ => false
      | SAry l, SAry l' =>
          (length l =? length l')%nat &&
          (fix go (l l' : list node) : bool :=
             match l, l' with
             | x :: r, y :: r' => equal4 f x y && go r r'
             | _, _ => true
             end) l l'
      | SAry _, _ => false
      end
  end.

Definition node_equal4 (n o : node) : bool := equal4 (nsize n + nsize o) n o.

(* op.value(): a null value member is a node with a nil raw message (raw_nil4), not the nil node *)
Definition op_value4 (op : operation) : option node :=
  match aget (B "value") op with
  | Some None => Some raw_nil4
  | Some (Some t) => Some (NRaw t)
  | None => None
  end.

Record state4 := mkState4 { r4 : con4; acc4 : Z }.

Definition deep_copy4 (g : opts4) (n : node) : node * Z :=
  match n with
  | NNil => (NNil, match g_nullsz g with Some z => z | None => 0%Z end)
  | _ => let t := render4 n in
         (* a node that marshals as null (raw_nil4, raw_null4, nil_doc4) is copied as the raw text null *)
         (match t with TNull => raw_null4 | _ => NRaw (escape_tree true t) end, zlen (print true t))
  end.

Definition lift4 {A} (r : option (res A) * con4) (st : state4) (k : A -> con4 -> res state4) : res state4 :=
  match r with
  | (Some (Ok a), c) => k a c
  | (Some (Err e), _) => Err e
  | (Some Panic, _) => Panic
  | (None, _) => Err EMissing
  end.

Definition upd {A} (r : res con4) (c : con4) (a : A) : res A * con4 :=
  match r with Ok c' => (Ok a, c') | Err e => (Err e, c) | Panic => (Panic, c) end.

Definition step4 (g : opts4) (st : state4) (op : operation) : res state4 :=
  let c := r4 st in
  let vnode := match op_value4 op with Some v => v | None => NNil end in
  match op_kind op with
  | KAdd =>
      match op_str op (B "path") with
      | Ok path => lift4 (find4 g c path (fun c' key => upd (con4_add g c' key vnode) c' tt)) st
                         (fun _ c2 => Ok (mkState4 c2 (acc4 st)))
      | _ => Err EMissing
      end
  | KRemove =>
      match op_str op (B "path") with
      | Ok path => lift4 (find4 g c path (fun c' key => upd (con4_remove g c' key) c' tt)) st
                         (fun _ c2 => Ok (mkState4 c2 (acc4 st)))
      | _ => Err EMissing
      end
  | KReplace =>
      match op_str op (B "path") with
      | Ok [] =>
          match op_value4 op with
          | Some (NRaw (TObj ms)) => Ok (mkState4 (DDoc (obj_of ms)) (acc4 st))
          | Some (NRaw (TArr l)) => Ok (mkState4 (DAry (map child l)) (acc4 st))
          | Some _ => Err EOther
          | None => Err EMissing            (* no value member: reported as ErrMissing (fix 1a7093a) *)
          end
      | Ok path =>
          lift4 (find4 g c path (fun c' key =>
                                   match con4_get g c' key with
                                   | Ok _ => upd (con4_set g c' key vnode) c' tt
                                   | Err _ => (Err EMissing, c')
                                   | Panic => (Panic, c')
                                   end)) st
                (fun _ c2 => Ok (mkState4 c2 (acc4 st)))
      | Err e => Err e
      | Panic => Panic
      end
  | KMove =>
      match op_str op (B "from") with
      | Ok from =>
          lift4 (find4 g c from (fun c' key =>
                                   match con4_get g c' key with
                                   | Ok v => upd (con4_remove g c' key) c' v
                                   | Err e => (Err e, c')
                                   | Panic => (Panic, c')
                                   end)) st
                (fun v c1 =>
                   match op_str op (B "path") with
                   | Ok path => lift4 (find4 g c1 path (fun c' key => upd (con4_add g c' key v) c' tt)) st
                                      (fun _ c2 => Ok (mkState4 c2 (acc4 st)))
                   | Err e => Err e
                   | Panic => Panic
                   end)
      | Err e => Err e
      | Panic => Panic
      end
  | KCopy =>
      match op_str op (B "from") with
      | Ok from =>
          lift4 (find4 g c from (fun c' key => (con4_get g c' key, c'))) st
                (fun _ c1 =>
                   match op_str op (B "path") with
                   | Ok path =>
                       match find4 g c1 path (fun c' key => (tt, c')) with
                       | (Some _, c2) =>
                           lift4 (find4 g c2 from (fun c' key => (con4_get g c' key, c'))) st
                                 (fun v _ =>
                                    let (cp, sz) := deep_copy4 g v in
                                    let acc := (acc4 st + sz)%Z in
                                    if (0 <? g_limit g)%Z && (g_limit g <? acc)%Z then Err (ECopyLimit (g_limit g) acc)
                                    else lift4 (find4 g c2 path (fun c' key => upd (con4_add g c' key cp) c' tt)) st
                                               (fun _ c3 => Ok (mkState4 c3 acc)))
                       | (None, _) => Err EMissing
                       end
                   | _ => Err EMissing
                   end)
      | Err e => Err e
      | Panic => Panic
      end
  | KTest =>
      match op_str op (B "path") with
      | Ok [] =>
          if node_equal4 (node_of_con4 c) vnode && negb (is_null4 vnode) then Ok st else Err ETestFailed
      | Ok path =>
          lift4 (find4 g c path (fun c' key =>
                                   match con4_get g c' key with
                                   | Ok v =>
                                       (* val == nil: passes iff op.value() == nil || op.value().raw == nil *)
                                       if is_null4 v then ((if null4 vnode then Ok tt else Err ETestFailed), c')
                                       else match op_value4 op with
                                            | None => (Err ETestFailed, c')
                                            | Some ov => ((if node_equal4 v ov then Ok tt else Err ETestFailed), c')
                                            end
                                   | Err e => (Err e, c')
                                   | Panic => (Panic, c')
                                   end)) st
                (fun _ c2 => Ok (mkState4 c2 (acc4 st)))
      | Err e => Err e
      | Panic => Panic
      end
  | KUnknown => Err EOther
  end.

Fixpoint apply4_from (g : opts4) (i : nat) (st : state4) (p : list operation) : res state4 * nat :=
  match p with
  | [] => (Ok st, i)
  | op :: rest =>
      match step4 g st op with
      | Ok st' => apply4_from g (S i) st' rest
      | r => (r, i)
      end
  end.

(* DecodePatch: json.Unmarshal into []map[string]*RawMessage, nothing else *)
Definition decode4_t (t : tjson) : option (list operation) :=
  match t with
  | TNull => Some []
  | TArr els =>
      if forallb (fun e => match e with TObj _ | TNull => true | _ => false end) els
      then Some (map (fun e => match e with TObj ms => operation_of ms | _ => [] end) els)
      else None
  | _ => None
  end.

Definition api_decode4 (bs : bytes) : option (list operation) :=
  match parse bs with Some t => decode4_t t | None => None end.

Inductive result4 :=
| Out4 (out : bytes)
| Err4 (index : option nat) (e : errclass)
| Panic4.

Definition api_apply4 (g : opts4) (indent : bytes) (p : list operation) (doc : bytes) : result4 :=
  match doc with
  | [] => Out4 []
  | _ =>
      match parse doc with
      | None => Err4 None EInvalid
      | Some t =>
          let start :=
            match t with
            | TObj ms => Some (DDoc (obj_of ms))
            | TArr l => Some (DAry (map child l))
            | TNull => Some DDocNil
            | _ => None
            end in
          match start with
          | None => Err4 None EDecode
          | Some c =>
              match apply4_from g 0 (mkState4 c 0) p with
              | (Ok st, _) =>
                  let t' := match r4 st with DDocNil => TNull | c' => render4 (node_of_con4 c') end in
                  Out4 (match indent with [] => print true t' | _ => pp true indent 0 t' end)
              | (Err e, i) => Err4 (Some i) e
              | (Panic, _) => Panic4
              end
          end
      end
  end.

(* ---- a domain test for the simulation against RFC 6902 (V4ApplySim.v), kept with the model so that
   the correspondence oracle can extract it: no copy of the run is handed the operation value null
   (raw_nil4).  deepCopy stores the raw text null for it, and a later path through that member is
   walked like an empty object, where RFC 6902 says the path does not exist. ---- *)
(* the node a copy hands to deepCopy: the source, read again after the walk to the destination *)
Definition copy_arg4 (g : opts4) (st : state4) (op : operation) : option node :=
  match op_str op (B "from"), op_str op (B "path") with
  | Ok from, Ok path =>
      match find4 g (r4 st) from (fun c' key => (con4_get g c' key, c')) with
      | (Some (Ok _), c1) =>
          match find4 g c1 path (fun c' key => (tt, c')) with
          | (Some _, c2) =>
              match find4 g c2 from (fun c' key => (con4_get g c' key, c')) with
              | (Some (Ok v), _) => Some v
              | _ => None
              end
          | (None, _) => None
          end
      | _ => None
      end
  | _, _ => None
  end.

Definition is_raw_nil4 (o : option node) : bool := match o with Some (NRaw TNull) => true | _ => false end.

Fixpoint no_null_copy4 (g : opts4) (st : state4) (p : list operation) : bool :=
  match p with
  | [] => true
  | op :: rest =>
      negb (match op_kind op with KCopy => is_raw_nil4 (copy_arg4 g st op) | _ => false end) &&
      match step4 g st op with Ok st' => no_null_copy4 g st' rest | _ => true end
  end.

(* the same from the bytes of the document, as Apply starts *)
Definition api_no_null_copy4 (g : opts4) (p : list operation) (doc : bytes) : bool :=
  match parse doc with
  | Some (TObj ms) => no_null_copy4 g (mkState4 (DDoc (obj_of ms)) 0) p
  | Some (TArr l) => no_null_copy4 g (mkState4 (DAry (map child l)) 0) p
  | _ => true
  end.

(* ---- merge.go ---- *)
Fixpoint prune4_t (t : tjson) : node :=
  match t with
  | TObj ms =>
      NDoc []
        ((fix go (ms : list (bytes * tjson)) (acc : list (bytes * node)) :=
            match ms with
            | [] => acc
            | (k, v) :: r =>
                match v with
                | TNull => go r (adel (unquote k) acc)
                | _ => go r (aset (unquote k) (prune4_t v) acc)
                end
            end) ms [])
  | _ => NRaw t
  end.

Fixpoint prune4_node (n : node) : node :=
  match n with
  | NRaw t => prune4_t t
  | NDoc k obj =>
      NDoc k (filter (fun kv => negb (is_null4 (snd kv)))
                     (map (fun kv => (fst kv, prune4_node (snd kv))) obj))
  | _ => n
  end.

Definition into_doc4 (n : node) : option (list (bytes * node)) :=
  match n with
  | NDoc _ obj => Some obj
  | NRaw (TObj ms) => Some (obj_of ms)
  | _ => None
  end.

Fixpoint merge4_n (fuel : nat) (mm : bool) (cur : node) (p : tjson) {struct fuel} : node :=
  match fuel with
  | O => NRaw p
  | S f =>
      match into_doc4 cur with
      | None => prune4_node (NRaw p)
      | Some obj =>
          match p with
          | TObj pms =>
              NDoc []
                ((fix go (es : list (bytes * tjson)) (obj : list (bytes * node)) :=
                    match es with
                    | [] => obj
                    | (k, v) :: r =>
                        match v with
                        | TNull => if mm then go r (aset k NNil obj) else go r (adel k obj)
                        | _ =>
                            match aget k obj with
                            | None | Some NNil => go r (aset k (if mm then NRaw v else prune4_node (NRaw v)) obj)
                            | Some c => go r (aset k (merge4_n f mm c v) obj)
                            end
                        end
                    end) (patch_entries pms) obj)
          | _ => NRaw p
          end
      end
  end.

Definition marshal4 (n : node) : bytes := print true (render4 n).

Definition api_merge4 (mm : bool) (doc patch : bytes) : mres :=
  match parse doc with
  | None => MErr MBadDoc
  | Some td =>
      match parse patch with
      | None => MErr MBadPatch
      | Some tp =>
          match td, tp with
          | TNull, _ => MErr MBadDoc
          | _, TNull => MErr MBadPatch
          | TObj _, TObj _ => MOut (marshal4 (merge4_n (S (tsize tp)) mm (NRaw td) tp))
          | _, TObj pms => MOut (marshal4 (if mm then NDoc [] (obj_of pms) else prune4_node (NRaw tp)))
          | _, TArr _ => MOut (print true tp)
          | _, _ => MErr MBadPatch
          end
      end
  end.

Definition api_equal4 (a b : bytes) : option bool :=
  match parse a, parse b with
  | Some ta, Some tb => Some (node_equal4 (NRaw ta) (NRaw tb))
  | _, _ => None      (* no Valid gate: behaviour on ill-formed input is outside C19 *)
  end.
