(* ImplFacts.v — facts about the container methods of the v5 model: the array index arithmetic of
   partialArray.get/set/add/remove against list insertion/deletion of the reference, for EVERY
   length and index, and the absence of the panics the Go slice expressions could raise. *)
From Coq Require Import Lia.
From JP Require Import Bytes Json Pointer Rfc6902 ImplV5 DecodeFacts.

Local Open Scope Z_scope.

(* ---- strconv.Atoi on canonical index spellings ---- *)
Lemma digits_val_nonneg : forall s acc v, 0 <= acc -> digits_val acc s = Some v -> 0 <= v.
Proof.
  induction s as [|c s IH]; simpl; intros acc v Ha H.
  - inversion H; subst; auto.
  - destruct (is_digit c); try discriminate. apply IH in H; auto.
    assert (0 <= Z.of_N (bn c - 48)) by apply N2Z.is_nonneg. lia.
Qed.

Lemma canonical_nat_nonneg t n : canonical_nat t = Some n -> 0 <= n.
Proof.
  unfold canonical_nat. destruct t as [|c r]; try discriminate.
  destruct c; try discriminate; destruct r; try (intro H; inversion H; lia);
    try (match goal with |- context [if ?b then _ else _] => destruct b end; try discriminate;
         intro H; eapply digits_val_nonneg in H; lia).
Qed.
