(* ImplFacts.v — facts about the container methods of the v5 model: the array index arithmetic of
   partialArray.get/set/add/remove against the reference's list operations, for EVERY length and
   index, and the absence of the panics the Go slice expressions could raise. *)
From Coq Require Import Lia.
From JP Require Import Bytes Json Pointer Rfc6902 ImplV5 DecodeFacts JsonFacts.

Local Open Scope Z_scope.

(* ---- strconv.Atoi on canonical index spellings ---- *)
Lemma digits_val_nonneg : forall s acc v, 0 <= acc -> digits_val acc s = Some v -> 0 <= v.
Proof.
  induction s as [|c s IH]; simpl; intros acc v Ha H.
  - inversion H; subst; auto.
  - destruct (is_digit c); try discriminate. apply IH in H; auto.
    assert (0 <= Z.of_N (bn c - 48)) by apply N2Z.is_nonneg. lia.
Qed.

Lemma canonical_nat_digits t n : canonical_nat t = Some n -> digits_val 0 t = Some n /\ 0 <= n /\
  exists c r, t = c :: r /\ is_digit c = true.
Proof.
  unfold canonical_nat. destruct t as [|c r]; try discriminate.
  intro H.
  assert (D : is_digit c = true /\ digits_val 0 (c :: r) = Some n).
  { destruct (is_digit19 c && forallb is_digit r) eqn:E.
    - assert (is_digit c = true).
      { apply andb_prop in E as [E _]. unfold is_digit19, is_digit in *.
        apply andb_prop in E as [E1 E2]. apply andb_true_intro. split; auto.
        apply N.leb_le in E1. apply N.leb_le. lia. }
      destruct c; try discriminate; destruct r; try (inversion H; subst; split; auto; reflexivity); auto.
    - destruct c; try discriminate; destruct r; try discriminate. inversion H. split; reflexivity. }
  destruct D as [D1 D2]. split; auto. split; [eapply digits_val_nonneg; eauto; lia | eauto].
Qed.

Definition in_int64 (v : Z) : option Z :=
  if (int64_min <=? v) && (v <=? int64_max) then Some v else None.

Lemma atoi_unsigned c r : is_digit c = true ->
  atoi (c :: r) = match digits_val 0 (c :: r) with Some v => in_int64 v | None => None end.
Proof. intro H. destruct c; try discriminate; reflexivity. Qed.

Lemma atoi_minus c r :
  atoi (x2d :: c :: r) = match digits_val 0 (c :: r) with Some v => in_int64 (- v) | None => None end.
Proof. reflexivity. Qed.

Lemma atoi_canonical_nat t n : canonical_nat t = Some n -> n <= int64_max -> atoi t = Some n.
Proof.
  intros H Hn. apply canonical_nat_digits in H as [D [N0 [c [r [-> Dc]]]]].
  rewrite atoi_unsigned, D by auto. unfold in_int64.
  replace (int64_min <=? n) with true by (symmetry; apply Z.leb_le; unfold int64_min; lia).
  replace (n <=? int64_max) with true by (symmetry; apply Z.leb_le; lia). reflexivity.
Qed.

Lemma atoi_canonical_nat_big t n : canonical_nat t = Some n -> int64_max < n -> atoi t = None.
Proof.
  intros H Hn. apply canonical_nat_digits in H as [D [N0 [c [r [-> Dc]]]]].
  rewrite atoi_unsigned, D by auto. unfold in_int64.
  replace (n <=? int64_max) with false by (symmetry; apply Z.leb_gt; lia).
  now rewrite andb_false_r.
Qed.

Lemma canonical_neg_inv t k : canonical_neg t = Some k ->
  0 < k /\ exists c r, t = x2d :: c :: r /\ digits_val 0 (c :: r) = Some k.
Proof.
  unfold canonical_neg. destruct t as [|c r]; try discriminate.
  destruct c; try discriminate.
  destruct (canonical_nat r) as [k'|] eqn:E; try discriminate.
  destruct (0 <? k') eqn:P; try discriminate. intro H; inversion H; subst k'.
  apply Z.ltb_lt in P. split; auto.
  apply canonical_nat_digits in E as [D [N0 [c [r' [-> Dc]]]]]. eauto.
Qed.

Lemma atoi_canonical_neg t k : canonical_neg t = Some k -> k <= int64_max -> atoi t = Some (- k) /\ 0 < k.
Proof.
  intros H Hk. apply canonical_neg_inv in H as [P [c [r [-> D]]]]. split; auto.
  rewrite atoi_minus, D. unfold in_int64.
  replace (int64_min <=? - k) with true by (symmetry; apply Z.leb_le; unfold int64_min, int64_max in *; lia).
  replace (- k <=? int64_max) with true by (symmetry; apply Z.leb_le; unfold int64_max; lia). reflexivity.
Qed.

Lemma atoi_canonical_neg_big t k : canonical_neg t = Some k -> int64_max < k -> atoi t = None \/ atoi t = Some (- k).
Proof.
  intros H Hk. apply canonical_neg_inv in H as [P [c [r [-> D]]]].
  rewrite atoi_minus, D. unfold in_int64.
  destruct ((int64_min <=? - k) && (- k <=? int64_max)); auto.
Qed.

Lemma canonical_nat_not_neg t n k : canonical_nat t = Some n -> canonical_neg t = Some k -> False.
Proof.
  intros H1 H2. apply canonical_nat_digits in H1 as [_ [_ [c [r [-> Dc]]]]].
  unfold canonical_neg in H2. destruct c; try discriminate.
Qed.

Lemma canonical_not_dash t n : canonical_nat t = Some n -> bseq t [x2d] = false.
Proof.
  intro H. apply canonical_nat_digits in H as [_ [_ [c [r [-> Dc]]]]].
  destruct c; try discriminate; reflexivity.
Qed.

Lemma canonical_neg_not_dash t k : canonical_neg t = Some k -> bseq t [x2d] = false.
Proof.
  unfold canonical_neg. destruct t as [|c r]; try discriminate. destruct c; try discriminate.
  destruct r; [discriminate|]. intros _. reflexivity.
Qed.

(* ---- the dialect of an options record ---- *)
Definition dia (o : opts) : dialect := mkDialect (o_neg o).

(* a Go slice is shorter than 2^63 *)
(* numeric reference tokens fit a 64-bit integer (strconv.Atoi); a condition on the patch *)
Definition tok_small (t : bytes) : Prop :=
  (forall n, canonical_nat t = Some n -> n <= int64_max) /\ (forall k, canonical_neg t = Some k -> k <= int64_max).

Lemma zlen_eq {A} (l : list A) : ImplV5.zlen l = Rfc6902.zlen l.
Proof. reflexivity. Qed.

Lemma zlen_nonneg {A} (l : list A) : 0 <= ImplV5.zlen l.
Proof. unfold ImplV5.zlen. lia. Qed.

(* ---- get: a canonical token resolves exactly as in the reference ---- *)
Definition tok_canonical (t : bytes) : Prop :=
  (exists n, canonical_nat t = Some n) \/ (exists k, canonical_neg t = Some k).

Theorem resolve_idx_get_ref o {A} (l : list A) t :
  tok_small t -> tok_canonical t ->
  match idx_existing (dia o) (Rfc6902.zlen l) t with
  | Some i => resolve_idx_get o (ImplV5.zlen l) t = Ok i /\ (i < length l)%nat
  | None => exists e, resolve_idx_get o (ImplV5.zlen l) t = Err e /\ (e = EInvalidIndex \/ e = EAtoi)
  end.
Proof.
  intros L [[n Hn]|[k Hk]]; [pose proof (proj1 L _ Hn) as Sm | pose proof (proj2 L _ Hk) as Sm]; unfold idx_existing, resolve_idx_get, Rfc6902.zlen, ImplV5.zlen, dia in *; simpl.
  - rewrite Hn. pose proof (canonical_nat_digits _ _ Hn) as [_ [N0 _]].
    destruct (n <? Z.of_nat (length l)) eqn:E.
    + apply Z.ltb_lt in E. rewrite (atoi_canonical_nat _ _ Hn) by lia.
      replace (n <? 0) with false by (symmetry; apply Z.ltb_ge; lia).
      replace (Z.of_nat (length l) <=? n) with false by (symmetry; apply Z.leb_gt; lia).
      split; auto. lia.
    + apply Z.ltb_ge in E. destruct (Z_le_gt_dec n int64_max).
      * rewrite (atoi_canonical_nat _ _ Hn) by lia.
        replace (n <? 0) with false by (symmetry; apply Z.ltb_ge; lia).
        replace (Z.of_nat (length l) <=? n) with true by (symmetry; apply Z.leb_le; lia). eauto.
      * rewrite (atoi_canonical_nat_big _ _ Hn) by lia. eauto.
  - destruct (canonical_nat t) eqn:Hn; [exfalso; eapply canonical_nat_not_neg; eauto|]. rewrite Hk.
    destruct (Z_le_gt_dec k int64_max).
    + destruct (atoi_canonical_neg _ _ Hk) as [At Kp]; auto. rewrite At.
      replace (- k <? 0) with true by (symmetry; apply Z.ltb_lt; lia).
      destruct (o_neg o); simpl; [|eauto].
      destruct (k <=? Z.of_nat (length l)) eqn:E.
      * apply Z.leb_le in E.
        replace (- k <? - Z.of_nat (length l)) with false by (symmetry; apply Z.ltb_ge; lia).
        replace (Z.of_nat (length l) <=? - k + Z.of_nat (length l)) with false by (symmetry; apply Z.leb_gt; lia).
        split; [f_equal; f_equal; lia | lia].
      * apply Z.leb_gt in E.
        replace (- k <? - Z.of_nat (length l)) with true by (symmetry; apply Z.ltb_lt; lia). eauto.
    + assert ((k <=? Z.of_nat (length l)) = false) by (apply Z.leb_gt; lia). rewrite H, andb_false_r.
      destruct (atoi_canonical_neg_big _ _ Hk) as [At|At]; [lia| |]; rewrite At; [eauto|].
      replace (- k <? 0) with true by (symmetry; apply Z.ltb_lt; lia).
      destruct (o_neg o); simpl; [|eauto].
      replace (- k <? - Z.of_nat (length l)) with true by (symmetry; apply Z.ltb_lt; lia). eauto.
Qed.

(* ---- add: position of insertion ---- *)
Definition add_tok (t : bytes) : Prop := t = [x2d] \/ tok_canonical t.

Theorem ary_add_never_panics o ns key v : ary_add o ns key v <> Panic.
Proof.
  unfold ary_add. destruct (bseq key [x2d]); [discriminate|].
  destruct (atoi key) as [idx|]; [|discriminate].
  pose proof (zlen_nonneg ns) as L.
  destruct (ImplV5.zlen ns + 1 <=? idx) eqn:E1; [discriminate|]. apply Z.leb_gt in E1.
  destruct (idx <? 0) eqn:E2; [|discriminate]. apply Z.ltb_lt in E2.
  destruct (o_neg o); simpl; [|discriminate].
  destruct (idx <? - (ImplV5.zlen ns + 1)) eqn:E3; [discriminate|]. apply Z.ltb_ge in E3.
  replace (ImplV5.zlen ns <? idx + (ImplV5.zlen ns + 1)) with false by (symmetry; apply Z.ltb_ge; lia).
  discriminate.
Qed.

Theorem ary_add_ref o (ns : list node) t v :
  tok_small t -> add_tok t ->
  match idx_insert (dia o) (Rfc6902.zlen ns) t with
  | Some i => ary_add o ns t v = Ok (insert_at i v ns) /\ (i <= length ns)%nat
  | None => exists e, ary_add o ns t v = Err e /\ (e = EInvalidIndex \/ e = EAtoi)
  end.
Proof.
  intros L [->|[[n Hn]|[k Hk]]]; [| pose proof (proj1 L _ Hn) as Sm | pose proof (proj2 L _ Hk) as Sm]; unfold idx_insert, ary_add, Rfc6902.zlen, ImplV5.zlen, dia, insert_at in *; simpl.
  - split; [|lia]. rewrite Nat2Z.id. now rewrite firstn_all, skipn_all.
  - rewrite (canonical_not_dash _ _ Hn), Hn. pose proof (canonical_nat_digits _ _ Hn) as [_ [N0 _]].
    destruct (n <=? Z.of_nat (length ns)) eqn:E.
    + apply Z.leb_le in E. rewrite (atoi_canonical_nat _ _ Hn) by lia.
      replace (Z.of_nat (length ns) + 1 <=? n) with false by (symmetry; apply Z.leb_gt; lia).
      replace (n <? 0) with false by (symmetry; apply Z.ltb_ge; lia).
      split; auto. lia.
    + apply Z.leb_gt in E. destruct (Z_le_gt_dec n int64_max).
      * rewrite (atoi_canonical_nat _ _ Hn) by lia.
        replace (Z.of_nat (length ns) + 1 <=? n) with true by (symmetry; apply Z.leb_le; lia). eauto.
      * rewrite (atoi_canonical_nat_big _ _ Hn) by lia. eauto.
  - rewrite (canonical_neg_not_dash _ _ Hk).
    destruct (canonical_nat t) eqn:Hn; [exfalso; eapply canonical_nat_not_neg; eauto|]. rewrite Hk.
    destruct (Z_le_gt_dec k int64_max).
    + destruct (atoi_canonical_neg _ _ Hk) as [At Kp]; auto. rewrite At.
      replace (Z.of_nat (length ns) + 1 <=? - k) with false by (symmetry; apply Z.leb_gt; lia).
      replace (- k <? 0) with true by (symmetry; apply Z.ltb_lt; lia).
      destruct (o_neg o); simpl; [|eauto].
      destruct (k <=? Z.of_nat (length ns) + 1) eqn:E.
      * apply Z.leb_le in E.
        replace (- k <? - (Z.of_nat (length ns) + 1)) with false by (symmetry; apply Z.ltb_ge; lia).
        replace (Z.of_nat (length ns) <? - k + (Z.of_nat (length ns) + 1)) with false by (symmetry; apply Z.ltb_ge; lia).
        replace (Z.to_nat (- k + (Z.of_nat (length ns) + 1))) with (Z.to_nat (Z.of_nat (length ns) + 1 - k)) by (f_equal; lia).
        split; auto. lia.
      * apply Z.leb_gt in E.
        replace (- k <? - (Z.of_nat (length ns) + 1)) with true by (symmetry; apply Z.ltb_lt; lia). eauto.
    + assert ((k <=? Z.of_nat (length ns) + 1) = false) by (apply Z.leb_gt; unfold int64_max in *; lia).
      rewrite H, andb_false_r.
      destruct (atoi_canonical_neg_big _ _ Hk) as [At|At]; [lia| |]; rewrite At; [eauto|].
      replace (Z.of_nat (length ns) + 1 <=? - k) with false by (symmetry; apply Z.leb_gt; lia).
      replace (- k <? 0) with true by (symmetry; apply Z.ltb_lt; lia).
      destruct (o_neg o); simpl; [|eauto].
      replace (- k <? - (Z.of_nat (length ns) + 1)) with true by (symmetry; apply Z.ltb_lt; unfold int64_max in *; lia). eauto.
Qed.

(* ---- remove (AllowMissingPathOnRemove off) ---- *)
Theorem ary_remove_ref o (ns : list node) t :
  o_allow o = false -> tok_small t -> tok_canonical t ->
  match idx_existing (dia o) (Rfc6902.zlen ns) t with
  | Some i => ary_remove o ns t = Ok (remove_at i ns) /\ (i < length ns)%nat
  | None => exists e, ary_remove o ns t = Err e /\ (e = EInvalidIndex \/ e = EAtoi)
  end.
Proof.
  intros Al L [[n Hn]|[k Hk]]; [pose proof (proj1 L _ Hn) as Sm | pose proof (proj2 L _ Hk) as Sm]; unfold idx_existing, ary_remove, Rfc6902.zlen, ImplV5.zlen, dia, remove_at in *; simpl; rewrite Al.
  - rewrite Hn. pose proof (canonical_nat_digits _ _ Hn) as [_ [N0 _]].
    destruct (n <? Z.of_nat (length ns)) eqn:E.
    + apply Z.ltb_lt in E. rewrite (atoi_canonical_nat _ _ Hn) by lia.
      replace (Z.of_nat (length ns) <=? n) with false by (symmetry; apply Z.leb_gt; lia).
      replace (n <? 0) with false by (symmetry; apply Z.ltb_ge; lia).
      split; auto. lia.
    + apply Z.ltb_ge in E. destruct (Z_le_gt_dec n int64_max).
      * rewrite (atoi_canonical_nat _ _ Hn) by lia.
        replace (Z.of_nat (length ns) <=? n) with true by (symmetry; apply Z.leb_le; lia). eauto.
      * rewrite (atoi_canonical_nat_big _ _ Hn) by lia. eauto.
  - destruct (canonical_nat t) eqn:Hn; [exfalso; eapply canonical_nat_not_neg; eauto|]. rewrite Hk.
    destruct (Z_le_gt_dec k int64_max).
    + destruct (atoi_canonical_neg _ _ Hk) as [At Kp]; auto. rewrite At.
      replace (Z.of_nat (length ns) <=? - k) with false by (symmetry; apply Z.leb_gt; lia).
      replace (- k <? 0) with true by (symmetry; apply Z.ltb_lt; lia).
      destruct (o_neg o); simpl; [|eauto].
      destruct (k <=? Z.of_nat (length ns)) eqn:E.
      * apply Z.leb_le in E.
        replace (- k <? - Z.of_nat (length ns)) with false by (symmetry; apply Z.ltb_ge; lia).
        replace (Z.to_nat (- k + Z.of_nat (length ns))) with (Z.to_nat (Z.of_nat (length ns) - k)) by (f_equal; lia).
        split; auto. lia.
      * apply Z.leb_gt in E.
        replace (- k <? - Z.of_nat (length ns)) with true by (symmetry; apply Z.ltb_lt; lia). eauto.
    + assert ((k <=? Z.of_nat (length ns)) = false) by (apply Z.leb_gt; lia). rewrite H, andb_false_r.
      destruct (atoi_canonical_neg_big _ _ Hk) as [At|At]; [lia| |]; rewrite At; [eauto|].
      replace (Z.of_nat (length ns) <=? - k) with false by (symmetry; apply Z.leb_gt; lia).
      replace (- k <? 0) with true by (symmetry; apply Z.ltb_lt; lia).
      destruct (o_neg o); simpl; [|eauto].
      replace (- k <? - Z.of_nat (length ns)) with true by (symmetry; apply Z.ltb_lt; lia). eauto.
Qed.

(* ---- set, after a successful get (Patch.replace calls get first) ---- *)
Theorem ary_set_after_get o (ns : list node) t v i :
  resolve_idx_get o (ImplV5.zlen ns) t = Ok i -> ary_set o ns t v = Ok (set_at i v ns).
Proof.
  unfold resolve_idx_get, ary_set, set_at. destruct (atoi t) as [idx|]; [|discriminate].
  destruct (idx <? 0).
  - destruct (negb (o_neg o)); [discriminate|].
    destruct (idx <? - ImplV5.zlen ns); [discriminate|].
    destruct (ImplV5.zlen ns <=? idx + ImplV5.zlen ns); [discriminate|]. intro H; inversion H. reflexivity.
  - destruct (ImplV5.zlen ns <=? idx); [discriminate|]. intro H; inversion H. reflexivity.
Qed.
