(* EqualFacts.v — the model of lazyNode.equal (ImplV5.equal) decides structural equality (Json.jeq)
   of the values the two nodes denote, whatever their parse state; consequences for Equal. *)
From Coq Require Import Lia.
From JP Require Import Bytes Json Text Strings Den ImplV5 DecodeFacts JsonFacts Abs.

(* number literals start with '-' or a digit (true of every literal the reader produces); needed
   because scalars are compared by their compacted bytes *)
Definition lit_ok (l : bytes) : bool :=
  match l with c :: _ => Byte.eqb c x2d || is_digit c | [] => false end.

Fixpoint tlit (t : tjson) : bool :=
  match t with
  | TNum l => lit_ok l
  | TArr l => forallb tlit l
  | TObj ms => forallb (fun kv => tlit (snd kv)) ms
  | _ => true
  end.

Fixpoint nlit (n : node) : Prop :=
  match n with
  | NNil => True
  | NRaw t => tlit t = true
  | NDoc _ obj => (fix all (m : list (bytes * node)) : Prop := match m with [] => True | kv :: r => nlit (snd kv) /\ all r end) obj
  | NAry ns => (fix all (l : list node) : Prop := match l with [] => True | x :: r => nlit x /\ all r end) ns
  end.

Lemma nlit_doc keys obj : nlit (NDoc keys obj) <-> Forall (fun kv => nlit (snd kv)) obj.
Proof.
  cbn [nlit]. split; intro H.
  - induction obj as [|kv obj IH]; constructor; destruct H; auto.
  - induction obj as [|kv obj IH]; [exact I|]. inversion H as [|? ? Ha Hb]; subst. split; [exact Ha | apply IH; exact Hb].
Qed.

Lemma nlit_ary ns : nlit (NAry ns) <-> Forall nlit ns.
Proof.
  cbn [nlit]. split; intro H.
  - induction ns as [|x ns IH]; constructor; destruct H; auto.
  - induction ns as [|x ns IH]; [exact I|]. inversion H as [|? ? Ha Hb]; subst. split; [exact Ha | apply IH; exact Hb].
Qed.
Arguments nlit : simpl never.

Lemma nlit_child t : tlit t = true -> nlit (child t).
Proof. destruct t; intro H; try exact I; exact H. Qed.

(* ---- what one level of tryDoc / tryAry exposes ---- *)
Inductive shape_ok : node -> shape -> Prop :=
| ShLeaf n t : aval n = den t -> (match t with TObj _ | TArr _ | TNull => False | _ => True end) -> tlit t = true ->
               shape_ok n (SLeaf t)
| ShDoc n m ms : aval n = OObj ms -> NoDup (map fst m) -> NoDup (map fst ms) -> length ms = length m ->
                 (forall k, aget k ms = option_map aval (aget k m)) ->
                 (forall k v, In (k, v) m -> nwf v /\ nlit v /\ (nsize v < nsize n)%nat) ->
                 shape_ok n (SDoc m)
| ShAry n l : aval n = OArr (map aval l) ->
              (forall v, In v l -> nwf v /\ nlit v /\ (nsize v < nsize n)%nat) ->
              shape_ok n (SAry l).

Lemma tsize_pos t : (0 < tsize t)%nat.
Proof. destruct t; simpl; lia. Qed.

Lemma nsize_child t : nsize (child t) = tsize t.
Proof. destruct t; reflexivity. Qed.

Lemma fold_tsize_in (ms : list (bytes * tjson)) kv :
  In kv ms -> (tsize (snd kv) <= fold_right (fun x a => tsize (snd x) + a) 0 ms)%nat.
Proof. induction ms as [|x ms IH]; [intros []|]. intros [E|H]; simpl; [subst; lia | specialize (IH H); lia]. Qed.

Lemma fold_tsize_in_l (l : list tjson) x :
  In x l -> (tsize x <= fold_right (fun x a => tsize x + a) 0 l)%nat.
Proof. induction l as [|y l IH]; [intros []|]. intros [E|H]; simpl; [subst; lia | specialize (IH H); lia]. Qed.

Lemma fold_nsize_in (obj : list (bytes * node)) kv :
  In kv obj -> (nsize (snd kv) <= fold_right (fun x a => nsize (snd x) + a) 0 obj)%nat.
Proof. induction obj as [|x obj IH]; [intros []|]. intros [E|H]; simpl; [subst; lia | specialize (IH H); lia]. Qed.

Lemma fold_nsize_in_l (l : list node) x :
  In x l -> (nsize x <= fold_right (fun x a => nsize x + a) 0 l)%nat.
Proof. induction l as [|y l IH]; [intros []|]. intros [E|H]; simpl; [subst; lia | specialize (IH H); lia]. Qed.

Lemma length_keys_obj keys (obj : list (bytes * node)) : keys_agree keys obj -> length keys = length obj.
Proof.
  intros [Nk [No Ag]]. rewrite <- (map_length fst obj). apply Nat.le_antisymm; apply NoDup_incl_length; auto;
    intros k H; apply Ag; auto.
Qed.

Lemma shape_of_ok n : nwf n -> nlit n -> is_null n = false -> shape_ok n (shape_of n).
Proof.
  intros W L NN. destruct n as [|t|keys obj|ns]; try discriminate.
  - apply nwf_raw in W. unfold nlit in L. destruct t; try discriminate; cbn [shape_of].
    + apply ShLeaf; auto.
    + apply ShLeaf; auto.
    + apply ShLeaf; auto.
    + apply ShLeaf; auto.
    + (* raw array *)
      apply ShAry.
      * symmetry. exact (proj1 (parsed_arr l W)).
      * intros v Hin. apply in_map_iff in Hin as [t [<- Hin]].
        pose proof (proj2 (parsed_arr l W)) as Wa. apply nwf_ary in Wa. rewrite Forall_forall in Wa.
        split; [apply Wa; apply in_map; auto|]. split.
        -- apply nlit_child. simpl in L. rewrite forallb_forall in L. auto.
        -- rewrite nsize_child. simpl. pose proof (fold_tsize_in_l l t Hin). lia.
    + (* raw object *)
      pose proof (parsed_obj ms W) as P. pose proof (den_obj_nodup ms W) as D.
      pose proof W as W'. apply tnodup_obj in W' as [N F].
      rewrite doc_of_nodup in * by exact N. cbn [snd]. destruct P as [P1 P2].
      set (obj := map (fun kv => (unquote (fst kv), child (snd kv))) ms) in *.
      assert (K : map fst obj = map (fun kv => unquote (fst kv)) ms) by (unfold obj; rewrite map_map; reflexivity).
      apply ShDoc with (ms := den_members ms).
      * exact D.
      * rewrite K. exact N.
      * rewrite den_members_keys. exact N.
      * unfold den_members, obj. now rewrite !map_length.
      * intro k. rewrite <- K in P1. rewrite aval_doc, D in P1.
        assert (P1' : abs_members (map fst obj) obj = den_members ms) by congruence.
        rewrite <- P1'. apply aget_abs_members_agree. apply keys_agree_self. rewrite K. exact N.
      * intros k v Hin. unfold obj in Hin. apply in_map_iff in Hin as [[k0 t0] [E Hin]]. inversion E; subst.
        apply nwf_doc in P2 as [_ P2]. rewrite Forall_forall in P2. split; [apply (P2 (unquote k0, child t0)); apply in_map_iff; exists (k0, t0); auto|].
        split.
        -- apply nlit_child. simpl in L. rewrite forallb_forall in L. apply (L (k0, t0) Hin).
        -- rewrite nsize_child. simpl. pose proof (fold_tsize_in ms (k0, t0) Hin). simpl in *. lia.
  - apply nwf_doc in W as [Ag W]. apply nlit_doc in L. cbn [shape_of].
    apply ShDoc with (ms := abs_members keys obj).
    + apply aval_doc.
    + destruct Ag as [_ [No _]]. exact No.
    + unfold abs_members. rewrite map_map. simpl. rewrite map_id. destruct Ag as [Nk _]. exact Nk.
    + unfold abs_members. rewrite map_length. apply length_keys_obj. exact Ag.
    + intro k. apply aget_abs_members_agree. exact Ag.
    + intros k v Hin. rewrite Forall_forall in W, L. split; [apply (W _ Hin)|]. split; [apply (L _ Hin)|].
      simpl. pose proof (fold_nsize_in obj (k, v) Hin). simpl in *. lia.
  - apply nwf_ary in W. apply nlit_ary in L. cbn [shape_of]. apply ShAry.
    + reflexivity.
    + intros v Hin. rewrite Forall_forall in W, L. split; [apply (W _ Hin)|]. split; [apply (L _ Hin)|].
      simpl. pose proof (fold_nsize_in_l ns v Hin). lia.
Qed.

(* ---- scalars ---- *)
Definition leaf_ok (t : tjson) : Prop :=
  (match t with TObj _ | TArr _ | TNull => False | _ => True end) /\ tlit t = true.

Lemma lit_first l : lit_ok l = true -> exists c r, l = c :: r /\ (c = x2d \/ is_digit c = true).
Proof.
  destruct l as [|c r]; simpl; try discriminate. intro H. exists c, r. split; auto.
  apply orb_prop in H as [H|H]; auto. left. now apply Byte.byte_dec_bl.
Qed.

Lemma bseq_head_diff (c d : byte) r s : c <> d -> bseq (c :: r) (d :: s) = false.
Proof. intro H. simpl. destruct (Byte.eqb c d) eqn:E; auto. apply Byte.byte_dec_bl in E. contradiction. Qed.

Lemma lit_not (l : bytes) (d : byte) s :
  lit_ok l = true -> d <> x2d -> is_digit d = false -> bseq l (d :: s) = false /\ bseq (d :: s) l = false.
Proof.
  intros L D1 D2. apply lit_first in L as [c [r [-> [->|Hc]]]].
  - split; apply bseq_head_diff; congruence.
  - split; apply bseq_head_diff; intro; subst; congruence.
Qed.

Lemma leaf_equal_spec a b : leaf_ok a -> leaf_ok b -> leaf_equal a b = jeq (den a) (den b).
Proof.
  intros [Ha La] [Hb Lb]. destruct a; try contradiction; destruct b; try contradiction; try reflexivity;
    cbn [leaf_equal den print jeq tlit] in *;
    try (apply (lit_not _ _ _ La); [discriminate | reflexivity]);
    try (apply (lit_not _ _ _ Lb); [discriminate | reflexivity]).
Qed.

Lemma is_null_iff n : is_null n = true <-> aval n = ONull.
Proof.
  destruct n as [|t|keys obj|ns]; simpl; split; intro H; try reflexivity; try discriminate.
  - destruct t; try discriminate. reflexivity.
  - destruct t; simpl in H; try discriminate. reflexivity.
Qed.

Definition onull (x : ojson) : bool := match x with ONull => true | _ => false end.
Lemma jeq_null_l x : jeq ONull x = onull x. Proof. destruct x; reflexivity. Qed.
Lemma jeq_null_r x : jeq x ONull = onull x. Proof. destruct x; reflexivity. Qed.
Lemma is_null_onull n : is_null n = onull (aval n).
Proof.
  destruct (is_null n) eqn:E.
  - apply is_null_iff in E. now rewrite E.
  - destruct (aval n) eqn:A; auto. apply is_null_iff in A. congruence.
Qed.

(* ---- the theorem ---- *)
Lemma forallb_members_iff {A} (f : bytes * A -> bool) m : forallb f m = true <-> forall kv, In kv m -> f kv = true.
Proof. apply forallb_forall. Qed.

Fixpoint ary_go (f : node -> node -> bool) (l l' : list node) : bool :=
  match l, l' with
  | x :: r, y :: r' => f x y && ary_go f r r'
  | _, _ => true
  end.

Lemma equal_unfold f n o :
  equal (S f) n o =
  if is_null n || is_null o then is_null n && is_null o else
  match shape_of n, shape_of o with
  | SLeaf a, SLeaf b => leaf_equal a b
  | SLeaf _, _ => false
  | SDoc m, SDoc m' =>
      (length m =? length m')%nat &&
      forallb (fun kv => match aget (fst kv) m' with Some ov => equal f (snd kv) ov | None => false end) m
  | SDoc _, _ => false
  | SAry l, SAry l' => (length l =? length l')%nat && ary_go (equal f) l l'
  | SAry _, _ => false
  end.
Proof.
  cbn [equal]. destruct (is_null n || is_null o); auto.
  destruct (shape_of n), (shape_of o); auto. f_equal.
  revert ns0. induction ns as [|x l IH]; intros [|y l']; simpl; auto. now rewrite IH.
Qed.

Theorem equal_spec : forall fuel n o,
  (nsize n + nsize o <= fuel)%nat -> nwf n -> nlit n -> nwf o -> nlit o ->
  equal fuel n o = jeq (aval n) (aval o).
Proof.
  induction fuel as [|f IH]; intros n o Hf Wn Ln Wo Lo.
  { destruct n; simpl in Hf; try lia; pose proof (tsize_pos t); lia. }
  rewrite equal_unfold.
  replace (is_null n) with (onull (aval n)) by (symmetry; apply is_null_onull).
  replace (is_null o) with (onull (aval o)) by (symmetry; apply is_null_onull).
  destruct (onull (aval n)) eqn:Nn.
  { destruct (aval n); try discriminate. cbn [orb andb]. symmetry. apply jeq_null_l. }
  destruct (onull (aval o)) eqn:No.
  { destruct (aval o); try discriminate. cbn [orb andb]. rewrite jeq_null_r. symmetry. exact Nn. }
  cbn [orb].
  assert (NNn : is_null n = false) by (rewrite is_null_onull; exact Nn).
  assert (NNo : is_null o = false) by (rewrite is_null_onull; exact No).
  pose proof (shape_of_ok n Wn Ln NNn) as Sn. pose proof (shape_of_ok o Wo Lo NNo) as So.
  inversion Sn as [n1 a Ea Ha La Eq1|n1 m ms Ea Nm Nms Lm Gm Cm Eq1|n1 l Ea Cl Eq1]; subst n1;
    inversion So as [o1 b Eb Hb Lb Eq2|o1 m' ms' Eb Nm' Nms' Lm' Gm' Cm' Eq2|o1 l' Eb Cl' Eq2]; subst o1;
    rewrite Ea, Eb.
  - apply leaf_equal_spec; split; auto.
  - destruct a; try contradiction; reflexivity.
  - destruct a; try contradiction; reflexivity.
  - destruct b; try contradiction; reflexivity.
  - (* two objects *)
    apply Bool.eq_true_iff_eq. rewrite andb_true_iff, Nat.eqb_eq, forallb_members_iff.
    rewrite (jeq_obj_char ms ms' Nms Nms').
    assert (IHc : forall k v ov, In (k, v) m -> In (k, ov) m' -> equal f v ov = jeq (aval v) (aval ov)).
    { intros k v ov H1 H2. destruct (Cm _ _ H1) as [W1 [L1 S1]]. destruct (Cm' _ _ H2) as [W2 [L2 S2]].
      apply IH; auto. lia. }
    split.
    + intros [Hlen Hall] k. rewrite Gm, Gm'. unfold lookup_rel.
      destruct (aget k m) as [v|] eqn:G1; cbn [option_map].
      * apply aget_In in G1. specialize (Hall (k, v) G1). cbn [fst snd] in Hall.
        destruct (aget k m') as [ov|] eqn:G2; try discriminate. cbn [option_map].
        rewrite <- (IHc k v ov); auto. apply aget_In; auto.
      * destruct (aget k m') as [ov|] eqn:G2; cbn [option_map]; auto.
        assert (Incl : incl (map fst m) (map fst m')).
        { intros k' Hk. apply in_map_iff in Hk as [[k2 v2] [E Hin]]. simpl in E; subst.
          specialize (Hall _ Hin). cbn [fst snd] in Hall. destruct (aget k' m') eqn:G; try discriminate.
          eapply aget_In_fst; eauto. }
        assert (Incl' : incl (map fst m') (map fst m)).
        { apply NoDup_length_incl; auto. rewrite !map_length. lia. }
        apply aget_In_fst in G2. apply Incl' in G2. apply aget_None_notin in G1. contradiction.
    + intro HR.
      assert (Incl : incl (map fst m) (map fst m')).
      { intros k Hk. apply aget_Some_in in Hk as [v Hv]. specialize (HR k). rewrite Gm, Gm', Hv in HR.
        unfold lookup_rel in HR. destruct (aget k m') eqn:G; try contradiction. eapply aget_In_fst; eauto. }
      assert (Incl' : incl (map fst m') (map fst m)).
      { intros k Hk. apply aget_Some_in in Hk as [v Hv]. specialize (HR k). rewrite Gm, Gm', Hv in HR.
        unfold lookup_rel in HR. destruct (aget k m) eqn:G; try contradiction. eapply aget_In_fst; eauto. }
      split.
      * apply Nat.le_antisymm; rewrite <- (map_length fst m), <- (map_length fst m'); apply NoDup_incl_length; auto.
      * intros [k v] Hin. cbn [fst snd]. pose proof (In_aget_nodup k v m Nm Hin) as G1.
        specialize (HR k). rewrite Gm, Gm', G1 in HR. unfold lookup_rel in HR.
        destruct (aget k m') as [ov|] eqn:G2; try contradiction. cbn [option_map] in HR.
        rewrite (IHc k v ov); auto. apply aget_In; auto.
  - reflexivity.
  - destruct b; try contradiction; reflexivity.
  - reflexivity.
  - (* two arrays *)
    rewrite jeq_arr.
    assert (IHc : forall v ov, In v l -> In ov l' -> equal f v ov = jeq (aval v) (aval ov)).
    { intros v ov H1 H2. destruct (Cl _ H1) as [W1 [L1 S1]]. destruct (Cl' _ H2) as [W2 [L2 S2]].
      apply IH; auto. lia. }
    clear - IHc. revert l' IHc. induction l as [|x l IHl]; intros [|y l'] IHc; simpl; auto.
    rewrite (IHc x y) by (now left).
    destruct (jeq (aval x) (aval y)); simpl.
    + rewrite <- IHl by (intros; apply IHc; now right). reflexivity.
    + now rewrite andb_false_r.
Qed.

(* ---- Equal on nodes and on texts ---- *)
Theorem node_equal_spec n o : nwf n -> nlit n -> nwf o -> nlit o -> node_equal n o = jeq (aval n) (aval o).
Proof. intros. unfold node_equal. apply equal_spec; auto. Qed.
