(* IndexTie.v -- the array index arithmetic of v5/patch.go, as re-translated on every run by
   tools/goidx2v into gen/IndexGen.v (partialArray.get / set / add / remove: strconv.Atoi result,
   bounds checks, negative indices, 64-bit wrap-around, a bounds test before every index and
   slice expression, the list of slice effects), agrees with the hand-written model of ImplV5.v
   (resolve_idx_get / con_get, ary_set, ary_add, ary_remove) for EVERY length and EVERY index
   of the int range.

   Two steps per method:
     1. <m>_gen_spec : idx_<m>_gen = spec_<m>      integers only; case analysis + lia; this is
                                                   the step a change of patch.go breaks
     2. <m>_spec_model : model = adapter (spec_<m>)  lists; independent of patch.go
   and the corollaries <m>_tie on tokens: the model function is the generated function read
   through the adapter.  spec_<m> is the integer skeleton of the model function (same tests in
   the same order, no wrap-around), with the slice work written as the effect list patch.go
   performs.  Before step 1 a table of boundary values is evaluated and printed: on the unchanged
   patch.go it is empty; after a change of behaviour it lists concrete (neg, allow, len, atoi)
   with both outcomes, and the step-1 proof then stops with the symbolic case (show_case).
   Comparison of effects is syntactic up to integer arithmetic: re-ordering two independent slice
   statements of patch.go needs ins_effs / rm_effs below to be re-ordered with them.
   Go int is taken as 64 bit (wrap64 in IndexGen.v). *)
From Coq Require Import Lia.
From JP Require Import Bytes Json Pointer ImplV5.
From JP.gen Require Import IndexGen.

Local Open Scope Z_scope.
Arguments wrap64 : simpl never.

(* ---- the int range ---- *)
Definition in64 (z : Z) : Prop := int64_min <= z <= int64_max.
Definition atoi_ok (a : option Z) : Prop := match a with Some z => in64 z | None => True end.

Lemma wrap64_id z : in64 z -> wrap64 z = z.
Proof.
  unfold in64, int64_min, int64_max, wrap64. intro H.
  rewrite Z.mod_small by lia. lia.
Qed.

Lemma wrap64_over z : int64_max < z <= int64_max + 18446744073709551616 -> wrap64 z = z - 18446744073709551616.
Proof.
  unfold int64_max, wrap64. intro H.
  replace (z + 9223372036854775808) with (z - 9223372036854775808 + 1 * 18446744073709551616) by lia.
  rewrite Z.mod_add, Z.mod_small by lia. lia.
Qed.

Lemma wrap64_under z : int64_min - 18446744073709551616 <= z < int64_min -> wrap64 z = z + 18446744073709551616.
Proof.
  unfold int64_min, wrap64. intro H.
  replace (z + 9223372036854775808) with (z + 27670116110564327424 + (-1) * 18446744073709551616) by lia.
  rewrite Z.mod_add, Z.mod_small by lia. lia.
Qed.

Lemma wrap64_in64 z : in64 (wrap64 z).
Proof.
  unfold in64, int64_min, int64_max, wrap64.
  pose proof (Z.mod_pos_bound (z + 9223372036854775808) 18446744073709551616 eq_refl). lia.
Qed.

(* strconv.Atoi only returns values of the int range *)
Lemma atoi_in64 s : atoi_ok (atoi s).
Proof.
  unfold atoi_ok, atoi.
  destruct (match s with
            | x2d :: r => (true, r)
            | x2b :: r => (false, r)
            | _ => (false, s)
            end) as [ng ds].
  destruct ds as [|c r]; [exact I|].
  destruct (digits_val 0 (c :: r)) as [v|]; [|exact I].
  destruct ((int64_min <=? (if ng then - v else v)) && ((if ng then - v else v) <=? int64_max)) eqn:E; [|exact I].
  apply andb_prop in E as [E1 E2]. apply Z.leb_le in E1. apply Z.leb_le in E2. split; assumption.
Qed.

(* ---- what the effects do to the two slices (Go: make, copy, element assignment, append) ---- *)
Section Run.
  Context {A : Type} (nilv v : A).

  (* x[i] = v *)
  Definition upd (l : list A) (i : Z) : list A :=
    firstn (Z.to_nat i) l ++ v :: skipn (S (Z.to_nat i)) l.

  (* x[a:b] *)
  Definition slice (l : list A) (a b : Z) : list A :=
    firstn (Z.to_nat (b - a)) (skipn (Z.to_nat a) l).

  (* copy(dst[a:b], src): the first min(b-a, len src) elements of src overwrite dst from a on *)
  Definition blit (dst : list A) (a b : Z) (src : list A) : list A :=
    let n := Nat.min (Z.to_nat (b - a)) (length src) in
    firstn (Z.to_nat a) dst ++ firstn n src ++ skipn (Z.to_nat a + n) dst.

  Definition sel (st : list A * list A) (x : sl) : list A :=
    match x with SNodes => fst st | SAry => snd st end.
  Definition put (st : list A * list A) (x : sl) (l : list A) : list A * list A :=
    match x with SNodes => (l, snd st) | SAry => (fst st, l) end.

  (* state: (d.nodes, the made slice) *)
  Definition step (st : list A * list A) (e : eff) : list A * list A :=
    match e with
    | EAppend => (fst st ++ [v], snd st)
    | EMake n => (fst st, repeat nilv (Z.to_nat n))
    | ECopy d a b s c e' => put st d (blit (sel st d) a b (slice (sel st s) c e'))
    | EStore x i => put st x (upd (sel st x) i)
    | ECommit => (snd st, snd st)
    end.

  (* d.nodes after the effects *)
  Definition run (es : list eff) (ns : list A) : list A := fst (fold_left step es (ns, [])).
End Run.

(* ---- list lemmas about the effects ---- *)
Section RunFacts.
  Context {A : Type} (nilv v : A).

  Lemma firstn_len_app (p l : list A) : firstn (length p) (p ++ l) = p.
  Proof. induction p as [|x p IH]; simpl; [destruct l; reflexivity | now rewrite IH]. Qed.

  Lemma skipn_len_app (p l : list A) : skipn (length p) (p ++ l) = l.
  Proof. induction p as [|x p IH]; simpl; auto. Qed.

  (* dst = p ++ q ++ r with |p| = a and |q| = |src| = b - a: copy(dst[a:b], src) replaces q by src *)
  Lemma blit_app (p q r src : list A) a b :
    length p = Z.to_nat a -> length src = Z.to_nat (b - a) -> length q = length src ->
    blit (p ++ q ++ r) a b src = p ++ src ++ r.
  Proof.
    intros Hp Hs Hq. unfold blit. rewrite <- Hs, Nat.min_id, firstn_all, <- Hp, firstn_len_app.
    f_equal. f_equal. rewrite <- Hq, <- app_length, app_assoc. apply skipn_len_app.
  Qed.

  Lemma upd_app (p r : list A) x i : length p = Z.to_nat i -> upd v (p ++ x :: r) i = p ++ v :: r.
  Proof.
    intro Hp. unfold upd. rewrite <- Hp, firstn_len_app. f_equal. f_equal.
    change (x :: r) with ([x] ++ r). rewrite app_assoc.
    replace (S (length p)) with (length (p ++ [x])) by (rewrite app_length; simpl; lia).
    apply skipn_len_app.
  Qed.

  Lemma slice_prefix (l : list A) i : slice l 0 i = firstn (Z.to_nat i) l.
  Proof. unfold slice. now rewrite Z.sub_0_r. Qed.

  Lemma slice_suffix (l : list A) a : 0 <= a <= zlen l -> slice l a (zlen l) = skipn (Z.to_nat a) l.
  Proof.
    intro H. unfold slice, zlen in *. apply firstn_all2. rewrite skipn_length. lia.
  Qed.
End RunFacts.

(* the effects of add at position i, and of remove at position i, on a slice of length len *)
Definition ins_effs (len i : Z) : list eff :=
  [EMake (len + 1); ECopy SAry 0 i SNodes 0 i; EStore SAry i;
   ECopy SAry (i + 1) (len + 1) SNodes i len; ECommit].

Definition rm_effs (len i : Z) : list eff :=
  [EMake (len - 1); ECopy SAry 0 i SNodes 0 i; ECopy SAry i (len - 1) SNodes (i + 1) len; ECommit].

Lemma run_ins {A} (nilv v : A) (ns : list A) i : 0 <= i <= zlen ns ->
  run nilv v (ins_effs (zlen ns) i) ns = firstn (Z.to_nat i) ns ++ v :: skipn (Z.to_nat i) ns.
Proof.
  intro H. unfold run, ins_effs. cbn [fold_left step put sel fst snd].
  pose (n := Z.to_nat i). pose (m := (length ns - n)%nat).
  assert (Hn : (n <= length ns)%nat) by (unfold n, zlen in *; lia).
  rewrite slice_prefix.
  replace (slice ns i (zlen ns)) with (skipn n ns) by (symmetry; apply slice_suffix; lia).
  replace (Z.to_nat (zlen ns + 1)) with (n + S m)%nat by (unfold n, m, zlen in *; lia).
  rewrite repeat_app. cbn [repeat]. fold n.
  (* copy(ary[0:i], nodes[0:i]) *)
  change (repeat nilv n ++ nilv :: repeat nilv m) with ([] ++ repeat nilv n ++ nilv :: repeat nilv m).
  rewrite blit_app; cycle 1.
  { reflexivity. }
  { rewrite firstn_length_le by exact Hn. unfold n. f_equal. lia. }
  { rewrite repeat_length, firstn_length_le by exact Hn. reflexivity. }
  cbn [app].
  (* ary[i] = val *)
  rewrite upd_app by (rewrite firstn_length_le by exact Hn; reflexivity).
  (* copy(ary[i+1:], nodes[i:]) *)
  replace (firstn n ns ++ v :: repeat nilv m) with ((firstn n ns ++ [v]) ++ repeat nilv m ++ [])
    by (rewrite <- app_assoc, app_nil_r; reflexivity).
  rewrite blit_app; cycle 1.
  { rewrite app_length, firstn_length_le by exact Hn. simpl. unfold n. lia. }
  { rewrite skipn_length. unfold n, zlen in *. lia. }
  { rewrite repeat_length, skipn_length. reflexivity. }
  rewrite app_nil_r, <- app_assoc. reflexivity.
Qed.

Lemma run_rm {A} (nilv v : A) (ns : list A) i : 0 <= i < zlen ns ->
  run nilv v (rm_effs (zlen ns) i) ns = firstn (Z.to_nat i) ns ++ skipn (S (Z.to_nat i)) ns.
Proof.
  intro H. unfold run, rm_effs. cbn [fold_left step put sel fst snd].
  pose (n := Z.to_nat i). pose (m := (length ns - S n)%nat).
  assert (Hn : (S n <= length ns)%nat) by (unfold n, zlen in *; lia).
  rewrite slice_prefix.
  replace (slice ns (i + 1) (zlen ns)) with (skipn (S n) ns)
    by (symmetry; replace (S n) with (Z.to_nat (i + 1)) by (unfold n; lia); apply slice_suffix; lia).
  replace (Z.to_nat (zlen ns - 1)) with (n + m)%nat by (unfold n, m, zlen in *; lia).
  rewrite repeat_app. fold n.
  change (repeat nilv n ++ repeat nilv m) with ([] ++ repeat nilv n ++ repeat nilv m).
  rewrite blit_app; cycle 1.
  { reflexivity. }
  { rewrite firstn_length_le by lia. unfold n. f_equal. lia. }
  { rewrite repeat_length, firstn_length_le by lia. reflexivity. }
  cbn [app].
  replace (firstn n ns ++ repeat nilv m) with (firstn n ns ++ repeat nilv m ++ []) by (now rewrite app_nil_r).
  rewrite blit_app; cycle 1.
  { rewrite firstn_length_le by lia. reflexivity. }
  { rewrite skipn_length. unfold n, zlen in *. lia. }
  { rewrite repeat_length, skipn_length. reflexivity. }
  now rewrite app_nil_r.
Qed.

(* ---- the integer skeletons of the model functions ---- *)
(* resolve_idx_get / con_get on an array; emp is key == "" *)
Definition spec_get (neg : bool) (len : Z) (a : option Z) (emp : bool) : outcome :=
  if emp then GSelf else
  match a with
  | None => GErr CAtoi
  | Some idx =>
      if idx <? 0 then
        if negb neg then GErr CInvalidIndex
        else if idx <? - len then GErr CInvalidIndex
        else let idx := idx + len in
             if len <=? idx then GErr CInvalidIndex else GRet idx
      else if len <=? idx then GErr CInvalidIndex else GRet idx
  end.

(* ary_set *)
Definition spec_set (neg : bool) (len : Z) (a : option Z) : outcome :=
  match a with
  | None => GErr CAtoi
  | Some idx =>
      if idx <? 0 then
        if negb neg then GErr CInvalidIndex
        else if idx <? - len then GErr CInvalidIndex
        else let idx := idx + len in
             if len <=? idx then GPanic else GDone [EStore SNodes idx]
      else if len <=? idx then GPanic else GDone [EStore SNodes idx]
  end.

(* ary_add; dash is key == "-" *)
Definition spec_add (neg : bool) (len : Z) (a : option Z) (dash : bool) : outcome :=
  if dash then GDone [EAppend] else
  match a with
  | None => GErr CAtoi
  | Some idx =>
      let sz := len + 1 in
      if sz <=? idx then GErr CInvalidIndex
      else if idx <? 0 then
        if negb neg then GErr CInvalidIndex
        else if idx <? - sz then GErr CInvalidIndex
        else let idx := idx + sz in
             if len <? idx then GPanic else GDone (ins_effs len idx)
      else GDone (ins_effs len idx)
  end.

(* ary_remove *)
Definition spec_remove (neg allow : bool) (len : Z) (a : option Z) : outcome :=
  match a with
  | None => GErr CAtoi
  | Some idx =>
      if len <=? idx then (if allow then GDone [] else GErr CInvalidIndex)
      else if idx <? 0 then
        if negb neg then GErr CInvalidIndex
        else if idx <? - len then (if allow then GDone [] else GErr CInvalidIndex)
        else let idx := idx + len in GDone (rm_effs len idx)
      else GDone (rm_effs len idx)
  end.

(* ---- concrete boundary values: printed when a tie is broken ---- *)
(* The general theorems above fail with a symbolic case; this table evaluates both sides on the
   boundary values of every test and lists the inputs (neg, allow, len, atoi result) on which the
   function generated from patch.go and the skeleton of the model differ, with both outcomes. *)
Definition outcome_eq_dec (x y : outcome) : {x = y} + {x <> y}.
Proof.
  repeat (decide equality; try apply Z.eq_dec).
Defined.

Definition grid_lens (top : Z) : list Z := [0; 1; 2; 3; top - 1; top].

Definition grid_idxs (len : Z) : list (option Z) :=
  None :: map Some
    (nodup Z.eq_dec (filter (fun z => (int64_min <=? z) && (z <=? int64_max))
       [int64_min; int64_min + 1; - len - 2; - len - 1; - len; - len + 1; -2; -1; 0; 1;
        len - 1; len; len + 1; len + 2; int64_max - 1; int64_max])).

Definition grid_bad (top : Z) (f g : bool -> bool -> Z -> option Z -> outcome)
  : list (bool * bool * Z * option Z * outcome * outcome) :=
  flat_map (fun neg => flat_map (fun allow => flat_map (fun len => flat_map (fun a =>
    if outcome_eq_dec (f neg allow len a) (g neg allow len a) then []
    else [(neg, allow, len, a, f neg allow len a, g neg allow len a)])
    (grid_idxs len)) (grid_lens top)) [false; true]) [false; true].

Definition nokey (_ : list byte) : bool := false.

Definition bad_get := grid_bad int64_max (fun n al l a => idx_get_gen n al l a nokey) (fun n _ l a => spec_get n l a false).
Definition bad_set := grid_bad int64_max (fun n al l a => idx_set_gen n al l a nokey) (fun n _ l a => spec_set n l a).
Definition bad_add := grid_bad (int64_max - 1) (fun n al l a => idx_add_gen n al l a nokey) (fun n _ l a => spec_add n l a false).
Definition bad_remove := grid_bad int64_max (fun n al l a => idx_remove_gen n al l a nokey) (fun n al l a => spec_remove n al l a).

(* (neg, allow, len, atoi, outcome of patch.go as translated, outcome of the model) *)
Eval vm_compute in (bad_get, bad_set, bad_add, bad_remove).

(* ---- step 1: the generated functions are the skeletons, for every int ---- *)
Ltac show_case :=
  idtac "IndexTie: UNPROVED CASE -- patch.go as translated differs from the model here:";
  try (match goal with H : ?T |- _ =>
         lazymatch type of T with Prop => idtac "   " H ":" T | _ => idtac "   " H ":" T end; fail end);
  match goal with |- ?G => idtac "   |-" G end.

Ltac range_tac := unfold in64, int64_min, int64_max in *; lia.

Ltac no_wrap t := lazymatch t with context [wrap64 _] => fail | _ => idtac end.

Ltac tie_step :=
  first
  [ match goal with |- context [if ?b then _ else _] => is_var b; destruct b end
  | match goal with |- context [negb ?b] => is_var b; destruct b end
  | progress cbn [negb andb orb]
  | (* a wrap-around that cannot happen here *)
    match goal with |- context [wrap64 ?z] => no_wrap z; rewrite (wrap64_id z) by range_tac end
  | match goal with |- context [Z.ltb ?a ?b] => no_wrap a; no_wrap b;
      destruct (Z.ltb_spec a b); try (exfalso; range_tac) end
  | match goal with |- context [Z.leb ?a ?b] => no_wrap a; no_wrap b;
      destruct (Z.leb_spec a b); try (exfalso; range_tac) end
  | match goal with |- context [Z.eqb ?a ?b] => no_wrap a; no_wrap b;
      destruct (Z.eqb_spec a b); try (exfalso; range_tac) end
  | (* a wrap-around that can happen (not met on the unchanged patch.go): split on it, so that a
       harmless one is proved and a harmful one is shown with its cause *)
    match goal with |- context [wrap64 ?z] => no_wrap z;
      destruct (Z_lt_le_dec int64_max z) as [?OVERFLOW|?];
      [ rewrite (wrap64_over z) by range_tac
      | destruct (Z_lt_le_dec z int64_min) as [?UNDERFLOW|?];
        [ rewrite (wrap64_under z) by range_tac | rewrite (wrap64_id z) by range_tac ] ] end ].

(* equal outcomes: same constructors, integer arguments equal by arithmetic *)
Lemma ecopy_eq d s a b c e a' b' c' e' : a = a' -> b = b' -> c = c' -> e = e' ->
  ECopy d a b s c e = ECopy d a' b' s c' e'.
Proof. intros; subst; reflexivity. Qed.

Ltac eff_eq :=
  lazymatch goal with
  | |- @eq Z _ _ => range_tac
  | |- GDone _ = GDone _ => apply f_equal; eff_eq
  | |- GRet _ = GRet _ => apply f_equal; eff_eq
  | |- (_ :: _) = (_ :: _) => apply f_equal2; eff_eq
  | |- EMake _ = EMake _ => apply f_equal; eff_eq
  | |- EStore ?x _ = EStore ?x _ => apply f_equal; eff_eq
  | |- ECopy ?d _ _ ?s _ _ = ECopy ?d _ _ ?s _ _ => apply ecopy_eq; eff_eq
  | |- _ => reflexivity
  end.

Ltac tie_close := first [ reflexivity | unfold ins_effs, rm_effs; solve [eff_eq] ].

Ltac tie_auto := cbv zeta; repeat tie_step; first [ tie_close | show_case ].

Theorem get_gen_spec neg allow len a keyeq :
  0 <= len <= int64_max -> atoi_ok a ->
  idx_get_gen neg allow len a keyeq = spec_get neg len a (keyeq []).
Proof.
  intros Hl Ha. unfold idx_get_gen, spec_get.
  destruct (keyeq []); [reflexivity|].
  destruct a as [idx|]; [simpl in Ha|reflexivity].
  tie_auto.
Qed.

Theorem set_gen_spec neg allow len a keyeq :
  0 <= len <= int64_max -> atoi_ok a ->
  idx_set_gen neg allow len a keyeq = spec_set neg len a.
Proof.
  intros Hl Ha. unfold idx_set_gen, spec_set.
  destruct a as [idx|]; [simpl in Ha|reflexivity].
  tie_auto.
Qed.

(* len + 1 must be an int: see add_overflow_at_max_len below *)
Theorem add_gen_spec neg allow len a keyeq :
  0 <= len < int64_max -> atoi_ok a ->
  idx_add_gen neg allow len a keyeq = spec_add neg len a (keyeq [x2d]).
Proof.
  intros Hl Ha. unfold idx_add_gen, spec_add.
  destruct (keyeq [x2d]); [reflexivity|].
  destruct a as [idx|]; [simpl in Ha|reflexivity].
  tie_auto.
Qed.

Theorem remove_gen_spec neg allow len a keyeq :
  0 <= len <= int64_max -> atoi_ok a ->
  idx_remove_gen neg allow len a keyeq = spec_remove neg allow len a.
Proof.
  intros Hl Ha. unfold idx_remove_gen, spec_remove.
  destruct a as [idx|]; [simpl in Ha|reflexivity].
  tie_auto.
Qed.

(* ---- step 2: the model functions are their skeletons read through the adapters ---- *)
Definition cls (c : errcls) : errclass :=
  match c with CInvalidIndex => EInvalidIndex | CMissing => EMissing | CAtoi => EAtoi | COther => EOther end.

(* the result of get: the index found (resolve_idx_get), the node (con_get) *)
Definition res_idx (g : outcome) : res nat :=
  match g with
  | GRet i => Ok (Z.to_nat i)
  | GErr c => Err (cls c)
  | GSelf | GDone _ | GPanic => Panic
  end.

Definition res_node (self : node) (ns : list node) (g : outcome) : res node :=
  match g with
  | GSelf => Ok self
  | GRet i => Ok (nth (Z.to_nat i) ns NNil)
  | GErr c => Err (cls c)
  | GDone _ | GPanic => Panic
  end.

(* the result of set / add / remove: d.nodes after the effects *)
Definition res_nodes (ns : list node) (v : node) (g : outcome) : res (list node) :=
  match g with
  | GDone es => Ok (run NNil v es ns)
  | GErr c => Err (cls c)
  | GSelf | GRet _ | GPanic => Panic
  end.

Lemma bseq_nil key : bseq key [] = match key with [] => true | _ => false end.
Proof. destruct key; reflexivity. Qed.

Theorem get_spec_model o len key :
  resolve_idx_get o len key = res_idx (spec_get (o_neg o) len (atoi key) false).
Proof.
  unfold resolve_idx_get, spec_get. destruct (atoi key) as [idx|]; [|reflexivity].
  destruct (idx <? 0).
  - destruct (o_neg o); [|reflexivity]. cbn [negb].
    destruct (idx <? - len); [reflexivity|]. cbv zeta. destruct (len <=? idx + len); reflexivity.
  - destruct (len <=? idx); reflexivity.
Qed.

Theorem con_get_spec_model o self ns key :
  con_get o (KAry self ns) key = res_node self ns (spec_get (o_neg o) (zlen ns) (atoi key) (bseq key [])).
Proof.
  rewrite bseq_nil. cbn [con_get]. destruct key as [|c r]; [reflexivity|].
  rewrite get_spec_model. unfold spec_get.
  destruct (atoi (c :: r)) as [idx|]; [|reflexivity].
  destruct (idx <? 0).
  - destruct (o_neg o); [|reflexivity]. cbn [negb].
    destruct (idx <? - zlen ns); [reflexivity|]. cbv zeta. destruct (zlen ns <=? idx + zlen ns); reflexivity.
  - destruct (zlen ns <=? idx); reflexivity.
Qed.

Theorem set_spec_model o ns key v :
  ary_set o ns key v = res_nodes ns v (spec_set (o_neg o) (zlen ns) (atoi key)).
Proof.
  unfold ary_set, spec_set. destruct (atoi key) as [idx|]; [|reflexivity]. cbv zeta.
  destruct (idx <? 0).
  - destruct (o_neg o); [|reflexivity]. cbn [negb].
    destruct (idx <? - zlen ns); [reflexivity|]. destruct (zlen ns <=? idx + zlen ns); reflexivity.
  - destruct (zlen ns <=? idx); reflexivity.
Qed.

Theorem add_spec_model o ns key v :
  ary_add o ns key v = res_nodes ns v (spec_add (o_neg o) (zlen ns) (atoi key) (bseq key [x2d])).
Proof.
  unfold ary_add, spec_add. destruct (bseq key [x2d]); [reflexivity|].
  destruct (atoi key) as [idx|]; [|reflexivity]. cbv zeta.
  pose proof (Zle_0_nat (length ns)) as L0. fold (zlen ns) in L0.
  destruct (Z.leb_spec (zlen ns + 1) idx); [reflexivity|].
  destruct (Z.ltb_spec idx 0).
  - destruct (o_neg o); [|reflexivity]. cbn [negb].
    destruct (Z.ltb_spec idx (- (zlen ns + 1))); [reflexivity|].
    destruct (Z.ltb_spec (zlen ns) (idx + (zlen ns + 1))); [reflexivity|].
    cbn [res_nodes]. rewrite run_ins by lia. reflexivity.
  - cbn [res_nodes]. rewrite run_ins by lia. reflexivity.
Qed.

Theorem remove_spec_model o ns key :
  ary_remove o ns key = res_nodes ns NNil (spec_remove (o_neg o) (o_allow o) (zlen ns) (atoi key)).
Proof.
  unfold ary_remove, spec_remove. destruct (atoi key) as [idx|]; [|reflexivity]. cbv zeta.
  destruct (Z.leb_spec (zlen ns) idx); [destruct (o_allow o); reflexivity|].
  destruct (Z.ltb_spec idx 0).
  - destruct (o_neg o); [|reflexivity]. cbn [negb].
    destruct (Z.ltb_spec idx (- zlen ns)); [destruct (o_allow o); reflexivity|].
    cbn [res_nodes]. rewrite run_rm by lia. reflexivity.
  - cbn [res_nodes]. rewrite run_rm by lia. reflexivity.
Qed.

(* ---- the ties, on tokens: each model function is the function generated from patch.go ---- *)
(* hypothesis: the slice is shorter than 2^63 (for add: its length plus one is an int) *)
Theorem resolve_idx_get_tie o len key :
  0 <= len <= int64_max ->
  resolve_idx_get o len key = res_idx (idx_get_gen (o_neg o) (o_allow o) len (atoi key) (fun _ => false)).
Proof.
  intro H. rewrite get_gen_spec by (auto using atoi_in64). apply get_spec_model.
Qed.

Theorem con_get_tie o self ns key :
  zlen ns <= int64_max ->
  con_get o (KAry self ns) key = res_node self ns (idx_get_gen (o_neg o) (o_allow o) (zlen ns) (atoi key) (bseq key)).
Proof.
  intro H. pose proof (Zle_0_nat (length ns)) as L0. fold (zlen ns) in L0.
  rewrite get_gen_spec by (auto using atoi_in64). apply con_get_spec_model.
Qed.

Theorem ary_set_tie o ns key v :
  zlen ns <= int64_max ->
  ary_set o ns key v = res_nodes ns v (idx_set_gen (o_neg o) (o_allow o) (zlen ns) (atoi key) (bseq key)).
Proof.
  intro H. pose proof (Zle_0_nat (length ns)) as L0. fold (zlen ns) in L0.
  rewrite set_gen_spec by (auto using atoi_in64). apply set_spec_model.
Qed.

Theorem ary_add_tie o ns key v :
  zlen ns < int64_max ->
  ary_add o ns key v = res_nodes ns v (idx_add_gen (o_neg o) (o_allow o) (zlen ns) (atoi key) (bseq key)).
Proof.
  intro H. pose proof (Zle_0_nat (length ns)) as L0. fold (zlen ns) in L0.
  rewrite add_gen_spec by (auto using atoi_in64). apply add_spec_model.
Qed.

Theorem ary_remove_tie o ns key :
  zlen ns <= int64_max ->
  ary_remove o ns key = res_nodes ns NNil (idx_remove_gen (o_neg o) (o_allow o) (zlen ns) (atoi key) (bseq key)).
Proof.
  intro H. pose proof (Zle_0_nat (length ns)) as L0. fold (zlen ns) in L0.
  rewrite remove_gen_spec by (auto using atoi_in64). apply remove_spec_model.
Qed.

Example boundary_values_agree : (bad_get, bad_set, bad_add, bad_remove) = ([], [], [], []).
Proof. vm_compute. reflexivity. Qed.

(* ---- where the range hypothesis of add is needed ---- *)
(* With len(d.nodes) = 2^63-1 the Go code computes sz = len+1 = -2^63 and make panics; the model
   computes with unbounded integers.  A slice of that length cannot exist (2^66 bytes of
   pointers), so this is the edge of the hypothesis zlen ns < int64_max, not a reachable case. *)
Example add_overflow_at_max_len :
  idx_add_gen false false int64_max (Some 0) nokey = GPanic /\
  spec_add false int64_max (Some 0) false = GDone (ins_effs int64_max 0).
Proof. split; vm_compute; reflexivity. Qed.

(* the panic of set is real (index out of range); Patch.replace calls get first *)
Example set_out_of_range_panics : idx_set_gen false false 2 (Some 2) nokey = GPanic.
Proof. vm_compute. reflexivity. Qed.

(* the most negative int: - idx wraps around; patch.go compares idx < -len and is not affected *)
Example most_negative_index :
  idx_get_gen true false 3 (Some int64_min) nokey = GErr CInvalidIndex /\
  idx_remove_gen true true 3 (Some int64_min) nokey = GDone [] /\
  idx_add_gen true false 3 (Some (-4)) nokey = GDone (ins_effs 3 0).
Proof. repeat split; vm_compute; reflexivity. Qed.

Print Assumptions get_gen_spec.
Print Assumptions set_gen_spec.
Print Assumptions add_gen_spec.
Print Assumptions remove_gen_spec.
Print Assumptions resolve_idx_get_tie.
Print Assumptions con_get_tie.
Print Assumptions ary_set_tie.
Print Assumptions ary_add_tie.
Print Assumptions ary_remove_tie.
