(* RefFacts.v — the RFC 6902 reference (Rfc6902.v) restated as "descend to the parent, act on the
   leaf, rebuild": the form in which the implementation's pointer walk is compared with it. *)
From Coq Require Import Lia.
From JP Require Import Bytes Json Pointer Rfc6902 DecodeFacts JsonFacts.

Definition child_at (d : dialect) (j : ojson) (t : bytes) : option ojson :=
  match j with
  | OObj ms => aget t ms
  | OArr l => match idx_existing d (zlen l) t with Some i => Some (nth i l ONull) | None => None end
  | _ => None
  end.

Definition put_child (d : dialect) (j : ojson) (t : bytes) (c' : ojson) : ojson :=
  match j with
  | OObj ms => OObj (aset t c' ms)
  | OArr l => match idx_existing d (zlen l) t with Some i => OArr (set_at i c' l) | None => j end
  | _ => j
  end.

Fixpoint descend (d : dialect) (toks : list bytes) (j : ojson) : option ojson :=
  match toks with
  | [] => Some j
  | t :: r => match child_at d j t with Some c => descend d r c | None => None end
  end.

Fixpoint rebuild (d : dialect) (toks : list bytes) (j x : ojson) : ojson :=
  match toks with
  | [] => x
  | t :: r => match child_at d j t with Some c => put_child d j t (rebuild d r c x) | None => j end
  end.

Lemma bind_ok {A} (r : res A) : bind r (fun x => Ok x) = r.
Proof. destruct r; reflexivity. Qed.

Lemma at_parent_snoc d g : forall ps t j,
  at_parent d (ps ++ [t]) j g =
  match descend d ps j with
  | Some p => bind (g p t) (fun p' => Ok (rebuild d ps j p'))
  | None => Fail FUnreachable
  end.
Proof.
  induction ps as [|t0 ps IH]; intros t j.
  - simpl. now rewrite bind_ok.
  - change ((t0 :: ps) ++ [t]) with (t0 :: (ps ++ [t])).
    assert (NE : ps ++ [t] <> []) by (destruct ps; discriminate).
    cbn [descend rebuild].
    destruct (ps ++ [t]) as [|t1 rest] eqn:E; [congruence|]. rewrite <- E. clear NE.
    assert (U : at_parent d (t0 :: ps ++ [t]) j g =
                match j with
                | OObj ms => match aget t0 ms with
                             | Some c => bind (at_parent d (ps ++ [t]) c g) (fun c' => Ok (OObj (aset t0 c' ms)))
                             | None => Fail FUnreachable end
                | OArr l => match idx_existing d (zlen l) t0 with
                            | Some i => bind (at_parent d (ps ++ [t]) (nth i l ONull) g) (fun c' => Ok (OArr (set_at i c' l)))
                            | None => Fail FUnreachable end
                | _ => Fail FUnreachable
                end).
    { rewrite E. reflexivity. }
    rewrite U. clear U. destruct j; cbn [child_at]; auto.
    + destruct (idx_existing d (zlen l) t0) as [i|] eqn:Ei; auto. rewrite IH.
      destruct (descend d ps (nth i l ONull)); auto. destruct (g o t); auto. simpl. now rewrite Ei.
    + destruct (aget t0 ms) as [c|] eqn:Ec; auto. rewrite IH.
      destruct (descend d ps c); auto. destruct (g o t); auto.
Qed.

Definition get_leaf (d : dialect) (p : ojson) (t : bytes) : res ojson :=
  match p with
  | OObj ms => match aget t ms with Some c => Ok c | None => Fail FMissingMember end
  | OArr l => match idx_existing d (zlen l) t with Some i => Ok (nth i l ONull) | None => Fail FIndex end
  | _ => Fail FUnreachable
  end.

Lemma get_at_snoc d : forall ps t j,
  get_at d (ps ++ [t]) j =
  match descend d ps j with Some p => get_leaf d p t | None => Fail FUnreachable end.
Proof.
  induction ps as [|t0 ps IH]; intros t j.
  - simpl. destruct j; auto; try (destruct (idx_existing d (zlen l) t); auto); try (destruct (aget t ms); auto).
  - change ((t0 :: ps) ++ [t]) with (t0 :: (ps ++ [t])). cbn [get_at descend].
    assert (NE : ps ++ [t] <> []) by (destruct ps; discriminate).
    destruct j; cbn [child_at]; auto.
    + destruct (idx_existing d (zlen l) t0); [apply IH|]. destruct (ps ++ [t]); congruence.
    + destruct (aget t0 ms); [apply IH|]. destruct (ps ++ [t]); congruence.
Qed.

Lemma get_at_ok_descend d : forall toks j v, get_at d toks j = Ok v <-> descend d toks j = Some v.
Proof.
  induction toks as [|t r IH]; intros j v; simpl.
  - split; intro H; inversion H; auto.
  - destruct j; cbn [child_at]; try (split; discriminate).
    + destruct (idx_existing d (zlen l) t); [apply IH|]. destruct r; split; discriminate.
    + destruct (aget t ms); [apply IH|]. destruct r; split; discriminate.
Qed.

(* the leaf functions fail with FUnreachable on a parent that is not a container *)
Lemma leaf_noncontainer d p t :
  is_container p = false ->
  (forall v, add_leaf d v p t = Fail FUnreachable) /\ remove_leaf d p t = Fail FUnreachable /\
  (forall v, replace_leaf d v p t = Fail FUnreachable) /\ (forall v, test_leaf d v p t = Fail FUnreachable) /\
  get_leaf d p t = Fail FUnreachable.
Proof. destruct p; simpl; try discriminate; intros _; repeat split; reflexivity. Qed.

(* splitting a pointer into parent tokens and last token *)
Lemma tokens_split (all : list bytes) :
  all <> [] -> map decode_token all = map decode_token (removelast all) ++ [decode_token (last all [])].
Proof.
  intro H. rewrite (app_removelast_last [] H) at 1. rewrite map_app. reflexivity.
Qed.
