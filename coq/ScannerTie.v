(* ScannerTie.v — the scanner translated from the CURRENT scanner.go is the reference automaton:
   for every state, every parse-state stack and every byte.  Any behavioural change of scanner.go
   breaks this theorem, and the failing case is a (state, stack top, byte) witness; a rewrite that
   preserves behaviour (inside the subset the translator understands) does not. *)
From JP Require Import Bytes.
From JP.gen Require Import ScannerGen.
From JP Require Import ScannerRef.

Theorem gen_eq_ref : forall s c, step_fn (step s) s c = ref_step s c.
Proof.
  intros [stp et stk er] c.
  destruct stp; destruct stk as [|[] [|q l]]; destruct c; reflexivity.
Qed.

Theorem eof_eq_ref : forall s,
  negb (snd (scanner_eof s) =? scanError)%Z = ref_accepts_at_eof s.
Proof.
  intros [stp et stk er]. unfold scanner_eof, ref_accepts_at_eof. cbn [err endTop].
  destruct er; [reflexivity|]. destruct et; [reflexivity|].
  rewrite gen_eq_ref. cbn [step].
  destruct (endTop (fst (ref_step (mkScanner stp false stk false) x20))) eqn:E; cbn [snd]; [reflexivity|].
  destruct (negb (err (fst (ref_step (mkScanner stp false stk false) x20)))); reflexivity.
Qed.
