(* oracle.ml — driver around the extracted model (model.ml).  Reads the case lines written by the
   Go harness, runs the model / reference semantics on the same inputs and prints one verdict
   line per case:   id <TAB> kind <TAB> PROP=VERDICT ... <TAB> note
   VERDICT is P (pass), S:<reason> (outside the property's stated domain / not applicable),
   F:<what> (the implementation's observation contradicts the property on this input),
   D:<what> (fidelity diagnostic: model and implementation differ outside the gated observables).
   Only hex is parsed here; everything about JSON is done by the extracted Coq functions. *)
open Model
type string = Stdlib.String.t

(* ---------- bytes ---------- *)
let byte_of_int (i : int) : byte = Obj.magic i
let int_of_byte (b : byte) : int = Obj.magic b
let () = assert (byte_of_int 0x41 = X41 && byte_of_int 0 = X00 && byte_of_int 255 = Xff && int_of_byte X7b = 0x7b)

let bytes_of_string (s : string) : bytes =
  let r = ref [] in
  for i = String.length s - 1 downto 0 do r := byte_of_int (Char.code s.[i]) :: !r done; !r
let string_of_bytes (b : bytes) : string =
  let buf = Buffer.create 64 in List.iter (fun c -> Buffer.add_char buf (Char.chr (int_of_byte c))) b; Buffer.contents buf

let hexval c = match c with
  | '0'..'9' -> Char.code c - 48 | 'a'..'f' -> Char.code c - 87 | 'A'..'F' -> Char.code c - 55
  | _ -> failwith "bad hex"
(* "x6162" -> "ab" *)
let unhex (s : string) : string =
  if String.length s = 0 || s.[0] <> 'x' then failwith ("not hex: " ^ s);
  let n = (String.length s - 1) / 2 in
  String.init n (fun i -> Char.chr (hexval s.[1 + 2*i] * 16 + hexval s.[2 + 2*i]))
let hexb s = bytes_of_string (unhex s)
let tohex (s : string) = let b = Buffer.create 16 in Buffer.add_char b 'x';
  String.iter (fun c -> Buffer.add_string b (Printf.sprintf "%02x" (Char.code c))) s; Buffer.contents b

(* ---------- numbers ---------- *)
let rec pos_of_int (i : int) : positive =
  if i = 1 then XH else if i land 1 = 0 then XO (pos_of_int (i lsr 1)) else XI (pos_of_int (i lsr 1))
let z_of_int (i : int) : z = if i = 0 then Z0 else if i > 0 then Zpos (pos_of_int i) else Zneg (pos_of_int (-i))
let rec int_of_nat (n : nat) : int = match n with O -> 0 | S k -> 1 + int_of_nat k

(* ---------- fields ---------- *)
let split_tab s = String.split_on_char '\t' s
let fields_of (parts : string list) : (string * string) list =
  List.filter_map (fun p -> match String.index_opt p '=' with
    | Some i -> Some (String.sub p 0 i, String.sub p (i+1) (String.length p - i - 1))
    | None -> None) parts
let get f k = try List.assoc k f with Not_found -> ""
let has f k = List.mem_assoc k f

(* ---------- helpers on JSON through the model ---------- *)
let parse_s (s : string) : tjson option = parse (bytes_of_string s)
let den_s s = match parse_s s with Some t -> Some (den t) | None -> None

let contains (s : string) (sub : string) : bool =
  let n = String.length s and m = String.length sub in
  let rec go i = if i + m > n then false else if String.sub s i m = sub then true else go (i+1) in
  m = 0 || go 0

let lower = String.lowercase_ascii

(* valid UTF-8? *)
let utf8_ok (s : string) : bool =
  let n = String.length s in
  let c i = Char.code s.[i] in
  let cont i = i < n && c i land 0xC0 = 0x80 in
  let rec go i =
    if i >= n then true else
    let b = c i in
    if b < 0x80 then go (i+1)
    else if b < 0xC2 then false
    else if b < 0xE0 then cont (i+1) && go (i+2)
    else if b < 0xF0 then
      i + 2 < n && cont (i+1) && cont (i+2)
      && (b <> 0xE0 || c (i+1) >= 0xA0) && (b <> 0xED || c (i+1) <= 0x9F) && go (i+3)
    else if b < 0xF5 then
      i + 3 < n && cont (i+1) && cont (i+2) && cont (i+3)
      && (b <> 0xF0 || c (i+1) >= 0x90) && (b <> 0xF4 || c (i+1) <= 0x8F) && go (i+4)
    else false in
  go 0

(* number literals that alias numerically: normalise to (neg, digits, exponent) *)
let norm_number (lit : string) : string =
  let neg, s = if String.length lit > 0 && lit.[0] = '-' then true, String.sub lit 1 (String.length lit - 1) else false, lit in
  let mant, exp =
    match String.index_opt (lower s) 'e' with
    | Some i -> String.sub s 0 i, (try int_of_string (let e = String.sub s (i+1) (String.length s - i - 1) in
                                                     if String.length e > 0 && e.[0] = '+' then String.sub e 1 (String.length e - 1) else e)
                                   with _ -> 0)
    | None -> s, 0 in
  let ip, fp = match String.index_opt mant '.' with
    | Some i -> String.sub mant 0 i, String.sub mant (i+1) (String.length mant - i - 1)
    | None -> mant, "" in
  let digits = ip ^ fp in
  let exp = exp - String.length fp in
  (* strip leading zeros *)
  let i = ref 0 in
  while !i < String.length digits && digits.[!i] = '0' do incr i done;
  let digits = String.sub digits !i (String.length digits - !i) in
  (* strip trailing zeros into the exponent *)
  let j = ref (String.length digits) in
  let exp = ref exp in
  while !j > 0 && digits.[!j - 1] = '0' do decr j; incr exp done;
  let digits = String.sub digits 0 !j in
  if digits = "" then "0" else Printf.sprintf "%s%se%d" (if neg then "-" else "") digits !exp

let rec numbers_t (t : tjson) (acc : string list) : string list =
  match t with
  | TNum lit -> string_of_bytes lit :: acc
  | TArr l -> List.fold_left (fun a x -> numbers_t x a) acc l
  | TObj ms -> List.fold_left (fun a (_, x) -> numbers_t x a) acc ms
  | _ -> acc

(* two different literals with the same numeric value among the numbers of the inputs *)
let has_number_alias (ts : tjson list) : bool =
  let lits = List.sort_uniq compare (List.fold_left (fun a t -> numbers_t t a) [] ts) in
  let norms = List.map norm_number lits in
  List.length (List.sort_uniq compare norms) <> List.length lits

(* ---------- verdicts ---------- *)
(* K (key, what): the failure belongs to a recorded class of known findings (known_findings.json) *)
type verdict = P | S of string | F of string | D of string | K of string * string
let vstr = function P -> "P" | S r -> "S:" ^ r | F r -> "F:" ^ r | D r -> "D:" ^ r | K (k, r) -> "K:" ^ k ^ ":" ^ r
let esc_note s = String.map (fun c -> if c = '\t' || c = '\n' then ' ' else c) s
let esc_v s = String.map (fun c -> if c = '\t' || c = '\n' || c = ' ' then '_' else c) s

let out_line id kind (vs : (string * verdict) list) note =
  Printf.printf "%s\t%s\t%s\t%s\n" id kind
    (String.concat " " (List.map (fun (p, v) -> p ^ "=" ^ esc_v (vstr v)) vs)) (esc_note note)

let errclass_str = function
  | ETestFailed -> "test-failed" | EMissing -> "missing" | EInvalidIndex -> "invalid-index" | EInvalid -> "invalid"
  | EExpectedObject -> "expected-object" | ECopyLimit _ -> "copy-limit" | EAtoi -> "atoi" | EDecode -> "decode" | EOther -> "other"

let cause_str = function
  | FTest -> "FTest" | FMissingMember -> "FMissingMember" | FUnreachable -> "FUnreachable" | FIndex -> "FIndex"
  | FRoot -> "FRoot" | FPointer -> "FPointer" | FOther -> "FOther"

let mk_opts flags limit =
  { o_neg = flags.[0] = '1'; o_allow = flags.[1] = '1'; o_ensure = flags.[2] = '1'; o_esc = flags.[3] = '1';
    o_limit = z_of_int limit; o_stale = []; o_nullsz = None }

let escapes = ["\\u003c"; "\\u003e"; "\\u0026"; "\\u2028"; "\\u2029"]

let op_is_test (op : operation) = (op_kind op = KTest)

(* nesting of a JSON text (brackets outside strings) *)
let byte_depth (s : string) : int =
  let d = ref 0 and m = ref 0 and instr = ref false and esc = ref false in
  String.iter (fun c ->
      if !instr then (if !esc then esc := false else if c = '\\' then esc := true else if c = '"' then instr := false)
      else (match c with
          | '"' -> instr := true
          | '[' | '{' -> incr d; if !d > !m then m := !d
          | ']' | '}' -> decr d
          | _ -> ())) s;
  !m

(* ---------- apply ---------- *)
let judge_apply f =
  let id = get f "id" in
  let flags = get f "flags" in
  let limit = int_of_string (get f "limit") in
  let o = mk_opts flags limit in
  let indent = unhex (get f "indent") in
  let patch = unhex (get f "patch") and doc = unhex (get f "doc") in
  let status = get f "status" in
  let dec = get f "dec" = "1" in
  let out = unhex (get f "out") in
  let errbits = get f "errbits" in
  let vs = ref [] in
  let add p v = vs := (p, v) :: !vs in
  let note = ref "" in
  (* C04: never panics or hangs *)
  add "C04" (if status = "panic" || status = "timeout" then F status else P);
  let mops = api_decode (bytes_of_string patch) in
  (* C11: accept/reject agreement (the patch text "null" is outside C11's domain) *)
  if status <> "panic" && status <> "timeout" then begin
    let macc = mops <> None in
    if String.trim patch = "null" then add "C11" (S "null-patch")
    else add "C11" (if macc = dec then P else F (Printf.sprintf "DecodePatch accepted=%b model=%b" dec macc))
  end;
  (* documents nested to the decoder's limit (stream apply-deep): only "does it panic or hang" is
     judged; the model's printer is quadratic in the nesting depth (seconds per such case) *)
  let huge = String.length doc > 15000 && get f "stream" = "apply-deep" in
  (match mops with
   | Some _ when huge ->
     note := "deep document: C04 only";
     (* ... and one thing more: a successful call must return a document (not zero bytes) *)
     if status = "ok" && out = "" && doc <> "" then begin
       add "C04" (F "success with an empty result (neither a value nor an error)");
       add "C15" (F "success with an empty result")
     end
   | Some ops when dec && status <> "panic" && status <> "timeout" ->
     let r = api_apply o (bytes_of_string indent) ops (bytes_of_string doc) in
     let impl_ok = status = "ok" in
     let model_ok, model_out, model_err, model_idx = match r with
       | ROut b -> true, string_of_bytes b, None, -1
       | RErr (i, e) -> false, "", Some e, (match i with Some n -> int_of_nat n | None -> -1)
       | RPanic -> false, "", None, -2 in
     if r = RPanic then note := !note ^ " model-predicts-panic";
     (* fidelity diagnostic: exact agreement of model and implementation *)
     let exact = impl_ok = model_ok && (not impl_ok || out = model_out) in
     add "FID" (if exact then P else D (Printf.sprintf "impl=%s model=%s" (if impl_ok then tohex out else "err")
                                         (match r with ROut b -> tohex (string_of_bytes b) | RErr (_, e) -> "err:" ^ errclass_str e | RPanic -> "panic")));
     let tdoc = parse_s doc in
     let in_dom_base =
       match tdoc with
       | Some t -> root_container t && tnodup t && in_domain_C01 ops
                   (* a copy of a value nested deeper than the decoder's limit is an error of the
                      library (fix dc05ac4), not of RFC 6902: outside the domain (Depth.copies_fit) *)
                   && copies_fit (dialect_of o) (den t) (List.map den_op ops)
       | None -> false in
     let alias = match tdoc with
       | Some t -> has_number_alias (t :: List.concat_map (fun (op : operation) -> match List.assoc_opt (bytes_of_string "value") op with
                                                             | Some (Some v) -> [v] | _ -> []) ops)
       | None -> false in
     let has_test = List.exists op_is_test ops in
     let ref_res = match tdoc with
       | Some t when in_dom_base -> Some (rfc_apply (dialect_of o) (den t) (List.map den_op ops))
       | _ -> None in
     let out_den = if impl_ok then den_s out else None in
     (* C01 / C05: against the reference, in the stated domain, options off *)
     let plain = not o.o_allow && not o.o_ensure && limit = 0 in
     (match ref_res with
      | Some rr when plain && not (alias && has_test) ->
        (match rr with
         | Done rdoc ->
           if not impl_ok then (add "C01" (F "reference succeeds, Apply fails"); add "C05" (S "failed"))
           else if byte_depth out > 10000 then
             (* the result nests deeper than the library's own notion of JSON (C16): not compared *)
             (add "C01" (S "result-too-deep"); add "C05" (S "result-too-deep"))
           else (match out_den with
               | None -> add "C01" (F "output does not parse"); add "C05" (F "output does not parse")
               | Some od ->
                 add "C01" (if jeq od rdoc && jeq rdoc od then P else F "value differs from the RFC result");
                 add "C05" (if oeqb od rdoc then P else if jeq od rdoc then F "member order or literal differs from ordered reference" else F "value differs"))
         | Failed (i, c) ->
           add "C01" (if impl_ok then F ("reference fails (" ^ cause_str c ^ "), Apply succeeds") else P);
           add "C05" (S "failed");
           ignore i)
      | Some _ -> add "C01" (S (if plain then "number-alias" else "options")); add "C05" (S "options-or-alias")
      | None -> add "C01" (S "domain"); add "C05" (S "domain"));
     (* self-check of the theorem instance: model vs reference in the domain *)
     (match ref_res with
      | Some rr when plain && not (alias && has_test) ->
        (match rr, r with
         | Done rdoc, ROut mb ->
           (match parse mb with
            | Some mt -> add "SELF" (if oeqb (den mt) rdoc then P else F "model result differs from ordered reference")
            | None -> if byte_depth (string_of_bytes mb) > 10000 then () else add "SELF" (F "model output does not parse"))
         | Failed (i, _), RErr (Some j, _) -> add "SELF" (if int_of_nat i = int_of_nat j then P else F "model and reference fail at different operations")
         | Done _, _ -> add "SELF" (F "reference succeeds, model fails")
         | Failed _, _ -> add "SELF" (F "reference fails, model does not fail in an operation"))
      | _ -> ());
     (* C08: failing Apply returns nothing and says why; judged against the model (any options) *)
     if impl_ok then add "C08" (if model_ok then P else F "Apply succeeds, model fails")
     else begin
       let outnil = get f "outnil" = "1" in
       let fi = if has f "failidx" then int_of_string (get f "failidx") else -1 in
       let pb = get f "prefixbits" in
       let bit i = String.length errbits > i && errbits.[i] = '1' in
       let rec take n l = if n <= 0 then [] else match l with [] -> [] | x :: r -> x :: take (n-1) r in
       (* a prefix whose operations all apply can still fail when the result is marshalled
          (a document replaced by null): then the prefix runs do not locate the operation *)
       let prefix_marshal_fails = fi >= 0 && (match api_apply o (bytes_of_string indent) (take (fi+1) ops) (bytes_of_string doc) with RErr (None, _) -> true | _ -> false) in
       if not outnil then add "C08" (F "error with a non-nil document")
       else if pb <> "" && pb <> errbits && not prefix_marshal_fails then add "C08" (F "operations after the first failing one change the error")
       else match model_err with
         | None -> add "C08" (if model_ok then F "Apply fails, model succeeds" else S "model-panic")
         | Some e ->
           let is_tf = (e = ETestFailed) and is_cl = (match e with ECopyLimit _ -> true | _ -> false) in
           if model_idx >= 0 && fi >= 0 && fi <> model_idx && not prefix_marshal_fails then add "C08" (F (Printf.sprintf "first failing operation %d, model %d" fi model_idx))
           else if bit 0 <> is_tf then add "C08" (F (Printf.sprintf "ErrTestFailed=%b, model cause %s" (bit 0) (errclass_str e)))
           else if bit 2 <> is_cl then add "C08" (F (Printf.sprintf "AccumulatedCopySizeError=%b, model cause %s" (bit 2) (errclass_str e)))
           else if e = EMissing && not (bit 1) then add "C08" (F "ErrMissing not reported for a missing member / unreachable parent")
           else add "C08" P
     end;
     (* C12: the limit error exactly when the running total exceeds the limit.  A copied null may
        count 0 or 4 bytes: the model is evaluated under both conventions and either is accepted.
        Judged where the model is a model of the property's domain (well-formed pointers). *)
     if limit > 0 then begin
       let impl_cl = String.length errbits > 2 && errbits.[2] = '1' in
       let cl_under z = (match api_apply { o with o_nullsz = Some (z_of_int z) } (bytes_of_string indent) ops (bytes_of_string doc) with
           | RErr (_, ECopyLimit _) -> true | _ -> false) in
       let m0 = cl_under 0 and m4 = cl_under 4 in
       let ptr_ok = List.for_all (fun (op : operation) ->
           let okp name = (match op_str op (bytes_of_string name) with Ok0 p -> pointer_ok p | _ -> true) in
           okp "path" && okp "from") ops in
       add "C12" (if not ptr_ok then S "model-domain"
                  else if impl_cl = m0 || impl_cl = m4 then P
                  else F (Printf.sprintf "copy-limit error impl=%b model=%b/%b (null counted 0/4)" impl_cl m0 m4))
     end else add "C12" (if String.length errbits > 2 && errbits.[2] = '1' then F "limit 0 but AccumulatedCopySizeError" else P);
     (* C13 / C14: option on; value-level agreement with the model in the stated domains *)
     let value_agree () =
       if impl_ok <> model_ok then F (Printf.sprintf "Apply ok=%b model ok=%b" impl_ok model_ok)
       else if not impl_ok then P
       else match out_den, parse_s model_out with
         | Some od, Some mt -> if oeqb od (den mt) then P else F "document differs from model"
         | _ -> F "output does not parse" in
     if o.o_allow then add "C13" (if in_dom_base && not o.o_ensure && not (alias && has_test) then value_agree () else S "domain")
     else add "C13" (S "option-off");
     if o.o_ensure then begin
       let paths_ok = List.for_all (fun (op : operation) ->
           match op_kind op with
           | KAdd -> (match op_str op (bytes_of_string "path") with Ok0 p -> c14_path_ok p || p = [] | _ -> false)
           | _ -> true) ops in
       add "C14" (if in_dom_base && paths_ok && not (alias && has_test) then value_agree () else S "domain")
     end else add "C14" (S "option-off");
     (* C15: output well-formed, escape profile, indentation, transparency of passing tests *)
     if impl_ok && doc <> "" then begin
       let v =
         match parse_s out with
         | None -> F "output is not well-formed JSON"
         | Some ot ->
           if utf8_ok doc && utf8_ok patch && not (utf8_ok out) then F "output is not valid UTF-8"
           else if o.o_esc && (contains out "<" || contains out ">" || contains out "&" || contains out "\xe2\x80\xa8" || contains out "\xe2\x80\xa9")
           then F "EscapeHTML on but an unescaped < > & U+2028/9 in the output"
           else if not o.o_esc && List.exists (fun e -> contains (lower out) e && not (contains (lower doc) e) && not (contains (lower patch) e)) escapes
           then begin
             let introduced = List.filter (fun e -> contains (lower out) e && not (contains (lower doc) e) && not (contains (lower patch) e)) escapes in
             let raw_ls = contains doc "\xe2\x80\xa8" || contains doc "\xe2\x80\xa9" || contains patch "\xe2\x80\xa8" || contains patch "\xe2\x80\xa9" in
             if raw_ls && List.for_all (fun e -> e = "\\u2028" || e = "\\u2029") introduced
             then K ("c15-u2028-member-name", "EscapeHTML off: a member name holding a raw U+2028/U+2029 is written escaped (the encoder escapes them unconditionally)")
             else F "EscapeHTML off but the output holds an HTML escape that no input spells"
           end
           else if has f "out0" then begin
             let o0 = get f "out0" in
             match String.index_opt o0 ':' with
             | Some i when String.sub o0 0 i = "ok" ->
               let out0 = unhex (String.sub o0 (i+1) (String.length o0 - i - 1)) in
               (match parse_s out0 with
                | Some t0 -> if string_of_bytes (pp false (bytes_of_string indent) O t0) = out then P else F "ApplyIndent is not Apply re-indented"
                | None -> F "compact output does not parse")
             | _ -> F "Apply without indent fails where ApplyIndent succeeds"
           end else (ignore ot; P) in
       let v = match v with
         | P when has f "outnt" ->
           let canonical = (match tdoc with Some t -> canonical_spelling o.o_esc t | None -> false)
                           && List.for_all (fun (op : operation) -> match List.assoc_opt (bytes_of_string "value") op with
                               | Some (Some t) -> op_is_test op || canonical_spelling o.o_esc t | _ -> true) ops in
           if not canonical then P else
             let ont = get f "outnt" in
             (match String.index_opt ont ':' with
              | Some i when String.sub ont 0 i = "ok" ->
                if unhex (String.sub ont (i+1) (String.length ont - i - 1)) = out then P else F "passing tests change the output bytes"
              | _ -> F "patch without its passing tests fails")
         | v -> v in
       add "C15" v
     end else add "C15" (S "no-output")
   | _ -> ());
  (* the slice returned by the previous call no longer holds what it held: results must stay the
     caller's (C09: a later call changed an earlier outcome; C15: that earlier output is no longer the text) *)
  if get f "prevbroken" = "1" then begin
    add "C09" (F "the bytes returned by the previous Apply call were overwritten by this call");
    add "C01" (F "the document returned by the previous Apply call was overwritten by this call (no longer the RFC result)");
    add "C05" (F "the document returned by the previous Apply call was overwritten by this call (members and literals lost)");
    add "C15" (F "the bytes returned by the previous Apply call were overwritten by this call (no longer the output text)")
  end;
  out_line id "apply" (List.rev !vs) !note

(* ---------- equal ---------- *)
(* a decoded value with repeated member names reduced to what a Go map holds: one entry per name
   (den already gives every occurrence the last value), hereditarily *)
let rec dedup_o (j : ojson) : ojson =
  match j with
  | OArr l -> OArr (List.map dedup_o l)
  | OObj ms ->
    let rec go seen = function
      | [] -> []
      | (k, v) :: r -> if List.exists (fun k' -> bseq k k') seen then go seen r else (k, dedup_o v) :: go (k :: seen) r in
    OObj (go [] ms)
  | _ -> j

let judge_equal f =
  let id = get f "id" in
  let a = unhex (get f "a") and b = unhex (get f "b") in
  let st = get f "status" and st2 = get f "status2" in
  let res = get f "res" = "1" and res2 = get f "res2" = "1" in
  let c04 = if st <> "ok" || st2 <> "ok" then F (st ^ "/" ^ st2) else P in
  (* repeated member names: the value a text denotes is what decoding into a Go map gives (last value
     wins, one member per name), which is what dedup_o (den t) is *)
  let spec = match parse_s a, parse_s b with
    | Some ta, Some tb -> let x = dedup_o (den ta) and y = dedup_o (den tb) in jeq x y && jeq y x
    | _ -> false in
  let alias = match parse_s a, parse_s b with Some ta, Some tb -> has_number_alias [ta; tb] | _ -> false in
  let model = api_equal (bytes_of_string a) (bytes_of_string b) in
  let c06 =
    if st <> "ok" || st2 <> "ok" then F "panic"
    else if alias then S "number-alias"
    else if res <> spec then F (Printf.sprintf "Equal=%b, structural equality=%b" res spec)
    else if res <> res2 then F "not symmetric"
    else P in
  let c16 = match parse_s a, parse_s b with
    | Some _, Some _ -> P
    | _ -> if st = "ok" && res then F "Equal true on ill-formed input" else P in
  out_line id "equal" ["C04", c04; "C06", c06; "C16", c16; "FID", (if st = "ok" && res = model then P else D "model differs")] ""

(* ---------- merge ---------- *)
let parse_obs (s : string) : string * string * string =
  match String.split_on_char ':' s with
  | [st; ek; h] -> st, ek, (if h = "" then "" else unhex h)
  | _ -> "", "", ""

let merge_spec (doc : string) (patch : string) : ojson option =
  match den_s doc, den_s patch with
  | Some d, Some p -> Some (merge_patch d p)
  | _ -> None

let nodup_s s = match parse_s s with Some t -> tnodup t | None -> false
let is_null_s s = (match parse_s s with Some TNull -> true | _ -> false)

(* ordered merge check for C05: surviving document members first, in document order; then new ones *)
let rec order_ok (doc : ojson) (res : ojson) : bool =
  match doc, res with
  | OObj dms, OObj rms ->
    let dkeys = List.map fst dms in
    let rkeys = List.map fst rms in
    let surv = List.filter (fun k -> List.mem k dkeys) rkeys in
    let expected = List.filter (fun k -> List.mem k rkeys) dkeys in
    let rec prefix a b = match a, b with [], _ -> true | x :: a', y :: b' -> x = y && prefix a' b' | _ -> false in
    surv = expected && prefix surv rkeys
    && List.for_all (fun (k, rv) -> match List.assoc_opt k dms with Some dv -> order_ok dv rv | None -> true) rms
  | _ -> true

let judge_merge f =
  let id = get f "id" in
  let doc = unhex (get f "doc") and patch = unhex (get f "patch") in
  let mm = get f "mode" = "mm" in
  let st, ek, out = parse_obs (get f "obs") in
  let c04 = if st = "panic" || st = "timeout" then F st else P in
  let model = api_merge mm (bytes_of_string doc) (bytes_of_string patch) in
  let dv = parse_s doc and pv = parse_s patch in
  let c16 = match dv, pv with
    | Some _, Some _ -> if st = "err" && not (is_null_s doc) then F "well-formed inputs rejected" else P
    | _ -> if st = "ok" then F "ill-formed input accepted" else P in
  let c02, c05, c15 =
    if mm then S "mm", S "mm",
               (if st <> "ok" then S "no-output" else
                  match den_s out with
                  | None -> F "output is not well-formed JSON"
                  | Some od ->
                    if utf8_ok doc && utf8_ok patch && not (utf8_ok out) then F "output not UTF-8" else
                      (match dv, pv, model with
                       | Some _, Some _, MOut mb when nodup_s doc && nodup_s patch ->
                         (match den_s (string_of_bytes mb) with
                          | Some mv -> if jeq od mv && jeq mv od then P else F "the output does not read back as the intended value (the combined patch)"
                          | None -> P)
                       | _ -> P)) else
    match dv, pv with
    | Some _, Some _ when not (is_null_s doc) && nodup_s doc && nodup_s patch ->
      if st <> "ok" then F ("MergePatch fails: " ^ ek), S "failed", S "failed" else
        (match den_s out, merge_spec doc patch, den_s doc with
         | Some od, Some spec, Some dd ->
           (if jeq od spec && jeq spec od then P else F "differs from RFC 7396 result"),
           (if not (jeq od spec && jeq spec od) then F "value differs"
            else if not (order_ok dd od) then F "surviving members not in document order ahead of new ones"
            else if (let lits t = List.sort_uniq compare (numbers_t t []) in
                     match parse_s out, dv, pv with
                     | Some ot, Some dt, Some pt -> List.exists (fun l -> not (List.mem l (lits dt)) && not (List.mem l (lits pt))) (lits ot)
                     | _ -> true) then F "a number literal of the output occurs in neither input"
            else P),
           (if not (jeq od spec && jeq spec od) then F "the output does not read back as the intended value (the RFC 7396 result)"
            else if utf8_ok doc && utf8_ok patch && not (utf8_ok out) then F "output not UTF-8" else P)
         | None, _, _ -> F "output does not parse", F "output does not parse", F "output is not well-formed JSON"
         | _ -> S "spec", S "spec", S "spec")
    | _ -> S "domain", S "domain", S "domain" in
  let fid = match model with
    | MOut mb -> if st = "ok" && (match den_s out, den_s (string_of_bytes mb) with Some a, Some b -> jeq a b && jeq b a | _ -> false) then P else D "model differs"
    | MErr _ -> if st = "err" then P else D "model errs" in
  out_line id "merge" ["C04", c04; "C02", c02; "C05", c05; "C15", c15; "C16", c16; "FID", fid] ""

let judge_merge3 ?(v4=false) f =
  let id = get f "id" in
  let prop = if v4 then "C19" else "C07" in
  let doc = unhex (get f "doc") and p1 = unhex (get f "p1") and p2 = unhex (get f "p2") in
  let mst, _, mout = parse_obs (get f "mm") in
  let cst, _, cout = parse_obs (get f "comb") in
  let sst, _, sout = parse_obs (get f "seq") in
  let c04 = if List.mem mst ["panic"; "timeout"] || List.mem cst ["panic"; "timeout"] || List.mem sst ["panic"; "timeout"] then F "panic" else P in
  let c07 =
    match den_s doc, den_s p1, den_s p2 with
    | Some d, Some (OObj _ as o1), Some o2 when not (is_null_s doc) && nodup_s doc && nodup_s p1 && nodup_s p2 ->
      (match o2 with
       | OObj _ ->
         if not (compatible o1 o2) then S "incompatible" else
         if mst <> "ok" then F "MergeMergePatches fails" else
           (match den_s mout with
            | None -> F "combined patch does not parse"
            | Some mo ->
              let spec_mm = mm o1 o2 in
              if not (jeq mo spec_mm && jeq spec_mm mo) then F "combined patch differs from the reference composition"
              else
                let want = merge_patch (merge_patch d o1) o2 in
                let got = merge_patch d mo in
                if not (jeq got want && jeq want got) then F "combined patch applied (reference) differs from sequential application"
                else if cst <> "ok" || sst <> "ok" then F "library application fails"
                else (match den_s cout, den_s sout with
                    | Some a, Some b -> if jeq a b && jeq b a then P else F "library: combined differs from sequential"
                    | _ -> F "library outputs do not parse"))
       | _ ->
         if mst <> "ok" then F "MergeMergePatches fails" else
           (match den_s mout with Some mo -> if jeq mo o2 && jeq o2 mo then P else F "non-object P2: combined patch is not P2" | None -> F "no parse"))
    | _ -> S "domain" in
  let model = (if v4 then api_merge4 else api_merge) true (bytes_of_string p1) (bytes_of_string p2) in
  let fid = match model with
    | MOut mb -> if mst = "ok" && (match den_s mout, den_s (string_of_bytes mb) with Some a, Some b -> jeq a b && jeq b a | _ -> false) then P else D "model differs"
    | MErr _ -> if mst = "err" then P else D "model errs" in
  out_line id (if v4 then "merge34" else "merge3") ["C04", c04; prop, c07; "FID", fid] ""

(* ---------- create ---------- *)
let rec mentions_differ (a : ojson) (b : ojson) (p : ojson) : bool =
  (* every member the patch mentions differs between a and b at that path *)
  match p with
  | OObj pms ->
    List.for_all (fun (k, pv) ->
        let av = (match a with OObj ams -> List.assoc_opt k ams | _ -> None) in
        let bv = (match b with OObj bms -> List.assoc_opt k bms | _ -> None) in
        match av, bv with
        | None, None -> false
        | Some x, Some y ->
          if jeq x y && jeq y x then false
          else (match x, y, pv with OObj _, OObj _, OObj _ -> mentions_differ x y pv | _ -> true)
        | Some _, None -> pv = ONull
        | None, Some _ -> true) pms
  | _ -> true

let judge_create ?(v4=false) f =
  let id = get f "id" in
  let a = unhex (get f "a") and b = unhex (get f "b") in
  let st, _, out = parse_obs (get f "obs") in
  let rst, _, rout = parse_obs (get f "reapplied") in
  let c04 = if List.mem st ["panic"; "timeout"] || List.mem rst ["panic"; "timeout"] then F "panic" else P in
  let ta = parse_s a and tb = parse_s b in
  let c16 = match ta, tb with
    | Some _, Some _ -> P
    | _ -> if st = "ok" then F "ill-formed input accepted" else P in
  let is_obj = function Some (TObj _) -> true | _ -> false in
  let arr_of_obj = function Some (TArr l) -> Some l | _ -> None in
  let model = api_create (bytes_of_string a) (bytes_of_string b) in
  let check_pair (oa : ojson) (ob : ojson) (op : ojson) (reapplied : ojson option) : verdict =
    let spec = diff oa ob in
    if not (jeq op spec && jeq spec op) then F "patch differs from the reference difference"
    else if (match op with OObj [] -> not (jeq oa ob && jeq ob oa) | _ -> jeq oa ob && jeq ob oa) then F "{} exactly when equal violated"
    else if not (mentions_differ oa ob op) then F "patch mentions a member that does not differ"
    else if no_null_member ob then begin
      let got = merge_patch oa op in
      if not (jeq got ob && jeq ob got) then F "RFC application of the patch does not give B"
      else match reapplied with
        | Some r -> if jeq r ob && jeq ob r then P else F "library MergePatch of the patch does not give B"
        | None -> P
    end else P in
  let c03 =
    match ta, tb with
    | Some xa, Some xb when not (tnodup xa && tnodup xb) -> S "duplicate-names"
    | Some xa, Some xb ->
      if has_number_alias [xa; xb] then S "number-alias" else
      if is_obj ta && is_obj tb then begin
        if st <> "ok" then F "CreateMergePatch fails on two objects" else
          match den_s out with
          | None -> F "patch does not parse"
          | Some op -> check_pair (den xa) (den xb) op (if rst = "ok" then den_s rout else None)
      end else begin
        match arr_of_obj ta, arr_of_obj tb with
        | Some la, Some lb when List.for_all (function TObj _ -> true | _ -> false) (la @ lb) && List.length la = List.length lb ->
          if st <> "ok" then F "CreateMergePatch fails on arrays of objects" else
            (match den_s out with
             | Some (OArr ps) when List.length ps = List.length la ->
               let rec go la lb ps = match la, lb, ps with
                 | x :: la', y :: lb', p :: ps' -> (match check_pair (den x) (den y) p None with P -> go la' lb' ps' | v -> v)
                 | _ -> P in
               go la lb ps
             | _ -> F "patch is not an array of the same length")
        | _ ->
          (* rejection clause: anything else that is not a null root must be an error *)
          if xa = TNull || xb = TNull then S "null-root"
          else if (match arr_of_obj ta, arr_of_obj tb with Some la, Some lb -> List.exists (fun t -> t = TNull) (la @ lb) | _ -> false) then S "null-element"
          else if st = "ok" then F "inputs that are not both objects / arrays of objects accepted" else P
      end
    | _ -> S "ill-formed" in
  let c15 = if st = "ok" then (match parse_s out with
      | Some _ ->
        if utf8_ok a && utf8_ok b && not (utf8_ok out) then F "not UTF-8" else
          (* reads back as the intended value: in the domain of C03 (no repeated names, no aliased numbers)
             the value of the output is the value of the model's output *)
          (match c03, model, den_s out with
           | (P | F _), MOut mb, Some ov ->
             (match den_s (string_of_bytes mb) with
              | Some mv -> if jeq ov mv && jeq mv ov then P else F "the output does not read back as the intended patch"
              | None -> P)
           | _ -> P)
      | None -> F "output is not well-formed JSON") else S "no-output" in
  let fid = match model with
    | MOut mb -> if st = "ok" && string_of_bytes mb = out then P else D "model differs"
    | MErr _ -> if st = "err" then P else D "model errs" in
  if v4 then begin
    (* C19: numbers must be spelled the way Go prints a float64 (plain integers below 2^53) *)
    let stable lit = (lit = "0" || (let l = if lit.[0] = '-' then String.sub lit 1 (String.length lit - 1) else lit in
                                   String.length l > 0 && String.length l <= 15 && l.[0] <> '0' && String.for_all (fun c -> c >= '0' && c <= '9') l)) in
    let nums = (match ta, tb with Some x, Some y -> numbers_t x (numbers_t y []) | _ -> []) in
    (* the harness decides stability with Go itself (stable=1: encoding/json prints every number's
       float64 value back as spelled); older cases fall back to the integer rule *)
    let all_stable = if has f "stable" then get f "stable" = "1" else List.for_all stable nums in
    let c19 = if all_stable then c03 else S "numbers-not-float-stable" in
    out_line id "create4" ["C04", c04; "C19", c19] ""
  end else
  out_line id "create" ["C04", c04; "C03", c03; "C15", c15; "C16", c16; "FID", fid] ""

(* ---------- decode ---------- *)
let judge_decode f =
  let id = get f "id" in
  let inp = unhex (get f "in") in
  let st = get f "status" in
  let ok = get f "ok" = "1" in
  let c04 = if st <> "ok" then F st else P in
  let m = api_decode (bytes_of_string inp) in
  let opsf = get f "ops" in
  let c11 =
    if st <> "ok" then F "panic"
    else if (match parse_s inp with Some TNull -> true | _ -> false) then S "null-patch"
    else if contains opsf "nonnil-on-error" then F "rejected input yields a non-nil Patch"
    else match m with
      | None -> if ok then F "accepted, model rejects" else P
      | Some ops ->
        if not ok then F "rejected, model accepts" else begin
          let obs = if opsf = "" then [] else String.split_on_char ';' opsf in
          if List.length obs <> List.length ops then F "number of operations differs" else
            let check (op : operation) (o : string) : verdict =
              match String.split_on_char ',' o with
              | [k; p; fr; v] ->
                let kind_m = (match op_str op (bytes_of_string "op") with Ok0 s -> string_of_bytes s | _ -> "unknown") in
                let str_m name = (match op_str op (bytes_of_string name) with Ok0 s -> "1" ^ tohex (string_of_bytes s) | _ -> "0" ^ tohex "unknown") in
                if unhex k <> kind_m then F "Kind differs"
                else if p <> str_m "path" then F "Path differs"
                else if fr <> str_m "from" then F "From differs"
                else begin
                  let vm = List.assoc_opt (bytes_of_string "value") op in
                  match vm with
                  | None -> if v.[0] = '0' then P else F "ValueInterface succeeds without a value member"
                  | Some tv ->
                    if v.[0] <> '1' then F "ValueInterface fails" else
                      let want = (match tv with Some t -> den t | None -> ONull) in
                      (match den_s (unhex (String.sub v 1 (String.length v - 1))) with
                       | Some got -> if jeq got want && jeq want got then P else F "ValueInterface differs"
                       | None -> F "ValueInterface output does not parse")
                end
              | _ -> F "bad observation" in
            let rec go ops obs = match ops, obs with
              | op :: r, o :: r' -> (match check op o with P -> go r r' | v -> v)
              | _ -> P in
            go ops obs
        end in
  out_line id "decode" ["C04", c04; "C11", c11] ""

(* ---------- valid ---------- *)
let model_valid (b : bytes) : bool = valid_gen b

let judge_valid f =
  let id = get f "id" in
  let inp = unhex (get f "in") in
  let st = get f "status" in
  let v = get f "valid" = "1" in
  let b = bytes_of_string inp in
  let t = parse b in
  let spec = t <> None in
  let scan = model_valid b in
  let c04 = if st <> "ok" then F st else P in
  let vs = ref ["C04", c04] in
  let c16 = ref (if v <> spec then F (Printf.sprintf "Valid=%b, RFC 8259 reader=%b" v spec)
                 else if scan <> v then F (Printf.sprintf "Valid=%b, translated scanner=%b" v scan) else P) in
  let c17 = ref (S "valid-only") in
  let setf r x = (match !r with F _ -> () | _ -> r := x) in
  if has f "compactdeep" then begin
    let cf = get f "compactdeep" in
    if (cf.[0] = '1') <> spec then setf c16 (F "Compact accept/reject differs from the grammar (deep nesting)");
    if spec && cf.[1] <> '1' then c17 := F "Compact changes a text without whitespace";
    if (get f "unmarshal" = "1") <> spec then setf c16 (F "Unmarshal accept/reject differs from the grammar (deep nesting)");
    (* the public entry points on a deeply nested object: rejected iff ill-formed *)
    if has f "apideep" && String.length inp > 0 && inp.[0] = '{' then
      List.iter (fun e -> match String.split_on_char ':' e with
          | [name; st] ->
            if st = "panic" || st = "timeout" then vs := ["C04", F (st ^ " in " ^ name ^ " (deep nesting)")]
            else if spec && st <> "ok" then setf c16 (F (name ^ " rejects a well-formed deeply nested object"))
            else if (not spec) && st = "ok" then setf c16 (F (name ^ " accepts an ill-formed deeply nested text"))
          | _ -> ()) (String.split_on_char ';' (get f "apideep"))
  end;
  if has f "compact" then begin
    c17 := P;
    let cf = get f "compact" in
    let cok = cf.[0] = '1' and cout = unhex (String.sub cf 1 (String.length cf - 1)) in
    if cok <> spec then setf c16 (F "Compact accept/reject differs from the grammar");
    let inf = get f "indent" in
    let iok = inf.[0] = '1' and iout = unhex (String.sub inf 1 (String.length inf - 1)) in
    if iok <> spec then setf c16 (F "Indent accept/reject differs from the grammar");
    if (get f "unmarshal" = "1") <> spec then setf c16 (F "Unmarshal accept/reject differs from the grammar");
    (match t with
     | Some tt ->
       if cout <> string_of_bytes (print false tt) then setf c17 (F "Compact output is not the input without insignificant whitespace");
       (* Indent keeps trailing whitespace of the source: compare modulo trailing space *)
       let rstrip s = let n = ref (String.length s) in
         while !n > 0 && (s.[!n-1] = ' ' || s.[!n-1] = '\n' || s.[!n-1] = '\t' || s.[!n-1] = '\r') do decr n done; String.sub s 0 !n in
       if rstrip iout <> string_of_bytes (pp false (bytes_of_string "  ") O tt) then setf c17 (F "Indent output is not the re-indented input");
       (match den_s cout, den_s iout with
        | Some a, Some b -> if not (oeqb a (den tt) && oeqb b (den tt)) then setf c17 (F "Compact/Indent change the value")
        | _ -> setf c17 (F "Compact/Indent output does not parse"));
       if has f "htmlescape" then begin
         let h = unhex (get f "htmlescape") in
         (match den_s h with
          | Some a -> if not (oeqb a (den tt)) then setf c17 (F "HTMLEscape changes the value")
          | None -> setf c17 (F "HTMLEscape output does not parse"));
         if contains h "<" || contains h ">" || contains h "&" then setf c17 (F "HTMLEscape leaves < > &")
       end;
       let chk name =
         if has f name then begin
           let r = get f name in
           if r.[0] <> '1' then setf c17 (F (name ^ " fails")) else
             match den_s (unhex (String.sub r 1 (String.length r - 1))) with
             | Some a -> if not (jeq a (den tt) && jeq (den tt) a) then setf c17 (F ("decode then encode changes the value (" ^ name ^ ")"))
             | None -> setf c17 (F (name ^ " does not parse"))
         end in
       (* a Go map cannot hold a repeated name twice: decode-then-encode is only claimed without duplicates *)
       if tnodup tt then begin chk "remarshal1"; chk "remarshal0" end;
       if has f "keys" then begin
         match tt with
         | TObj ms ->
           let want = String.concat "," (List.map (fun (k, _) -> tohex (string_of_bytes (unquote k))) ms) in
           if want <> get f "keys" then setf c17 (F "key list is not the member names in document order")
         | _ -> ()
       end
     | None -> ());
    (* the public entry points on this text: ill-formed must be rejected *)
    if has f "api" then begin
      match String.split_on_char ',' (get f "api") with
      | [eq; dec; mst; cst; ap] ->
        if not spec then begin
          if eq <> "ok0" then setf c16 (F "Equal accepts ill-formed input");
          if dec <> "0" then setf c16 (F "DecodePatch accepts ill-formed input");
          if mst = "ok" then setf c16 (F "MergePatch accepts ill-formed input");
          if cst = "ok" then setf c16 (F "CreateMergePatch accepts ill-formed input");
          if String.length ap >= 3 && String.sub ap 0 3 = "ok1" && inp <> "" then setf c16 (F "Apply accepts an ill-formed document")
          else if String.length ap >= 3 && String.sub ap 0 3 = "ok1" && inp = "" then setf c16 (K ("c16-empty-document", "Apply returns the empty document unchanged instead of rejecting it"))
        end else begin
          if eq <> "ok1" then setf c16 (F "Equal(x,x) is not true on well-formed input");
          (match t with
           | Some (TObj _) | Some (TArr _) ->
             if not (String.length ap >= 3 && String.sub ap 0 3 = "ok1") then setf c16 (F "Apply rejects a well-formed object/array document")
           | _ -> ());
          (match t with
           | Some TNull -> ()
           | _ -> if mst <> "ok" then setf c16 (F "MergePatch rejects well-formed input"))
        end;
        if has f "apix" then
          List.iter (fun e ->
            match String.split_on_char ':' e with
            | [tagged; st] ->
              let name, partner = (match String.split_on_char '#' tagged with
                  | [n; k] -> n, (try int_of_string k with _ -> -1) | _ -> tagged, -1) in
              (* partners: 0 null, 1 null with white space, 2 {}, 3 {"a":1}, 4 [], 5 1 *)
              if st = "panic" || (String.length st >= 5 && String.sub st 0 5 = "panic") then vs := ["C04", F ("panic in " ^ name)]
              else if not spec && (st = "ok" || st = "ok1") then
                setf c16 (F (name ^ " accepts an ill-formed argument (the other one well formed)"))
              else if spec && st <> "ok" then begin
                (* well-formed texts must not be rejected as ill-formed: the combinations whose outcome does
                   not depend on the value *)
                let is_obj = (match t with Some (TObj _) -> true | _ -> false) in
                let nonnull = (match t with Some TNull -> false | Some _ -> true | None -> false) in
                if name = "MergePatch/2" && (partner = 2 || partner = 3) then setf c16 (F "MergePatch rejects a well-formed patch")
                else if name = "MergePatch/1" && nonnull && (partner = 2 || partner = 3 || partner = 4 || partner = 5) then setf c16 (F "MergePatch rejects a well-formed document")
                else if (name = "CreateMergePatch/1" || name = "CreateMergePatch/2") && is_obj && (partner = 2 || partner = 3) then
                  setf c16 (F "CreateMergePatch rejects a well-formed object")
              end
            | _ -> ()) (String.split_on_char ';' (get f "apix"));
        if String.length eq < 2 || String.sub eq 0 2 <> "ok" || mst = "panic" || cst = "panic" || (String.length ap >= 2 && String.sub ap 0 2 <> "ok")
        then vs := ["C04", F "panic in an entry point"]
      | _ -> ()
    end
  end;
  out_line id "valid" (!vs @ ["C16", !c16; "C17", !c17]) ""

(* ---------- comparison with encoding/json (observed on the Go side; nothing to model) ---------- *)
let judge_stdcmp f =
  let id = get f "id" in
  let v = if get f "status" <> "ok" then F ("panic in the embedded codec (" ^ get f "what" ^ ")")
    else if get f "same" = "1" then P
    else F ("the embedded codec and encoding/json differ (" ^ get f "what" ^ ": " ^ unhex (get f "in") ^ ")") in
  let c16 = if get f "what" = "after-refused-decode" then
      (if get f "same" = "1" then P else F ("a well-formed text is rejected after an earlier decode was refused by a caller's Unmarshaler: " ^ unhex (get f "in")))
    else S "codec-comparison" in
  out_line id "stdcmp" ["C17", v; "C16", c16; "C04", (if get f "status" = "ok" then P else F "panic")] ""

(* ---------- cli ---------- *)
let judge_cli f =
  let id = get f "id" in
  let stdin_ = unhex (get f "stdin") in
  let files = if get f "files" = "" then [] else String.split_on_char ';' (get f "files") in
  let exit_ = int_of_string (get f "exit") in
  let stdout_ = unhex (get f "stdout") in
  let stderr_nonempty = get f "stderr" = "1" in
  (* the model of the command (Cli.cli_run, extracted): Some out / None *)
  let pfiles = List.map (fun fl ->
      match String.index_opt fl ':' with
      | Some i when String.sub fl 0 i = "file" -> PFile (hexb (String.sub fl (i+1) (String.length fl - i - 1)))
      | _ -> PUnreadable) files in
  let expected = cli_run pfiles (bytes_of_string stdin_) in
  let c20 = match expected with
    | Some b ->
      if exit_ <> 0 then F "exit status non-zero where every patch applies"
      else if stdout_ <> string_of_bytes b then
        (* the property pins the bytes: exactly what the library's Apply produces (stdin verbatim
           when there is no patch) *)
        (match den_s stdout_, den_s (string_of_bytes b) with
         | Some x, Some y when oeqb x y -> F "stdout is the right value but not the bytes the library produces"
         | _ -> F "stdout is not the document the library produces")
      else P
    | None ->
      if exit_ = 0 then F "exit status 0 although a patch file is unreadable, undecodable or fails to apply"
      else if stdout_ <> "" then F "a document is written to stdout on failure"
      else if not stderr_nonempty then F "nothing on stderr on failure"
      else P in
  out_line id "cli" ["C20", c20] ""

(* ---------- history calls: each call against the history-free model ---------- *)
let judge_hcall f =
  let id = get f "id" in
  let kind = get f "call" in
  let a = unhex (get f "a") and b = (if get f "b" = "" then "" else unhex (get f "b")) in
  let res = get f "res" in
  let v =
    match kind with
    | "equal" ->
      let m = api_equal (bytes_of_string a) (bytes_of_string b) in
      if res = "ok:" ^ (if m then "1" else "0") then P else F ("Equal in a history: " ^ res)
    | "apply" ->
      (match api_decode (hexb (get f "patch")) with
       | None -> S "patch"
       | Some ops ->
         let o = mk_opts (get f "flags") (if has f "limit" then int_of_string (get f "limit") else 0) in
         let run o = api_apply o (hexb (get f "indent")) ops (bytes_of_string a) in
         let is_ok_res = (match String.split_on_char ':' res with ["ok"; "000000"; _] -> true | _ -> false) in
         let is_out r = (match r with ROut _ -> true | _ -> false) in
         (* a copied null may be counted as 0 or 4 bytes (see judge_apply): take the variant that agrees *)
         let r = (let r0 = run o in
                  if is_out r0 = is_ok_res then r0 else
                  let r1 = run { o with o_nullsz = Some (z_of_int 0) } in
                  if is_out r1 = is_ok_res then r1 else
                  let r2 = run { o with o_nullsz = Some (z_of_int 4) } in
                  if is_out r2 = is_ok_res then r2 else r0) in
         (match String.split_on_char ':' res, r with
          | ["ok"; "000000"; h], ROut mb ->
            let out = unhex h in
            if out = string_of_bytes mb then P else
              (match den_s out, den_s (string_of_bytes mb) with
               | Some x, Some y when oeqb x y -> P
               | _ -> F "Apply in a history differs from the history-free model")
          | ["ok"; bits; _], RErr _ when String.length bits = 6 && bits.[5] = '1' -> P
          | _, RPanic -> S "model-panic"
          | _ -> F ("Apply in a history: " ^ res)))
    | "merge" | "mm" ->
      let m = api_merge (kind = "mm") (bytes_of_string a) (bytes_of_string b) in
      let st, _, out = parse_obs res in
      (match m with
       | MOut mb -> if st = "ok" && (match den_s out, den_s (string_of_bytes mb) with Some x, Some y -> jeq x y && jeq y x | _ -> false) then P else F "merge in a history differs from the model"
       | MErr _ -> if st = "err" then P else F "merge in a history succeeds where the model fails")
    | "create" ->
      let m = api_create (bytes_of_string a) (bytes_of_string b) in
      let st, _, out = parse_obs res in
      (match m with
       | MOut mb -> if st = "ok" && out = string_of_bytes mb then P else F "CreateMergePatch in a history differs from the model"
       | MErr _ -> if st = "err" then P else F "CreateMergePatch in a history succeeds where the model fails")
    | "decode" ->
      let m = api_decode (bytes_of_string a) in
      (match m with
       | Some ops -> if res = Printf.sprintf "ok:1%d" (List.length ops) then P else F "DecodePatch in a history differs"
       | None -> if String.length res >= 4 && String.sub res 0 4 = "ok:0" then P else F "DecodePatch in a history accepts")
    | _ -> S "kind" in
  out_line id "hcall" ["C09", v; "C10", v] (get f "hist" ^ "@" ^ get f "pos")

let judge_history f =
  let id = get f "id" in
  let m = int_of_string (get f "mutated_at") and d = int_of_string (get f "differs_at") in
  out_line id "history" ["C09", (if m >= 0 then F (Printf.sprintf "an input buffer or the Patch was modified by call %d" m)
                                 else if d >= 0 then F (Printf.sprintf "call %d gives a different result when repeated in another order" d) else P)] ("hist " ^ get f "hist")

let judge_concurrent f =
  let id = get f "id" in
  let d = int_of_string (get f "differs_at") in
  out_line id "concurrent" ["C10", (if get f "mutated" = "1" then F "a shared input was modified"
                                    else if d >= 0 then F (Printf.sprintf "call %d differs from its solo result under concurrency" d) else P)] ("run " ^ get f "run")

(* ---------- legacy root package ---------- *)
let judge_apply4 f =
  let id = get f "id" in
  let flags = get f "flags" in
  let limit = int_of_string (get f "limit") in
  let g = { g_neg = flags.[0] = '1'; g_limit = z_of_int limit; g_nullsz = None } in
  let indent = unhex (get f "indent") in
  let patch = unhex (get f "patch") and doc = unhex (get f "doc") in
  let status = get f "status" in
  let dec = get f "dec" = "1" in
  let out = unhex (get f "out") in
  let errbits = get f "errbits" in
  let c04 = if status = "panic" || status = "timeout" then F status else P in
  let vs = ref ["C04", c04] in
  let add p v = vs := !vs @ [p, v] in
  (match api_decode4 (bytes_of_string patch) with
   | Some ops when dec && status <> "panic" && status <> "timeout" ->
     let r = api_apply4 g (bytes_of_string indent) ops (bytes_of_string doc) in
     let impl_ok = status = "ok" in
     let model_ok = (match r with Out4 _ -> true | _ -> false) in
     add "FID" (if impl_ok = model_ok && (not impl_ok || (match r with Out4 b -> (string_of_bytes b = out) || (match den_s out, den_s (string_of_bytes b) with Some x, Some y -> jeq x y && jeq y x | _ -> false) | _ -> false)) then P else D "model differs");
     (* C12 in the legacy package: the package variable; null counted 0 or 4 (see judge_apply) *)
     let impl_cl = String.length errbits > 2 && errbits.[2] = '1' in
     let cl_under z = (match api_apply4 { g with g_nullsz = Some (z_of_int z) } (bytes_of_string indent) ops (bytes_of_string doc) with
         | Err4 (_, ECopyLimit _) -> true | _ -> false) in
     let ptr_ok = List.for_all (fun (op : operation) ->
         let okp name = (match op_str op (bytes_of_string name) with Ok0 p -> pointer_ok p | _ -> true) in
         okp "path" && okp "from") ops in
     add "C12" (if limit = 0 then (if impl_cl then F "limit 0 but AccumulatedCopySizeError" else P)
                else if not ptr_ok then S "model-domain"
                else let m0 = cl_under 0 and m4 = cl_under 4 in
                  if impl_cl = m0 || impl_cl = m4 then P
                  else F (Printf.sprintf "copy-limit error impl=%b model=%b/%b (legacy package, null counted 0/4)" impl_cl m0 m4));
     (* C18 *)
     let tdoc = parse_s doc in
     (* the property's restriction is on the strings that test operations compare (v4 compares
        spellings): the document and the operation VALUES are spelled without escapes; the op / path /
        from strings of the patch may be spelled in any way JSON allows *)
     let values_txt = String.concat " " (List.concat_map (fun (op : operation) ->
         match List.assoc_opt (bytes_of_string "value") op with
         | Some (Some v) -> [string_of_bytes (print false v)] | _ -> []) ops) in
     let spelled_plainly = not (contains doc "\\" || contains values_txt "\\" || contains doc "<" || contains doc ">" || contains doc "&"
                                || contains patch "<" || contains patch ">" || contains patch "&") in
     let dom = (match tdoc with
         | Some t -> root_container t && tnodup t && in_domain_C01 ops && spelled_plainly && limit = 0
                     (* no copy of a null that the patch itself wrote: the copy is a raw text null, which later
                        operations walk through like an empty object (V4NullWalk.v; outside the RFC reference) *)
                     && api_no_null_copy4 g ops (bytes_of_string doc)
                     && List.for_all (fun (op : operation) ->
                         let path = (match op_str op (bytes_of_string "path") with Ok0 p -> p | _ -> []) in
                         let from = (match op_str op (bytes_of_string "from") with Ok0 p -> p | _ -> []) in
                         (* RFC 6902 requires "value" for add, replace and test: an operation without it
                            is not an operation of the RFC (the legacy DecodePatch validates nothing) *)
                         let has_value = List.mem_assoc (bytes_of_string "value") op in
                         match op_kind op with
                         | KAdd -> path <> [] && has_value
                         | KReplace | KTest -> has_value
                         | KCopy | KMove -> from <> []
                         | KUnknown -> false
                         | _ -> true) ops
         | None -> false) in
     let alias = (match tdoc with
         | Some t -> has_number_alias (t :: List.concat_map (fun (op : operation) -> match List.assoc_opt (bytes_of_string "value") op with
             | Some (Some v) -> [v] | _ -> []) ops)
         | None -> false) in
     if not dom then add "C18" (S "domain")
     else if alias && List.exists op_is_test ops then add "C18" (S "number-alias")
     else begin
       match tdoc with
       | Some t ->
         (match rfc_apply g.g_neg (den t) (List.map den_op ops) with
          | Done rdoc ->
            if not impl_ok then add "C18" (F "the RFC reference applies every operation, Apply fails")
            else (match den_s out with
                | Some od -> add "C18" (if jeq od rdoc && jeq rdoc od then P else F "document differs from the RFC result")
                | None -> add "C18" (F "output does not parse"))
          | Failed (i, c) ->
            let op = List.nth ops (int_of_nat i) in
            let k = op_kind op in
            let must_fail = (c = FTest) || (c = FIndex) || ((k = KRemove || k = KMove) && (c = FMissingMember || c = FUnreachable)) in
            if not must_fail then add "C18" (S "failure-kind-not-listed")
            else if impl_ok then add "C18" (F ("reference fails (" ^ cause_str c ^ "), Apply succeeds"))
            else if get f "outnil" <> "1" then add "C18" (F "error with a document")
            else add "C18" P)
       | None -> ()
     end
   | _ -> ());
  out_line id "apply4" !vs ""

let judge_merge4 f =
  let id = get f "id" in
  let doc = unhex (get f "doc") and patch = unhex (get f "patch") in
  let st, _, out = parse_obs (get f "obs") in
  let c04 = if st = "panic" || st = "timeout" then F st else P in
  let c19 =
    match parse_s doc, parse_s patch with
    | Some td, Some tp when td <> TNull && tnodup td && tnodup tp && (match tp with TObj _ | TArr _ -> true | _ -> false) ->
      if st <> "ok" then F "MergePatch (legacy) fails" else
        (match den_s out with
         | Some od -> let spec = merge_patch (den td) (den tp) in if jeq od spec && jeq spec od then P else F "differs from the RFC 7396 result (legacy)"
         | None -> F "output does not parse")
    | _ -> S "domain" in
  let fid = match api_merge4 false (bytes_of_string doc) (bytes_of_string patch) with
    | MOut mb -> if st = "ok" && (match den_s out, den_s (string_of_bytes mb) with Some a, Some b -> jeq a b && jeq b a | _ -> false) then P else D "model differs"
    | MErr _ -> if st = "err" then P else D "model errs" in
  out_line id "merge4" ["C04", c04; "C19", c19; "FID", fid] ""

let judge_equal4 f =
  let id = get f "id" in
  let a = unhex (get f "a") and b = unhex (get f "b") in
  let st = get f "status" and st2 = get f "status2" in
  let res = get f "res" = "1" and res2 = get f "res2" = "1" in
  let c04 = if st <> "ok" || st2 <> "ok" then F (st ^ "/" ^ st2) else P in
  let c19 =
    match parse_s a, parse_s b with
    | Some ta, Some tb when root_container ta && root_container tb
                            && not (contains a "\\") && not (contains b "\\") && not (has_number_alias [ta; tb]) ->
      (* repeated member names: the decoder keeps the last value of a name (Go map), as in v5 *)
      let x = dedup_o (den ta) and y = dedup_o (den tb) in
      let spec = jeq x y && jeq y x in
      if st <> "ok" then F "panic" else if res <> spec then F (Printf.sprintf "Equal (legacy)=%b, structural equality=%b" res spec)
      else if res <> res2 then F "not symmetric" else P
    | _ -> S "domain" in
  let fid = (match api_equal4 (bytes_of_string a) (bytes_of_string b) with
      | Some r -> if st = "ok" && r = res then P else D "model differs"
      | None -> S "ill-formed") in
  out_line id "equal4" ["C04", c04; "C19", c19; "FID", fid] ""

(* ==================== BEGIN dump mode (tools/coqeval.py; DESIGN 7: extraction cross-check) ====================
   `oracle -dump`: instead of verdicts, print for each case line of a supported kind ONE line
       id <TAB> <canonical rendering of what the extracted model returns>
   for the main model call the judge of that kind makes, on inputs decoded from the case line exactly
   as the judge decodes them (same field names, unhex, mk_opts, z_of_int).  Nothing the implementation
   observed is read.  tools/coqeval.py evaluates the same calls inside Coq (vm_compute) and compares.
   Renderings:  OUT x<hex> | ERR <op index or -> <class> [<limit> <total>] | MERR <class> | PANIC | NONE
                | SOME <number of operations> | TRUE | FALSE | TRUE FALSE (two answers)          *)
let rec int_of_pos (p : positive) : int = match p with XH -> 1 | XO q -> 2 * int_of_pos q | XI q -> 2 * int_of_pos q + 1
let int_of_z (x : z) : int = match x with Z0 -> 0 | Zpos p -> int_of_pos p | Zneg p -> - (int_of_pos p)
let d_out (b : bytes) = "OUT " ^ tohex (string_of_bytes b)
let d_bool b = if b then "TRUE" else "FALSE"
let d_err (i : nat option) (e : errclass) =
  Printf.sprintf "ERR %s %s%s" (match i with Some n -> string_of_int (int_of_nat n) | None -> "-") (errclass_str e)
    (match e with ECopyLimit (l, t) -> Printf.sprintf " %d %d" (int_of_z l) (int_of_z t) | _ -> "")
let d_mres = function
  | MOut b -> d_out b
  | MErr e -> "MERR " ^ (match e with MBadDoc -> "bad-doc" | MBadPatch -> "bad-patch" | MBadTypes -> "bad-types")

let dump_case (kind : string) f : string option =
  match kind with
  | "apply" ->                                  (* judge_apply: api_decode, then api_apply under the case's options *)
    let o = mk_opts (get f "flags") (int_of_string (get f "limit")) in
    let indent = unhex (get f "indent") in
    let patch = unhex (get f "patch") and doc = unhex (get f "doc") in
    Some (match api_decode (bytes_of_string patch) with
        | None -> "NONE"
        | Some ops ->
          (match api_apply o (bytes_of_string indent) ops (bytes_of_string doc) with
           | ROut b -> d_out b | RErr (i, e) -> d_err i e | RPanic -> "PANIC"))
  | "apply4" ->                                 (* judge_apply4 *)
    let flags = get f "flags" in
    let g = { g_neg = flags.[0] = '1'; g_limit = z_of_int (int_of_string (get f "limit")); g_nullsz = None } in
    let indent = unhex (get f "indent") in
    let patch = unhex (get f "patch") and doc = unhex (get f "doc") in
    Some (match api_decode4 (bytes_of_string patch) with
        | None -> "NONE"
        | Some ops ->
          (match api_apply4 g (bytes_of_string indent) ops (bytes_of_string doc) with
           | Out4 b -> d_out b | Err4 (i, e) -> d_err i e | Panic4 -> "PANIC"))
  | "merge" ->                                  (* judge_merge *)
    let doc = unhex (get f "doc") and patch = unhex (get f "patch") in
    Some (d_mres (api_merge (get f "mode" = "mm") (bytes_of_string doc) (bytes_of_string patch)))
  | "merge4" ->                                 (* judge_merge4 *)
    let doc = unhex (get f "doc") and patch = unhex (get f "patch") in
    Some (d_mres (api_merge4 false (bytes_of_string doc) (bytes_of_string patch)))
  | "merge3" | "merge34" ->                     (* judge_merge3: the combined patch of p1 and p2 *)
    let p1 = unhex (get f "p1") and p2 = unhex (get f "p2") in
    Some (d_mres ((if kind = "merge34" then api_merge4 else api_merge) true (bytes_of_string p1) (bytes_of_string p2)))
  | "create" | "create4" ->                     (* judge_create (the legacy judge evaluates the same model) *)
    let a = unhex (get f "a") and b = unhex (get f "b") in
    Some (d_mres (api_create (bytes_of_string a) (bytes_of_string b)))
  | "equal" ->                                  (* judge_equal *)
    let a = unhex (get f "a") and b = unhex (get f "b") in
    Some (d_bool (api_equal (bytes_of_string a) (bytes_of_string b)))
  | "equal4" ->                                 (* judge_equal4 judges against jeq only; the legacy model is dumped all the same *)
    let a = unhex (get f "a") and b = unhex (get f "b") in
    Some (match api_equal4 (bytes_of_string a) (bytes_of_string b) with None -> "NONE" | Some r -> d_bool r)
  | "decode" ->                                 (* judge_decode *)
    Some (match api_decode (bytes_of_string (unhex (get f "in"))) with
        | None -> "NONE" | Some ops -> Printf.sprintf "SOME %d" (List.length ops))
  | "valid" ->                                  (* judge_valid: translated scanner, RFC 8259 reader *)
    let b = bytes_of_string (unhex (get f "in")) in
    Some (d_bool (model_valid b) ^ " " ^ d_bool (parse b <> None))
  | "cli" ->                                    (* judge_cli *)
    let files = if get f "files" = "" then [] else String.split_on_char ';' (get f "files") in
    let pfiles = List.map (fun fl ->
        match String.index_opt fl ':' with
        | Some i when String.sub fl 0 i = "file" -> PFile (hexb (String.sub fl (i+1) (String.length fl - i - 1)))
        | _ -> PUnreadable) files in
    Some (match cli_run pfiles (bytes_of_string (unhex (get f "stdin"))) with Some b -> d_out b | None -> "NONE")
  | _ -> None

let dump_mode = Array.length Sys.argv > 1 && Sys.argv.(1) = "-dump"
(* ==================== END dump mode ==================== *)

let () =
  try
    while true do
      let line = input_line stdin in
      match split_tab line with
      | kind :: rest when dump_mode ->
        let f = fields_of rest in
        (try (match dump_case kind f with Some s -> Printf.printf "%s\t%s\n" (get f "id") s | None -> ())
         with e -> Printf.printf "%s\tEXN %s\n" (get f "id") (esc_note (Printexc.to_string e)))
      | kind :: rest ->
        let f = fields_of rest in
        (try
           match kind with
           | "apply" -> judge_apply f
           | "equal" -> judge_equal f
           | "merge" -> judge_merge f
           | "merge3" -> judge_merge3 f
           | "create" -> judge_create f
           | "decode" -> judge_decode f
           | "valid" -> judge_valid f
           | "cli" -> judge_cli f
           | "apply4" -> judge_apply4 f
           | "merge4" -> judge_merge4 f
           | "merge34" -> judge_merge3 ~v4:true f
           | "create4" -> judge_create ~v4:true f
           | "stdcmp" -> judge_stdcmp f
           | "equal4" -> judge_equal4 f
           | "hcall" -> judge_hcall f
           | "history" -> judge_history f
           | "concurrent" -> judge_concurrent f
           | _ -> ()
         with e -> Printf.printf "%s\t%s\tORACLE=F:exception %s\t\n" (get f "id") kind (esc_note (Printexc.to_string e)))
      | [] -> ()
    done
  with End_of_file -> ()
